/*
 * Contracts for src/net/socket_address.c (C18). Redeclarations: the source is not edited.
 * Include AFTER stubs/inet.h (ghost log of inet_ntop/inet_pton, errno object) and BEFORE
 * "src/net/socket_address.c".
 *
 * Text produced by the formatters, as the property states it:
 *     AF_INET            "<ntop text>"            + ":<port>" when port != 0
 *     AF_INET6           "[<ntop text>]"          + ":<port>" when port != 0   (sa_addr_port_to_str)
 *                        "<ntop text>"                                         (sa_addr_to_str)
 *     AF_UNIX            "<sun_path>"
 * <ntop text> is whatever inet_ntop produced (ghost vf_ntop_txt[0..vf_ntop_len)), <port> is the
 * decimal number without leading zeros. Reported length == strlen of the text.
 */
#ifndef VF_CONTRACTS_SOCKET_ADDRESS_H
#define VF_CONTRACTS_SOCKET_ADDRESS_H
#include "vf/vf.h"
#include "stubs/inet.h"
#include "specs/netaddr_spec.h"

#define VF_SS_SIZE	sizeof(struct sockaddr_storage)
#define VF_SUN_MAX	sizeof(((struct sockaddr_un *)0)->sun_path)	/* 108 */

#ifndef VF_REPLAY
#ifndef VF_CONTRACTS_NET_UTILS_H
size_t vf_k;			/* ghost character index */
#endif
size_t vf_unix_len;		/* ghost: position of a NUL inside sun_path (precondition witness) */

#define VF_FAM(a)	((a)->ss_family)
#define VF_UN(a)	((const struct sockaddr_un *)(a))
#define VF_IN(a)	((const struct sockaddr_in *)(a))
#define VF_IN6(a)	((const struct sockaddr_in6 *)(a))
#define VF_IS_INET(a)	(VF_FAM(a) == AF_INET || VF_FAM(a) == AF_INET6)
#define VF_KNOWN_FAM(a)	(VF_FAM(a) == AF_INET || VF_FAM(a) == AF_INET6 || VF_FAM(a) == AF_UNIX)
/* port in host order */
#define VF_PORT(a)	((unsigned)(VF_FAM(a) == AF_INET ? VF_NTOHS(VF_IN(a)->sin_port) :	\
			 VF_FAM(a) == AF_INET6 ? VF_NTOHS(VF_IN6(a)->sin6_port) : 0u))
/* decimal digit j (0 = most significant) of a port that has d digits */
#define VF_POW10(e)	((e) == 0 ? 1u : (e) == 1 ? 10u : (e) == 2 ? 100u : (e) == 3 ? 1000u : 10000u)
#define VF_PORTDIGIT(p, d, j)	((char)('0' + (((unsigned)(p) / VF_POW10((d) - 1u - (j))) % 10u)))
/* AF_UNIX precondition: the path is a C string inside sun_path (strlcpy/strncmp need it):
 * some NUL exists (witness vf_unix_len). Its strlen is then characterised by the results. */
#define VF_UNIX_OK(a)	(vf_unix_len < VF_SUN_MAX && VF_UN(a)->sun_path[vf_unix_len] == 0)

#define VF_TOSTR_PRE									\
/* the address object belongs to the caller (harness): exactly one sockaddr_storage, read-only */	\
__CPROVER_requires(addr == NULL || __CPROVER_r_ok(addr, VF_SS_SIZE))			\
__CPROVER_requires(buf == NULL || __CPROVER_is_fresh(buf, buf_size))			\
__CPROVER_requires(buf_size_ret == NULL || __CPROVER_is_fresh(buf_size_ret, sizeof(size_t))) \
__CPROVER_requires((addr != NULL && VF_FAM(addr) == AF_UNIX) ==> VF_UNIX_OK(addr))	\
/* frame: the caller's buffer, the reported size; plus the models' ghosts and errno */	\
__CPROVER_assigns(buf != NULL && buf_size != 0: __CPROVER_object_upto(buf, buf_size))	\
__CPROVER_assigns(buf_size_ret != NULL: *buf_size_ret)					\
__CPROVER_assigns(vf_errno, vf_ntop_len, __CPROVER_object_whole(vf_ntop_txt))

/* Length L of the address text of a call: for INET/INET6 what inet_ntop produced (ghost), for
 * AF_UNIX the reported length, which the clauses below prove to be strlen(sun_path): sun_path[L]
 * is NUL and every byte before it is a copied non-NUL byte. Content clauses therefore need
 * buf_size_ret != NULL for AF_UNIX. */
#define VF_HAVE_L(a)	(VF_FAM(a) != AF_UNIX || buf_size_ret != NULL)
#define VF_ATXT_LEN(a)	(VF_FAM(a) == AF_UNIX ? *buf_size_ret : vf_ntop_len)
#define VF_ATXT(a, i)	(VF_FAM(a) == AF_UNIX ? VF_UN(a)->sun_path[(i) % VF_SUN_MAX] : vf_ntop_txt[(i) % VF_NTOP_MAX])

int sa_addr_to_str(const struct sockaddr_storage *addr, char *buf, size_t buf_size, size_t *buf_size_ret)
VF_TOSTR_PRE
__CPROVER_ensures(__CPROVER_return_value == 0 || __CPROVER_return_value == EINVAL ||
    __CPROVER_return_value == EAFNOSUPPORT || __CPROVER_return_value == ENOSPC)
__CPROVER_ensures((__CPROVER_return_value == EINVAL) == (addr == NULL || buf == NULL || buf_size == 0))
__CPROVER_ensures((addr != NULL && buf != NULL && buf_size != 0) ==>
    ((__CPROVER_return_value == EAFNOSUPPORT) == !VF_KNOWN_FAM(addr)))
/* success: NUL-terminated inside the buffer, reported length == strlen, text == address text */
__CPROVER_ensures((__CPROVER_return_value == 0 && buf_size_ret != NULL) ==>
    (*buf_size_ret < buf_size && *buf_size_ret == VF_ATXT_LEN(addr)))
__CPROVER_ensures((__CPROVER_return_value == 0 && VF_HAVE_L(addr)) ==>
    (VF_ATXT_LEN(addr) < buf_size && buf[VF_ATXT_LEN(addr)] == 0))
__CPROVER_ensures((__CPROVER_return_value == 0 && VF_HAVE_L(addr) && vf_k < VF_ATXT_LEN(addr)) ==>
    (buf[vf_k] == VF_ATXT(addr, vf_k) && buf[vf_k] != 0))
__CPROVER_ensures((__CPROVER_return_value == 0 && VF_FAM(addr) == AF_UNIX && buf_size_ret != NULL) ==>
    (*buf_size_ret < VF_SUN_MAX && VF_UN(addr)->sun_path[*buf_size_ret % VF_SUN_MAX] == 0))
/* AF_UNIX that does not fit: strlen(sun_path) is reported, the buffer holds a terminated prefix */
__CPROVER_ensures((__CPROVER_return_value == ENOSPC && VF_FAM(addr) == AF_UNIX) ==> buf[buf_size - 1] == 0)
__CPROVER_ensures((__CPROVER_return_value == ENOSPC && VF_FAM(addr) == AF_UNIX && buf_size_ret != NULL) ==>
    (*buf_size_ret >= buf_size && *buf_size_ret < VF_SUN_MAX &&
     VF_UN(addr)->sun_path[*buf_size_ret % VF_SUN_MAX] == 0))
__CPROVER_ensures((__CPROVER_return_value == ENOSPC && VF_FAM(addr) == AF_UNIX && vf_k < buf_size - 1) ==>
    (buf[vf_k] == VF_UN(addr)->sun_path[vf_k % VF_SUN_MAX] && buf[vf_k] != 0))
/* INET/INET6 fail only for lack of space */
__CPROVER_ensures((addr != NULL && buf != NULL && buf_size != 0 && VF_IS_INET(addr)) ==>
    (__CPROVER_return_value == 0 || __CPROVER_return_value == ENOSPC))
;

/* total text length of addr with port */
#define VF_BR(a)	(VF_FAM(a) == AF_INET6 ? 1u : 0u)	/* opening bracket */
#define VF_PTXT_LEN(a)	(VF_ATXT_LEN(a) + 2u * VF_BR(a) +				\
			 (VF_PORT(a) != 0 ? 1u + VF_PORTLEN(VF_PORT(a)) : 0u))
/* where the ':' of the port stands */
#define VF_COLON_AT(a)	(VF_ATXT_LEN(a) + 2u * VF_BR(a))

int sa_addr_port_to_str(const struct sockaddr_storage *addr, char *buf, size_t buf_size, size_t *buf_size_ret)
VF_TOSTR_PRE
__CPROVER_ensures(__CPROVER_return_value == 0 || __CPROVER_return_value == EINVAL ||
    __CPROVER_return_value == EAFNOSUPPORT || __CPROVER_return_value == ENOSPC)
__CPROVER_ensures((__CPROVER_return_value == EINVAL) == (addr == NULL || buf == NULL || buf_size == 0))
__CPROVER_ensures((addr != NULL && buf != NULL && buf_size != 0) ==>
    ((__CPROVER_return_value == EAFNOSUPPORT) == !VF_KNOWN_FAM(addr)))
/* success: reported length == strlen == length of "[addr]:port", NUL-terminated inside the buffer */
__CPROVER_ensures((__CPROVER_return_value == 0 && buf_size_ret != NULL) ==>
    (*buf_size_ret < buf_size && *buf_size_ret == VF_PTXT_LEN(addr)))
__CPROVER_ensures((__CPROVER_return_value == 0 && VF_HAVE_L(addr)) ==>
    (VF_PTXT_LEN(addr) < buf_size && buf[VF_PTXT_LEN(addr)] == 0))
/* brackets iff IPv6 */
__CPROVER_ensures((__CPROVER_return_value == 0 && VF_FAM(addr) == AF_INET6) ==>
    (buf[0] == '[' && buf[vf_ntop_len + 1u] == ']'))
/* the complete address text, unchanged, after the optional bracket */
__CPROVER_ensures((__CPROVER_return_value == 0 && VF_HAVE_L(addr) && vf_k < VF_ATXT_LEN(addr)) ==>
    (buf[vf_k + VF_BR(addr)] == VF_ATXT(addr, vf_k) && buf[vf_k + VF_BR(addr)] != 0))
__CPROVER_ensures((__CPROVER_return_value == 0 && VF_FAM(addr) == AF_UNIX && buf_size_ret != NULL) ==>
    (*buf_size_ret < VF_SUN_MAX && VF_UN(addr)->sun_path[*buf_size_ret % VF_SUN_MAX] == 0))
/* ":port" in decimal, no leading zeros, iff port != 0 */
__CPROVER_ensures((__CPROVER_return_value == 0 && VF_PORT(addr) != 0) ==>
    buf[VF_COLON_AT(addr)] == ':')
__CPROVER_ensures((__CPROVER_return_value == 0 && VF_PORT(addr) != 0 && vf_k < VF_PORTLEN(VF_PORT(addr))) ==>
    buf[VF_COLON_AT(addr) + 1u + vf_k] == VF_PORTDIGIT(VF_PORT(addr), VF_PORTLEN(VF_PORT(addr)), vf_k))
/* a reported size on ENOSPC is a size the caller does not have yet */
__CPROVER_ensures((__CPROVER_return_value == ENOSPC && buf_size_ret != NULL) ==>
    (*buf_size_ret == 0 || *buf_size_ret >= buf_size))
;

/* The parsers (sa_addr_from_str, sa_addr_port_from_str, str_net_to_ss) are specified in
 * harness/C18/parse.c against specs/netaddr_spec.h (plain harness: spec functions with loops in
 * dfcc ensures clauses made symbolic execution impractical, > 900 s at 12 bytes). */
#endif /* !VF_REPLAY */
#endif
