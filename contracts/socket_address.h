/*
 * Contracts for src/net/socket_address.c (C18). Redeclarations: the source is not edited.
 * Include AFTER stubs/inet.h (ghost log of inet_ntop/inet_pton, errno object) and BEFORE
 * "src/net/socket_address.c".
 *
 * Text produced by the formatters, as the property states it:
 *     AF_INET            "<ntop text>"            + ":<port>" when port != 0
 *     AF_INET6           "[<ntop text>]"          + ":<port>" when port != 0   (sa_addr_port_to_str)
 *                        "<ntop text>"                                         (sa_addr_to_str)
 *     AF_UNIX            "<sun_path>"
 * <ntop text> is whatever inet_ntop produced (ghost vf_ntop_txt[0..vf_ntop_len)), <port> is the
 * decimal number without leading zeros. Reported length == strlen of the text.
 */
#ifndef VF_CONTRACTS_SOCKET_ADDRESS_H
#define VF_CONTRACTS_SOCKET_ADDRESS_H
#include "vf/vf.h"
#include "stubs/inet.h"
#include "specs/netaddr_spec.h"

#define VF_SS_SIZE	sizeof(struct sockaddr_storage)
#define VF_SUN_MAX	sizeof(((struct sockaddr_un *)0)->sun_path)	/* 108 */

#ifndef VF_REPLAY
#ifndef VF_CONTRACTS_NET_UTILS_H
size_t vf_k;			/* ghost character index */
#endif
size_t vf_unix_len;		/* ghost: position of a NUL inside sun_path (precondition witness) */

#define VF_FAM(a)	((a)->ss_family)
#define VF_UN(a)	((const struct sockaddr_un *)(a))
#define VF_IN(a)	((const struct sockaddr_in *)(a))
#define VF_IN6(a)	((const struct sockaddr_in6 *)(a))
#define VF_IS_INET(a)	(VF_FAM(a) == AF_INET || VF_FAM(a) == AF_INET6)
#define VF_KNOWN_FAM(a)	(VF_FAM(a) == AF_INET || VF_FAM(a) == AF_INET6 || VF_FAM(a) == AF_UNIX)
/* port in host order */
#define VF_PORT(a)	((unsigned)(VF_FAM(a) == AF_INET ? VF_NTOHS(VF_IN(a)->sin_port) :	\
			 VF_FAM(a) == AF_INET6 ? VF_NTOHS(VF_IN6(a)->sin6_port) : 0u))
/* decimal digit j (0 = most significant) of a port that has d digits */
#define VF_POW10(e)	((e) == 0 ? 1u : (e) == 1 ? 10u : (e) == 2 ? 100u : (e) == 3 ? 1000u : 10000u)
#define VF_PORTDIGIT(p, d, j)	((char)('0' + (((unsigned)(p) / VF_POW10((d) - 1u - (j))) % 10u)))
/* AF_UNIX precondition: the path is a C string inside sun_path (strlcpy/strncmp need it):
 * some NUL exists (witness vf_unix_len). Its strlen is then characterised by the results. */
#define VF_UNIX_OK(a)	(vf_unix_len < VF_SUN_MAX && VF_UN(a)->sun_path[vf_unix_len] == 0)

#define VF_TOSTR_PRE									\
/* the address object belongs to the caller (harness): exactly one sockaddr_storage, read-only */	\
__CPROVER_requires(addr == NULL || __CPROVER_r_ok(addr, VF_SS_SIZE))			\
__CPROVER_requires(buf == NULL || __CPROVER_is_fresh(buf, buf_size))			\
__CPROVER_requires(buf_size_ret == NULL || __CPROVER_is_fresh(buf_size_ret, sizeof(size_t))) \
__CPROVER_requires((addr != NULL && VF_FAM(addr) == AF_UNIX) ==> VF_UNIX_OK(addr))	\
/* frame: the caller's buffer, the reported size; plus the models' ghosts and errno */	\
__CPROVER_assigns(buf != NULL && buf_size != 0: __CPROVER_object_upto(buf, buf_size))	\
__CPROVER_assigns(buf_size_ret != NULL: *buf_size_ret)					\
__CPROVER_assigns(vf_errno, vf_ntop_len, __CPROVER_object_whole(vf_ntop_txt))

/* Length L of the address text of a call: for INET/INET6 what inet_ntop produced (ghost), for
 * AF_UNIX the reported length, which the clauses below prove to be strlen(sun_path): sun_path[L]
 * is NUL and every byte before it is a copied non-NUL byte. Content clauses therefore need
 * buf_size_ret != NULL for AF_UNIX. */
#define VF_HAVE_L(a)	(VF_FAM(a) != AF_UNIX || buf_size_ret != NULL)
#define VF_ATXT_LEN(a)	(VF_FAM(a) == AF_UNIX ? *buf_size_ret : vf_ntop_len)
#define VF_ATXT(a, i)	(VF_FAM(a) == AF_UNIX ? VF_UN(a)->sun_path[(i) % VF_SUN_MAX] : vf_ntop_txt[(i) % VF_NTOP_MAX])

int sa_addr_to_str(const struct sockaddr_storage *addr, char *buf, size_t buf_size, size_t *buf_size_ret)
VF_TOSTR_PRE
__CPROVER_ensures(__CPROVER_return_value == 0 || __CPROVER_return_value == EINVAL ||
    __CPROVER_return_value == EAFNOSUPPORT || __CPROVER_return_value == ENOSPC)
__CPROVER_ensures((__CPROVER_return_value == EINVAL) == (addr == NULL || buf == NULL || buf_size == 0))
__CPROVER_ensures((addr != NULL && buf != NULL && buf_size != 0) ==>
    ((__CPROVER_return_value == EAFNOSUPPORT) == !VF_KNOWN_FAM(addr)))
/* success: NUL-terminated inside the buffer, reported length == strlen, text == address text */
__CPROVER_ensures((__CPROVER_return_value == 0 && buf_size_ret != NULL) ==>
    (*buf_size_ret < buf_size && *buf_size_ret == VF_ATXT_LEN(addr)))
__CPROVER_ensures((__CPROVER_return_value == 0 && VF_HAVE_L(addr)) ==>
    (VF_ATXT_LEN(addr) < buf_size && buf[VF_ATXT_LEN(addr)] == 0))
__CPROVER_ensures((__CPROVER_return_value == 0 && VF_HAVE_L(addr) && vf_k < VF_ATXT_LEN(addr)) ==>
    (buf[vf_k] == VF_ATXT(addr, vf_k) && buf[vf_k] != 0))
__CPROVER_ensures((__CPROVER_return_value == 0 && VF_FAM(addr) == AF_UNIX && buf_size_ret != NULL) ==>
    (*buf_size_ret < VF_SUN_MAX && VF_UN(addr)->sun_path[*buf_size_ret % VF_SUN_MAX] == 0))
/* AF_UNIX that does not fit: strlen(sun_path) is reported, the buffer holds a terminated prefix */
__CPROVER_ensures((__CPROVER_return_value == ENOSPC && VF_FAM(addr) == AF_UNIX) ==> buf[buf_size - 1] == 0)
__CPROVER_ensures((__CPROVER_return_value == ENOSPC && VF_FAM(addr) == AF_UNIX && buf_size_ret != NULL) ==>
    (*buf_size_ret >= buf_size && *buf_size_ret < VF_SUN_MAX &&
     VF_UN(addr)->sun_path[*buf_size_ret % VF_SUN_MAX] == 0))
__CPROVER_ensures((__CPROVER_return_value == ENOSPC && VF_FAM(addr) == AF_UNIX && vf_k < buf_size - 1) ==>
    (buf[vf_k] == VF_UN(addr)->sun_path[vf_k % VF_SUN_MAX] && buf[vf_k] != 0))
/* INET/INET6 fail only for lack of space */
__CPROVER_ensures((addr != NULL && buf != NULL && buf_size != 0 && VF_IS_INET(addr)) ==>
    (__CPROVER_return_value == 0 || __CPROVER_return_value == ENOSPC))
;

/* total text length of addr with port */
#define VF_BR(a)	(VF_FAM(a) == AF_INET6 ? 1u : 0u)	/* opening bracket */
#define VF_PTXT_LEN(a)	(VF_ATXT_LEN(a) + 2u * VF_BR(a) +				\
			 (VF_PORT(a) != 0 ? 1u + VF_PORTLEN(VF_PORT(a)) : 0u))
/* where the ':' of the port stands */
#define VF_COLON_AT(a)	(VF_ATXT_LEN(a) + 2u * VF_BR(a))

int sa_addr_port_to_str(const struct sockaddr_storage *addr, char *buf, size_t buf_size, size_t *buf_size_ret)
VF_TOSTR_PRE
__CPROVER_ensures(__CPROVER_return_value == 0 || __CPROVER_return_value == EINVAL ||
    __CPROVER_return_value == EAFNOSUPPORT || __CPROVER_return_value == ENOSPC)
__CPROVER_ensures((__CPROVER_return_value == EINVAL) == (addr == NULL || buf == NULL || buf_size == 0))
__CPROVER_ensures((addr != NULL && buf != NULL && buf_size != 0) ==>
    ((__CPROVER_return_value == EAFNOSUPPORT) == !VF_KNOWN_FAM(addr)))
/* success: reported length == strlen == length of "[addr]:port", NUL-terminated inside the buffer */
__CPROVER_ensures((__CPROVER_return_value == 0 && buf_size_ret != NULL) ==>
    (*buf_size_ret < buf_size && *buf_size_ret == VF_PTXT_LEN(addr)))
__CPROVER_ensures((__CPROVER_return_value == 0 && VF_HAVE_L(addr)) ==>
    (VF_PTXT_LEN(addr) < buf_size && buf[VF_PTXT_LEN(addr)] == 0))
/* brackets iff IPv6 */
__CPROVER_ensures((__CPROVER_return_value == 0 && VF_FAM(addr) == AF_INET6) ==>
    (buf[0] == '[' && buf[vf_ntop_len + 1u] == ']'))
/* the complete address text, unchanged, after the optional bracket */
__CPROVER_ensures((__CPROVER_return_value == 0 && VF_HAVE_L(addr) && vf_k < VF_ATXT_LEN(addr)) ==>
    (buf[vf_k + VF_BR(addr)] == VF_ATXT(addr, vf_k) && buf[vf_k + VF_BR(addr)] != 0))
__CPROVER_ensures((__CPROVER_return_value == 0 && VF_FAM(addr) == AF_UNIX && buf_size_ret != NULL) ==>
    (*buf_size_ret < VF_SUN_MAX && VF_UN(addr)->sun_path[*buf_size_ret % VF_SUN_MAX] == 0))
/* ":port" in decimal, no leading zeros, iff port != 0 */
__CPROVER_ensures((__CPROVER_return_value == 0 && VF_PORT(addr) != 0) ==>
    buf[VF_COLON_AT(addr)] == ':')
__CPROVER_ensures((__CPROVER_return_value == 0 && VF_PORT(addr) != 0 && vf_k < VF_PORTLEN(VF_PORT(addr))) ==>
    buf[VF_COLON_AT(addr) + 1u + vf_k] == VF_PORTDIGIT(VF_PORT(addr), VF_PORTLEN(VF_PORT(addr)), vf_k))
/* a reported size on ENOSPC is a size the caller does not have yet */
__CPROVER_ensures((__CPROVER_return_value == ENOSPC && buf_size_ret != NULL) ==>
    (*buf_size_ret == 0 || *buf_size_ret >= buf_size))
;

/* The parsers (sa_addr_from_str, sa_addr_port_from_str, str_net_to_ss) are specified in
 * harness/C18/parse.c against specs/netaddr_spec.h (plain harness: spec functions with loops in
 * dfcc ensures clauses made symbolic execution impractical, > 900 s at 12 bytes). */

/* ---- small accessors: family dispatch as the API documents it, frame ----------------------- */
#define VF_FAM_SIZE(f)	((f) == AF_UNIX ? sizeof(struct sockaddr_un) : (f) == AF_INET ?		\
			 sizeof(struct sockaddr_in) : (f) == AF_INET6 ? sizeof(struct sockaddr_in6) : VF_SS_SIZE)
#define VF_ADDR_SIZE(f)	((f) == AF_INET ? 4u : (f) == AF_INET6 ? 16u : 0u)
#define VF_W_UN(a)	((struct sockaddr_un *)(a))
#define VF_W_IN(a)	((struct sockaddr_in *)(a))
#define VF_W_IN6(a)	((struct sockaddr_in6 *)(a))
size_t vf_src_len;	/* ghost: strlen of an AF_UNIX source path (set by the harness that builds it) */

sa_family_t sa_family(const struct sockaddr_storage *addr)
__CPROVER_requires(addr == NULL || __CPROVER_is_fresh(addr, VF_SS_SIZE))
__CPROVER_assigns()
__CPROVER_ensures(__CPROVER_return_value == ((addr != NULL && VF_KNOWN_FAM(addr)) ? VF_FAM(addr) : 0))
;
socklen_t sa_size(const struct sockaddr_storage *addr)
__CPROVER_requires(addr == NULL || __CPROVER_is_fresh(addr, VF_SS_SIZE))
__CPROVER_assigns()
__CPROVER_ensures(__CPROVER_return_value == (addr == NULL ? 0 : VF_FAM_SIZE(VF_FAM(addr))))
;
uint16_t sa_port_get(const struct sockaddr_storage *addr)
__CPROVER_requires(addr == NULL || __CPROVER_is_fresh(addr, VF_SS_SIZE))
__CPROVER_assigns()
__CPROVER_ensures(__CPROVER_return_value == (addr == NULL ? 0 : VF_PORT(addr)))
;
int sa_port_set(struct sockaddr_storage *addr, const uint16_t port)
__CPROVER_requires(addr == NULL || __CPROVER_is_fresh(addr, VF_SS_SIZE))
/* frame: the port field of the family in use, nothing else */
__CPROVER_assigns(addr != NULL && VF_FAM(addr) == AF_INET: VF_W_IN(addr)->sin_port)
__CPROVER_assigns(addr != NULL && VF_FAM(addr) == AF_INET6: VF_W_IN6(addr)->sin6_port)
__CPROVER_ensures(__CPROVER_return_value == (addr == NULL ? EINVAL : VF_KNOWN_FAM(addr) ? 0 : EAFNOSUPPORT))
__CPROVER_ensures((addr != NULL && VF_IS_INET(addr)) ==> VF_PORT(addr) == port)
;
void *sa_addr_get(const struct sockaddr_storage *addr)
__CPROVER_requires(addr == NULL || __CPROVER_is_fresh(addr, VF_SS_SIZE))
__CPROVER_assigns()
__CPROVER_ensures((addr == NULL || !VF_KNOWN_FAM(addr)) ==> __CPROVER_return_value == NULL)
__CPROVER_ensures((addr != NULL && VF_FAM(addr) == AF_UNIX) ==> __CPROVER_return_value == (void *)VF_UN(addr)->sun_path)
__CPROVER_ensures((addr != NULL && VF_FAM(addr) == AF_INET) ==> __CPROVER_return_value == (void *)&VF_IN(addr)->sin_addr)
__CPROVER_ensures((addr != NULL && VF_FAM(addr) == AF_INET6) ==> __CPROVER_return_value == (void *)&VF_IN6(addr)->sin6_addr)
;
/* source of an address: 4 / 16 bytes, or (AF_UNIX) a C string of exactly vf_src_len characters.
 * The harness builds the source as an exact-size heap object (so over-reads are caught) and, for
 * AF_UNIX, makes vf_src_len its strlen (bytes before it non-NUL): a universally quantified
 * precondition cannot be written with a ghost index. */
#define VF_SRC_PRE(fam)									\
__CPROVER_requires(sin_addr == NULL || __CPROVER_r_ok(sin_addr,				\
    (fam) == AF_UNIX ? vf_src_len + 1u : VF_ADDR_SIZE(fam)))				\
__CPROVER_requires((sin_addr != NULL && (fam) == AF_UNIX) ==>				\
    (vf_src_len <= VF_SRC_MAX && ((const char *)sin_addr)[vf_src_len] == 0))
#ifndef VF_SRC_MAX
#define VF_SRC_MAX	120u	/* longer than sun_path: truncation is covered */
#endif
/* the stored address equals the source (ghost index); a path is cut to fit and NUL-terminated */
#define VF_SRC_POST(cond, fam)								\
__CPROVER_ensures(((cond) && (fam) == AF_INET && vf_k < 4) ==>				\
    ((const uint8_t *)&VF_IN(addr)->sin_addr)[vf_k] == ((const uint8_t *)sin_addr)[vf_k]) \
__CPROVER_ensures(((cond) && (fam) == AF_INET6 && vf_k < 16) ==>			\
    VF_IN6(addr)->sin6_addr.s6_addr[vf_k] == ((const uint8_t *)sin_addr)[vf_k])		\
__CPROVER_ensures(((cond) && (fam) == AF_UNIX && vf_k < VF_SUN_MAX - 1u && vf_k < vf_src_len) ==>	\
    VF_UN(addr)->sun_path[vf_k] == ((const char *)sin_addr)[vf_k])			\
__CPROVER_ensures(((cond) && (fam) == AF_UNIX) ==>					\
    VF_UN(addr)->sun_path[vf_src_len < VF_SUN_MAX ? vf_src_len : VF_SUN_MAX - 1u] == 0)

int sa_addr_set(struct sockaddr_storage *addr, const void *sin_addr)
/* the address object is the harness's (its family decides which source the harness builds) */
__CPROVER_requires(addr == NULL || __CPROVER_w_ok(addr, VF_SS_SIZE))
VF_SRC_PRE(addr == NULL ? 0 : VF_FAM(addr))
__CPROVER_assigns(addr != NULL && sin_addr != NULL && VF_FAM(addr) == AF_UNIX: __CPROVER_object_upto(VF_W_UN(addr)->sun_path, VF_SUN_MAX))
__CPROVER_assigns(addr != NULL && sin_addr != NULL && VF_FAM(addr) == AF_INET: VF_W_IN(addr)->sin_addr)
__CPROVER_assigns(addr != NULL && sin_addr != NULL && VF_FAM(addr) == AF_INET6: VF_W_IN6(addr)->sin6_addr)
__CPROVER_ensures(__CPROVER_return_value == ((addr == NULL || sin_addr == NULL) ? EINVAL :
    VF_KNOWN_FAM(addr) ? 0 : EAFNOSUPPORT))
VF_SRC_POST(__CPROVER_return_value == 0, VF_FAM(addr))
;

int sa_init(struct sockaddr_storage *addr, const sa_family_t family, const void *sin_addr, const uint16_t port)
__CPROVER_requires(addr == NULL || __CPROVER_is_fresh(addr, VF_SS_SIZE))
VF_SRC_PRE(family)
/* frame: only the bytes of the family's own sockaddr type; an unknown family writes nothing */
__CPROVER_assigns(addr != NULL && family == AF_UNIX: __CPROVER_object_upto(addr, sizeof(struct sockaddr_un)))
__CPROVER_assigns(addr != NULL && family == AF_INET: __CPROVER_object_upto(addr, sizeof(struct sockaddr_in)))
__CPROVER_assigns(addr != NULL && family == AF_INET6: __CPROVER_object_upto(addr, sizeof(struct sockaddr_in6)))
__CPROVER_ensures(__CPROVER_return_value == (addr == NULL ? EINVAL :
    (family == AF_UNIX || family == AF_INET || family == AF_INET6) ? 0 : EAFNOSUPPORT))
__CPROVER_ensures(__CPROVER_return_value == 0 ==> VF_FAM(addr) == family)
__CPROVER_ensures((__CPROVER_return_value == 0 && family != AF_UNIX) ==> VF_PORT(addr) == port)
/* address = source, or all zero without a source; the remaining fields are zero */
VF_SRC_POST(__CPROVER_return_value == 0 && sin_addr != NULL, family)
__CPROVER_ensures((__CPROVER_return_value == 0 && sin_addr == NULL && family == AF_INET) ==>
    VF_IN(addr)->sin_addr.s_addr == 0)
__CPROVER_ensures((__CPROVER_return_value == 0 && sin_addr == NULL && family == AF_INET6 && vf_k < 16) ==>
    VF_IN6(addr)->sin6_addr.s6_addr[vf_k] == 0)
__CPROVER_ensures((__CPROVER_return_value == 0 && sin_addr == NULL && family == AF_UNIX && vf_k < VF_SUN_MAX) ==>
    VF_UN(addr)->sun_path[vf_k] == 0)
__CPROVER_ensures((__CPROVER_return_value == 0 && family == AF_INET6) ==>
    (VF_IN6(addr)->sin6_flowinfo == 0 && VF_IN6(addr)->sin6_scope_id == 0))
__CPROVER_ensures((__CPROVER_return_value == 0 && family == AF_INET && vf_k < 8) ==>
    VF_IN(addr)->sin_zero[vf_k] == 0)
;

/* ---- predicates on the address, stated on the host-order integer / the bytes --------------- */
#define VF_A4H(a)	VF_NTOHL(VF_IN(a)->sin_addr.s_addr)
#define VF_A6B(a, i)	(VF_IN6(a)->sin6_addr.s6_addr[i])
#define VF_A6_HI15_ZERO(a) (VF_A6B(a,0) == 0 && VF_A6B(a,1) == 0 && VF_A6B(a,2) == 0 && VF_A6B(a,3) == 0 && \
	VF_A6B(a,4) == 0 && VF_A6B(a,5) == 0 && VF_A6B(a,6) == 0 && VF_A6B(a,7) == 0 &&	\
	VF_A6B(a,8) == 0 && VF_A6B(a,9) == 0 && VF_A6B(a,10) == 0 && VF_A6B(a,11) == 0 &&	\
	VF_A6B(a,12) == 0 && VF_A6B(a,13) == 0 && VF_A6B(a,14) == 0)
#define VF_PRED_CONTRACT(fn, UN, IN4, IN6)						\
int fn(const struct sockaddr_storage *addr)						\
__CPROVER_requires(addr == NULL || __CPROVER_is_fresh(addr, VF_SS_SIZE))		\
__CPROVER_assigns()									\
__CPROVER_ensures((__CPROVER_return_value != 0) == (addr != NULL && (			\
    (VF_FAM(addr) == AF_UNIX && (UN)) || (VF_FAM(addr) == AF_INET && (IN4)) ||		\
    (VF_FAM(addr) == AF_INET6 && (IN6)))))						\
;
VF_PRED_CONTRACT(sa_addr_is_specified, VF_UN(addr)->sun_path[0] != 0, VF_A4H(addr) != 0,
    !(VF_A6_HI15_ZERO(addr) && VF_A6B(addr, 15) == 0))
VF_PRED_CONTRACT(sa_addr_is_loopback, 0, (VF_A4H(addr) >> 24) == 127,		/* 127.0.0.0/8, ::1 */
    (VF_A6_HI15_ZERO(addr) && VF_A6B(addr, 15) == 1))
VF_PRED_CONTRACT(sa_addr_is_multicast, 0, (VF_A4H(addr) >> 28) == 14,		/* 224.0.0.0/4, ff00::/8 */
    VF_A6B(addr, 0) == 0xff)
VF_PRED_CONTRACT(sa_addr_is_broadcast, 0, VF_A4H(addr) == 0xffffffffu, 0)	/* 255.255.255.255 */

#define VF_B_EQ(a, b, i)	(VF_A6B(a, i) == VF_A6B(b, i))
#define VF_A6_EQ(a, b)	(VF_B_EQ(a,b,0) && VF_B_EQ(a,b,1) && VF_B_EQ(a,b,2) && VF_B_EQ(a,b,3) &&	\
	VF_B_EQ(a,b,4) && VF_B_EQ(a,b,5) && VF_B_EQ(a,b,6) && VF_B_EQ(a,b,7) && VF_B_EQ(a,b,8) &&	\
	VF_B_EQ(a,b,9) && VF_B_EQ(a,b,10) && VF_B_EQ(a,b,11) && VF_B_EQ(a,b,12) && VF_B_EQ(a,b,13) &&	\
	VF_B_EQ(a,b,14) && VF_B_EQ(a,b,15))
/* ---- equality ------------------------------------------------------------------------------ */
/* both objects belong to the harness (they may be the SAME object); AF_UNIX paths are C strings */
#define VF_EQ_CONTRACT(fn, WITH_PORT)							\
int fn(const struct sockaddr_storage *addr1, const struct sockaddr_storage *addr2)	\
__CPROVER_requires(addr1 == NULL || __CPROVER_r_ok(addr1, VF_SS_SIZE))			\
__CPROVER_requires(addr2 == NULL || __CPROVER_r_ok(addr2, VF_SS_SIZE))			\
__CPROVER_assigns()									\
__CPROVER_ensures(__CPROVER_return_value == 0 || __CPROVER_return_value == 1)		\
__CPROVER_ensures((addr1 == NULL || addr2 == NULL) ==> __CPROVER_return_value == 0)	\
__CPROVER_ensures((addr1 != NULL && addr1 == addr2) ==> __CPROVER_return_value == 1)	\
__CPROVER_ensures((addr1 != NULL && addr2 != NULL && addr1 != addr2 &&			\
    (VF_FAM(addr1) != VF_FAM(addr2) || !VF_KNOWN_FAM(addr1))) ==> __CPROVER_return_value == 0) \
__CPROVER_ensures((addr1 != NULL && addr2 != NULL && addr1 != addr2 &&			\
    VF_FAM(addr1) == AF_INET && VF_FAM(addr2) == AF_INET) ==>				\
    (__CPROVER_return_value == 1) == (VF_IN(addr1)->sin_addr.s_addr == VF_IN(addr2)->sin_addr.s_addr && \
	(!(WITH_PORT) || VF_IN(addr1)->sin_port == VF_IN(addr2)->sin_port)))		\
/* IPv6: equal ==> every byte (ghost index) and the port agree; different ==> stated by the harness */ \
__CPROVER_ensures((addr1 != NULL && addr2 != NULL && addr1 != addr2 &&			\
    VF_FAM(addr1) == AF_INET6 && VF_FAM(addr2) == AF_INET6 && __CPROVER_return_value == 1 && vf_k < 16) ==> \
    (VF_A6B(addr1, vf_k) == VF_A6B(addr2, vf_k) &&					\
	(!(WITH_PORT) || VF_IN6(addr1)->sin6_port == VF_IN6(addr2)->sin6_port)))	\
__CPROVER_ensures((addr1 != NULL && addr2 != NULL && addr1 != addr2 &&			\
    VF_FAM(addr1) == AF_INET6 && VF_FAM(addr2) == AF_INET6 && __CPROVER_return_value == 0) ==> \
    (!VF_A6_EQ(addr1, addr2) ||								\
	((WITH_PORT) && VF_IN6(addr1)->sin6_port != VF_IN6(addr2)->sin6_port)))	\
;
VF_EQ_CONTRACT(sa_addr_port_is_eq, 1)
VF_EQ_CONTRACT(sa_addr_is_eq, 0)

void sa_copy(const void *src, void *dst)
__CPROVER_requires(src == NULL || __CPROVER_r_ok(src, VF_SS_SIZE))
__CPROVER_requires(dst == NULL || __CPROVER_w_ok(dst, VF_SS_SIZE))
/* frame: the destination, and of it only the bytes of the source's family */
__CPROVER_assigns(src != NULL && dst != NULL && src != dst:
    __CPROVER_object_upto(dst, VF_SS_SIZE))
__CPROVER_ensures((src != NULL && dst != NULL && vf_k < VF_FAM_SIZE(VF_FAM((const struct sockaddr_storage *)src))) ==>
    ((const uint8_t *)dst)[vf_k % VF_SS_SIZE] == ((const uint8_t *)src)[vf_k % VF_SS_SIZE])
;
#endif /* !VF_REPLAY */
#endif
