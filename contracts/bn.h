/*
 * Contracts for include/math/big_num.h (property C01), written on redeclarations that FOLLOW the
 * unmodified header (CBMC merges the contract of a later redeclaration into the function symbol;
 * the types bn_digit_t / bn_t come from the header itself, so nothing is copied).
 *
 * Includable on its own: define the configuration first (exactly as a user of big_num.h does)
 *      -DBN_DIGIT_BIT_CNT=8|16|32|64  -DBN_BIT_LEN=<bits>  [-DBN_CC_MULL_DIV] [-DBN_NO_POINTERS_CHK]
 * then  #include "contracts/bn.h"   (it includes <sys/param.h>, <errno.h>, "math/big_num.h").
 *
 * Pointer preconditions are __CPROVER_rw_ok / r_ok (caller-owned objects), never is_fresh: the
 * same clause is assumed when a function is enforced (harnesses own the objects and choose the
 * aliasing pattern) and asserted at every call site when the function is replaced by its
 * contract (--replace-call-with-contract), where operands are locals, struct members and
 * frequently aliased.
 *
 * Ladder (DESIGN.md section 5, C01):  bn_digit.h (rung 0) -> bn_digits.h (rung 1, digit arrays)
 * -> bn_struct.h, bn_io.h (rung 1, bn_t) -> bn_mul.h (rung 2) -> bn_mod.h (rung 3).
 */
#ifndef VF_CONTRACTS_BN_H
#define VF_CONTRACTS_BN_H

#include <sys/param.h>	/* MIN, MAX: big_num.h uses them without defining them (tests/ecdsa/main.c) */
#include <sys/types.h>
#include <errno.h>
#include <string.h>
#include "stubs/bn.h"	/* optional libc byte-loop models, see there */
#include "math/big_num.h"
#include "specs/bn_spec.h"

#ifdef VF_BN_LIGHT_SET	/* light callee contracts for the bn_mod_sqrt proofs, see contracts/bn_light.h */
#include "contracts/bn_light.h"
#else
#include "contracts/bn_digit.h"
#include "contracts/bn_digits.h"
#include "contracts/bn_struct.h"
#include "contracts/bn_io.h"
#include "contracts/bn_mul.h"
#include "contracts/bn_mod.h"
#endif

#endif /* VF_CONTRACTS_BN_H */
