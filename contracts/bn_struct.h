/*
 * C01 rung 1, bn_t level: structural, bitwise and additive functions of include/math/big_num.h.
 * Included from contracts/bn.h.
 *
 * Vocabulary (specs/bn_spec.h): VF_BN_WF(*p) well-formed, VF_BN_VAL(*p) value now,
 * VF_BN_OLDVAL(p) value at entry, VF_BN_CAP(*p) = 2^(W*count).  Inputs are well-formed; digits at
 * index >= digits are never constrained (stale storage).  Operands may alias wherever the API
 * permits it (bn == n): entry values are always taken with VF_BN_OLDVAL.
 * Pointers are non-NULL valid objects (the NULL -> EINVAL branches of BN_POINTER_CHK_EINVAL are
 * exercised by harness/C01/nullchk.c).
 */
#ifndef VF_CONTRACTS_BN_STRUCT_H
#define VF_CONTRACTS_BN_STRUCT_H
#ifndef VF_REPLAY

/* ghost digit index ("for every index"): nondeterministic, never assigned */
size_t vf_bn_ix;
#define VF_BN_IN(p)	(VF_BN_OK(p) && VF_BN_WF(*(p)))
/* two bn_t operands are the same object or do not overlap (they may be members of one struct) */
#define VF_BN_SEP(a, b)	((a) == (b) || !__CPROVER_same_object((a), (b)) ||	\
	(const char *)((a) + 1) <= (const char *)(b) || (const char *)((b) + 1) <= (const char *)(a))
#define VF_BN_CNT_OK(p)	((p)->count >= 1 && (p)->count <= BN_MAX_DIGITS)
#define VF_SIGN(x, y)	(((x) > (y)) ? 1 : (((x) < (y)) ? -1 : 0))
/* bit length of a value: smallest r with v < 2^r */
#define VF_BITLEN_IS(v, r)	((v) < VF_POW2(r) && ((r) == 0 || (v) >= VF_POW2((r) - 1)))

static inline int
bn_init(bn_p bn, size_t bits)
__CPROVER_requires(VF_BN_OK(bn))
__CPROVER_assigns(bn->count, bn->digits)
__CPROVER_ensures(__CPROVER_return_value == ((bits == 0 || bits > BN_BIT_LEN) ? EINVAL : 0))
__CPROVER_ensures(__CPROVER_return_value == 0 ==> (bn->digits == 0 && VF_BN_WF(*bn) &&
    bn->count * BN_DIGIT_BITS >= bits && (bn->count - 1) * BN_DIGIT_BITS < bits))
;

/* digit-count maintenance (lazy zeroing) */
static inline size_t
bn_calc_digits(bn_p bn)
__CPROVER_requires(VF_BN_OK(bn) && VF_BN_CNT_OK(bn))
__CPROVER_assigns(bn->digits)
__CPROVER_ensures(__CPROVER_return_value == bn->digits && VF_BN_WF(*bn))
__CPROVER_ensures(VF_BN_VAL(*bn) == VF_DIGITS_VAL(bn->num, bn->count))
;
static inline void
bn_update(bn_p bn)
__CPROVER_requires(VF_BN_OK(bn) && VF_BN_CNT_OK(bn))
__CPROVER_assigns(bn->digits)
__CPROVER_ensures(VF_BN_WF(*bn))
__CPROVER_ensures(VF_BN_VAL(*bn) == VF_DIGITS_VAL(bn->num, bn->count))
;
/* zero-extends the significant part up to digit_off (clipped to count): value unchanged when the
 * digit count is raised to any d <= MAX(digits, MIN(digit_off, count)) */
static inline void
bn_init_digits__int(bn_p bn, size_t digit_off)
__CPROVER_requires(VF_BN_OK(bn) && VF_BN_CNT_OK(bn) && bn->digits <= bn->count)
__CPROVER_assigns(__CPROVER_object_upto(bn->num, sizeof(bn->num)))
__CPROVER_ensures(VF_DIGITS_VAL(bn->num, MAX(bn->digits, MIN(digit_off, bn->count))) == VF_BN_OLDVAL(bn))
;
/* renormalises: the number is contained in the low MIN(count, MAX(digits_arg, bn->digits)) digits */
static inline void
bn_update_digits__int(bn_p bn, size_t digits)
__CPROVER_requires(VF_BN_OK(bn) && VF_BN_CNT_OK(bn) && bn->digits <= bn->count)
__CPROVER_assigns(bn->digits)
__CPROVER_ensures(VF_BN_WF(*bn))
__CPROVER_ensures(VF_BN_VAL(*bn) ==
    VF_DIGITS_VAL(bn->num, MIN(bn->count, MAX(digits, __CPROVER_old(bn->digits)))))
;

static inline size_t
bn_calc_bits(bn_p bn)
__CPROVER_requires(VF_BN_IN(bn))
__CPROVER_assigns()
__CPROVER_ensures(__CPROVER_return_value <= bn->digits * BN_DIGIT_BITS)
__CPROVER_ensures(VF_BITLEN_IS(VF_BN_VAL(*bn), __CPROVER_return_value))
;
static inline size_t
bn_ctz(bn_p bn)
__CPROVER_requires(VF_BN_IN(bn))
__CPROVER_assigns()
__CPROVER_ensures(VF_BN_VAL(*bn) == 0 ==> __CPROVER_return_value == 0)
__CPROVER_ensures(VF_BN_VAL(*bn) != 0 ==> (__CPROVER_return_value < bn->digits * BN_DIGIT_BITS &&
    ((VF_BN_VAL(*bn) >> __CPROVER_return_value) & 1) == 1 &&
    (VF_BN_VAL(*bn) & (VF_POW2(__CPROVER_return_value) - 1)) == 0))
;
/* leading zeros within the capacity: W*count - bitlen(val) */
static inline size_t
bn_clz(bn_p bn)
__CPROVER_requires(VF_BN_IN(bn))
__CPROVER_assigns()
__CPROVER_ensures(__CPROVER_return_value <= bn->count * BN_DIGIT_BITS &&
    VF_BITLEN_IS(VF_BN_VAL(*bn), bn->count * BN_DIGIT_BITS - __CPROVER_return_value))
;

static inline int
bn_is_zero(bn_p bn)
__CPROVER_requires(VF_BN_IN(bn))
__CPROVER_assigns()
__CPROVER_ensures((__CPROVER_return_value != 0) == (VF_BN_VAL(*bn) == 0))
;
static inline int
bn_is_one(bn_p bn)
__CPROVER_requires(VF_BN_IN(bn))
__CPROVER_assigns()
__CPROVER_ensures((__CPROVER_return_value != 0) == (VF_BN_VAL(*bn) == 1))
;
static inline size_t
bn_is_pow2(bn_p bn)
__CPROVER_requires(VF_BN_IN(bn))
__CPROVER_assigns()
__CPROVER_ensures((__CPROVER_return_value != 0) ==
    (VF_BN_VAL(*bn) != 0 && (VF_BN_VAL(*bn) & (VF_BN_VAL(*bn) - 1)) == 0))
;
static inline int
bn_is_even(bn_p bn)	/* as coded: zero is neither even nor odd */
__CPROVER_requires(VF_BN_IN(bn))
__CPROVER_assigns()
__CPROVER_ensures((__CPROVER_return_value != 0) == (VF_BN_VAL(*bn) != 0 && (VF_BN_VAL(*bn) & 1) == 0))
;
static inline int
bn_is_odd(bn_p bn)
__CPROVER_requires(VF_BN_IN(bn))
__CPROVER_assigns()
__CPROVER_ensures((__CPROVER_return_value != 0) == ((VF_BN_VAL(*bn) & 1) == 1))
;

static inline int
bn_cmp(bn_p a, bn_p b)
__CPROVER_requires(VF_BN_IN(a) && VF_BN_IN(b))
__CPROVER_assigns()
__CPROVER_ensures(__CPROVER_return_value == VF_SIGN(VF_BN_VAL(*a), VF_BN_VAL(*b)))
;
static inline int
bn_is_equal(bn_p a, bn_p b)
__CPROVER_requires(VF_BN_IN(a) && VF_BN_IN(b))
__CPROVER_assigns()
__CPROVER_ensures((__CPROVER_return_value != 0) == (VF_BN_VAL(*a) == VF_BN_VAL(*b)))
;

static inline int
bn_is_bit_set(bn_p bn, size_t bit)
__CPROVER_requires(VF_BN_IN(bn))
__CPROVER_assigns()
__CPROVER_ensures((__CPROVER_return_value != 0) ==
    (bit < BN_BIT_LEN && ((VF_BN_VAL(*bn) >> (bit < BN_BIT_LEN ? bit : 0)) & 1) == 1))
;
static inline int
bn_bit_set(bn_p bn, size_t bit, int val)
__CPROVER_requires(VF_BN_IN(bn))
__CPROVER_assigns(VF_BN_FRAME(bn))
__CPROVER_ensures(__CPROVER_return_value == ((bit / BN_DIGIT_BITS >= bn->count) ? EOVERFLOW : 0))
__CPROVER_ensures(__CPROVER_return_value == 0 ==> VF_BN_WF(*bn))
__CPROVER_ensures(__CPROVER_return_value == 0 ==> VF_BN_VAL(*bn) ==
    ((val != 0) ? (VF_BN_OLDVAL(bn) | VF_POW2(bit < BN_BIT_LEN ? bit : 0)) :
     (VF_BN_OLDVAL(bn) & ~VF_POW2(bit < BN_BIT_LEN ? bit : 0))))
__CPROVER_ensures(__CPROVER_return_value != 0 ==> (VF_BN_WF(*bn) && VF_BN_VAL(*bn) == VF_BN_OLDVAL(bn)))
;

/* ---- assignments ---- */
static inline int
bn_assign(bn_p dst, bn_p src)
__CPROVER_requires(VF_BN_OK(dst) && VF_BN_CNT_OK(dst) && VF_BN_IN(src))
__CPROVER_requires(VF_BN_SEP(dst, src))
__CPROVER_requires(dst != src || VF_BN_WF(*dst))
__CPROVER_assigns(VF_BN_FRAME(dst))
__CPROVER_ensures(__CPROVER_return_value == ((dst != src && __CPROVER_old(src->digits) > dst->count) ? EOVERFLOW : 0))
__CPROVER_ensures(__CPROVER_return_value == 0 ==> (VF_BN_WF(*dst) && VF_BN_VAL(*dst) == VF_BN_OLDVAL(src)))
;
static inline int
bn_assign_init(bn_p dst, bn_p src)
__CPROVER_requires(VF_BN_OK(dst) && VF_BN_IN(src))
__CPROVER_requires(VF_BN_SEP(dst, src))
__CPROVER_assigns(dst->count, VF_BN_FRAME(dst))
__CPROVER_ensures(__CPROVER_return_value == 0)
__CPROVER_ensures(VF_BN_WF(*dst) && dst->count == __CPROVER_old(src->count) && VF_BN_VAL(*dst) == VF_BN_OLDVAL(src))
;
static inline void
bn_assign_zero(bn_p bn)	/* NULL is tolerated (bn_div passes its optional remainder) */
__CPROVER_requires(bn == NULL || (VF_BN_OK(bn) && VF_BN_CNT_OK(bn)))
__CPROVER_assigns(bn != NULL: bn->digits)
__CPROVER_ensures(bn == NULL || (VF_BN_WF(*bn) && VF_BN_VAL(*bn) == 0))
;
static inline int
bn_assign_2exp(bn_p bn, size_t exp)
__CPROVER_requires(VF_BN_OK(bn) && VF_BN_CNT_OK(bn))
__CPROVER_assigns(VF_BN_FRAME(bn))
__CPROVER_ensures(__CPROVER_return_value == ((exp / BN_DIGIT_BITS >= bn->count) ? EOVERFLOW : 0))
__CPROVER_ensures(__CPROVER_return_value == 0 ==> (VF_BN_WF(*bn) &&
    VF_BN_VAL(*bn) == VF_POW2(exp < BN_BIT_LEN ? exp : 0)))
;
static inline int
bn_assign_digit(bn_p bn, bn_digit_t digit)
__CPROVER_requires(VF_BN_OK(bn) && VF_BN_CNT_OK(bn))
__CPROVER_assigns(VF_BN_FRAME(bn))
__CPROVER_ensures(__CPROVER_return_value == 0)
__CPROVER_ensures(VF_BN_VAL(*bn) == digit)
__CPROVER_ensures(VF_BN_WF(*bn))
;

/* ---- shifts ----
 * bn_l_shift: bn = (bn << bits) mod 2^(W*count); void, bits shifted out above the capacity are
 * dropped as coded ("Data lost here").  Domain bits < W*count: every in-tree call site
 * (bn_div: bits = clz < W; bn_gcd_bin: common factor of two; bn_sqrt*: 1, 2; bn_self_test:
 * j < BN_BIT_LEN == W*count).  Outside it bn_digits_l_shift's memmove length underflows (F2).
 * bn_r_shift: bn >>= bits.  Domain bits < W*digits (or bn == 0): every in-tree call site (1, 2, 3
 * on non-zero numbers or numbers just tested; clz-normalisation shift; ctz of a non-zero number;
 * bn_self_test shifts back what it shifted in). */
static inline void
bn_l_shift(bn_p bn, size_t bits)
__CPROVER_requires(VF_BN_IN(bn) && bits < bn->count * BN_DIGIT_BITS)
__CPROVER_assigns(VF_BN_FRAME(bn))
__CPROVER_ensures(VF_BN_WF(*bn))
__CPROVER_ensures(VF_BN_VAL(*bn) == ((VF_BN_OLDVAL(bn) << bits) & (VF_BN_CAP(*bn) - 1)))
/* what bn_div relies on: the K = MIN(count, digits + 1 + bits/W) low digits hold the shifted
 * number (so digits between the new digit count and K are zero) and digits from K on are untouched
 * (ghost index vf_bn_ix) */
__CPROVER_ensures(__CPROVER_old(bn->digits) != 0 ==>
    VF_DIGITS_VAL(bn->num, MIN(bn->count, __CPROVER_old(bn->digits) + 1 + bits / BN_DIGIT_BITS)) ==
    ((VF_BN_OLDVAL(bn) << bits) & (VF_POW2W(MIN(bn->count, __CPROVER_old(bn->digits) + 1 + bits / BN_DIGIT_BITS)) - 1)))
__CPROVER_ensures((__CPROVER_old(bn->digits) != 0 && vf_bn_ix < BN_MAX_DIGITS &&
    vf_bn_ix >= MIN(bn->count, __CPROVER_old(bn->digits) + 1 + bits / BN_DIGIT_BITS)) ==>
    bn->num[vf_bn_ix < BN_MAX_DIGITS ? vf_bn_ix : 0] == __CPROVER_old(bn->num[vf_bn_ix < BN_MAX_DIGITS ? vf_bn_ix : 0]))
;
static inline void
bn_r_shift(bn_p bn, size_t bits)
__CPROVER_requires(VF_BN_IN(bn) && (bn->digits == 0 || bits < bn->digits * BN_DIGIT_BITS))
__CPROVER_assigns(VF_BN_FRAME(bn))
__CPROVER_ensures(VF_BN_WF(*bn))
__CPROVER_ensures(VF_BN_VAL(*bn) == (VF_BN_OLDVAL(bn) >> ((bits < BN_BIT_LEN) ? bits : 0)))
;

/* ---- bitwise ---- */
#define VF_BN_BINOP_PRE(bn, n)	(VF_BN_IN(bn) && VF_BN_IN(n) && VF_BN_SEP(bn, n))
static inline int
bn_and(bn_p bn, bn_p n)
__CPROVER_requires(VF_BN_BINOP_PRE(bn, n))
__CPROVER_assigns(VF_BN_FRAME(bn))
__CPROVER_ensures(__CPROVER_return_value == 0)
__CPROVER_ensures(VF_BN_WF(*bn))
__CPROVER_ensures(VF_BN_VAL(*bn) == (VF_BN_OLDVAL(bn) & VF_BN_OLDVAL(n)))
;
static inline int
bn_or(bn_p bn, bn_p n)
__CPROVER_requires(VF_BN_BINOP_PRE(bn, n))
__CPROVER_assigns(VF_BN_FRAME(bn))
__CPROVER_ensures(__CPROVER_return_value == ((__CPROVER_old(n->digits) > bn->count) ? EOVERFLOW : 0))
__CPROVER_ensures(__CPROVER_return_value == 0 ==> (VF_BN_WF(*bn) &&
    VF_BN_VAL(*bn) == (VF_BN_OLDVAL(bn) | VF_BN_OLDVAL(n))))
;
static inline int
bn_xor(bn_p bn, bn_p n)
__CPROVER_requires(VF_BN_BINOP_PRE(bn, n))
__CPROVER_assigns(VF_BN_FRAME(bn))
__CPROVER_ensures(__CPROVER_return_value == ((__CPROVER_old(n->digits) > bn->count) ? EOVERFLOW : 0))
__CPROVER_ensures(__CPROVER_return_value == 0 ==> (VF_BN_WF(*bn) &&
    VF_BN_VAL(*bn) == (VF_BN_OLDVAL(bn) ^ VF_BN_OLDVAL(n))))
;

/* ---- add / subtract ----
 * val' == (val +- n) mod 2^(W*count); carry/borrow is the overflow bit.  bn_add_digit and
 * bn_sub_digit return without touching *carry when n == 0 (as coded). */
/* carry / borrow out-parameter: NULL or a digit outside the operands */
#define VF_BN_DIGIT_OUTSIDE(c, bn)	(!__CPROVER_same_object((c), (bn)) ||	\
	(const char *)((c) + 1) <= (const char *)(bn) || (const char *)((bn) + 1) <= (const char *)(c))
#define VF_BN_CARRY_OK(c, bn)	((c) == NULL || (VF_D_OK(c) && VF_BN_DIGIT_OUTSIDE(c, bn)))
static inline void
bn_add_digit(bn_p bn, bn_digit_t n, bn_digit_t *carry)
__CPROVER_requires(VF_BN_IN(bn) && VF_BN_CARRY_OK(carry, bn))
__CPROVER_assigns(VF_BN_FRAME(bn))
__CPROVER_assigns(carry != NULL && n != 0: *carry)
__CPROVER_ensures(VF_BN_WF(*bn))
__CPROVER_ensures(VF_BN_VAL(*bn) == ((VF_BN_OLDVAL(bn) + n) & (VF_BN_CAP(*bn) - 1)))
__CPROVER_ensures((carry != NULL && n != 0) ==> *carry == ((VF_BN_OLDVAL(bn) + n >= VF_BN_CAP(*bn)) ? 1 : 0))
;
static inline int
bn_add(bn_p bn, bn_p n, bn_digit_t *carry)
__CPROVER_requires(VF_BN_BINOP_PRE(bn, n) && VF_BN_CARRY_OK(carry, bn) &&
    (carry == NULL || VF_BN_DIGIT_OUTSIDE(carry, n)))
__CPROVER_assigns(VF_BN_FRAME(bn))
__CPROVER_assigns(carry != NULL: *carry)
__CPROVER_ensures(__CPROVER_return_value == ((__CPROVER_old(n->digits) > bn->count) ? EOVERFLOW : 0))
__CPROVER_ensures(VF_BN_WF(*bn))
__CPROVER_ensures(__CPROVER_return_value == 0 ==>
    VF_BN_VAL(*bn) == ((VF_BN_OLDVAL(bn) + VF_BN_OLDVAL(n)) & (VF_BN_CAP(*bn) - 1)))
__CPROVER_ensures((__CPROVER_return_value == 0 && carry != NULL) ==>
    *carry == ((VF_BN_OLDVAL(bn) + VF_BN_OLDVAL(n) >= VF_BN_CAP(*bn)) ? 1 : 0))
__CPROVER_ensures(__CPROVER_return_value != 0 ==> VF_BN_VAL(*bn) == VF_BN_OLDVAL(bn))
;
static inline void
bn_sub_digit(bn_p bn, bn_digit_t n, bn_digit_t *borrow)
__CPROVER_requires(VF_BN_IN(bn) && VF_BN_CARRY_OK(borrow, bn))
__CPROVER_assigns(VF_BN_FRAME(bn))
__CPROVER_assigns(borrow != NULL && n != 0: *borrow)
__CPROVER_ensures(VF_BN_WF(*bn))
__CPROVER_ensures(VF_BN_VAL(*bn) == ((VF_BN_OLDVAL(bn) + VF_BN_CAP(*bn) - n) & (VF_BN_CAP(*bn) - 1)))
__CPROVER_ensures((borrow != NULL && n != 0) ==> *borrow == ((VF_BN_OLDVAL(bn) < n) ? 1 : 0))
;
static inline int
bn_sub(bn_p bn, bn_p n, bn_digit_t *borrow)
__CPROVER_requires(VF_BN_BINOP_PRE(bn, n) && VF_BN_CARRY_OK(borrow, bn) &&
    (borrow == NULL || VF_BN_DIGIT_OUTSIDE(borrow, n)))
__CPROVER_assigns(VF_BN_FRAME(bn))
__CPROVER_assigns(borrow != NULL: *borrow)
__CPROVER_ensures(__CPROVER_return_value == ((__CPROVER_old(n->digits) > bn->count) ? EOVERFLOW : 0))
__CPROVER_ensures(VF_BN_WF(*bn))
__CPROVER_ensures(__CPROVER_return_value == 0 ==>
    VF_BN_VAL(*bn) == ((VF_BN_OLDVAL(bn) + VF_BN_CAP(*bn) - VF_BN_OLDVAL(n)) & (VF_BN_CAP(*bn) - 1)))
__CPROVER_ensures((__CPROVER_return_value == 0 && borrow != NULL) ==>
    *borrow == ((VF_BN_OLDVAL(bn) < VF_BN_OLDVAL(n)) ? 1 : 0))
__CPROVER_ensures(__CPROVER_return_value != 0 ==> VF_BN_VAL(*bn) == VF_BN_OLDVAL(bn))
;

#endif /* !VF_REPLAY */
#endif
