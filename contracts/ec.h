/*
 * Contracts for include/math/elliptic_curve.h (C02; callee contracts of C03 / C09), written on
 * redeclarations that FOLLOW the unmodified headers (same technique as contracts/bn.h).
 *
 *      #include "contracts/ec.h"        (pulls stubs/ec_config.h = the tests' configuration,
 *                                        crypto/dsa/ecdsa.h, specs/bn_spec.h, specs/ec_spec.h,
 *                                        contracts/ec_bn_stubs.h)
 *
 * Every function has ONE functional contract (preconditions, frame, "status 0 => outputs
 * well-formed") used both when the function is enforced against its body and when a caller is
 * verified against it.  The ghost-status clauses differ by role:
 *   as a replaced callee   the contract WRITES the ghost words: sticky vf_ec_fail, last status,
 *                          call counter, operand identities;
 *   enforced (-DVF_ENFORCE_<fn>)  the function may touch the whole ghost state (through its own
 *                          replaced callees) and must guarantee
 *                                return 0  ==>  no replaced callee returned non-zero
 *                          ("a callee error is propagated, never reported as success").
 */
#ifndef VF_CONTRACTS_EC_H
#define VF_CONTRACTS_EC_H

#include "stubs/ec_config.h"
#include "crypto/dsa/ecdsa.h"	/* includes math/big_num.h and math/elliptic_curve.h */
#ifndef VF_BN_VBITS
#define VF_BN_VBITS	(BN_BIT_LEN + 64)	/* values are only compared here */
#endif
#include "specs/bn_spec.h"
#include "specs/ec_spec.h"
#ifndef VF_REPLAY
#include "contracts/ec_bn_stubs.h"

/* role-dependent ghost clauses */
#define VF_EC_ENFORCED_GHOST								\
	__CPROVER_requires(!vf_ec_fail)							\
	__CPROVER_assigns(VF_EC_GHOST_FRAME)						\
	__CPROVER_ensures(__CPROVER_return_value == 0 ==> !vf_ec_fail)

/* ---------------------------------------------------------------- scalar multiplication ---- */
/* res = d * G.  res must be an initialised point (ec_point_init: capacities set, coordinates
 * well-formed); on success both coordinates are well-formed numbers (at infinity the real
 * function only sets the flag and leaves them as they were); on failure res is unspecified. */
#ifdef VF_ENFORCE_ec_point_mult_bp
#define VF_G_mult_bp	VF_EC_ENFORCED_GHOST
#else
#define VF_G_mult_bp									\
	__CPROVER_assigns(VF_EC_STATUS_ASSIGNS, vf_g.mult_bp)	\
	__CPROVER_ensures(VF_EC_STATUS_ENSURES)						\
	__CPROVER_ensures(vf_st_mult_bp == __CPROVER_return_value && vf_n_mult_bp == __CPROVER_old(vf_n_mult_bp) + 1u &&	\
	    vf_mult_bp_d == VF_ID(d) && vf_mult_bp_curve == VF_ID(curve) && vf_mult_bp_res == VF_ID(res))
#endif
static inline int
ec_point_mult_bp(bn_p d, ec_curve_p curve, ec_point_p res)
__CPROVER_requires(VF_ECBN_R(d) && VF_EC_CURVE_OK(curve) && VF_EC_CURVE_WF(*curve))
__CPROVER_requires(VF_EC_POINT_OK(res) && VF_EC_POINT_WF(*res))
__CPROVER_assigns(VF_EC_POINT_FRAME(res))
VF_G_mult_bp
__CPROVER_ensures(__CPROVER_return_value == 0 ==> VF_EC_POINT_WF(*res))
;

/* res = Gd * G + bd * b */
#ifdef VF_ENFORCE_ec_point_twin_mult_bp
#define VF_G_twin	VF_EC_ENFORCED_GHOST
#else
#define VF_G_twin									\
	__CPROVER_assigns(VF_EC_STATUS_ASSIGNS, vf_g.twin)	\
	__CPROVER_ensures(VF_EC_STATUS_ENSURES)						\
	__CPROVER_ensures(vf_st_twin == __CPROVER_return_value && vf_n_twin == __CPROVER_old(vf_n_twin) + 1u &&	\
	    vf_twin_Gd == VF_ID(Gd) && vf_twin_b == VF_ID(b) && vf_twin_bd == VF_ID(bd) && vf_twin_curve == VF_ID(curve) && vf_twin_res == VF_ID(res))
#endif
static inline int
ec_point_twin_mult_bp(bn_p Gd, ec_point_p b, bn_p bd, ec_curve_p curve, ec_point_p res)
__CPROVER_requires(VF_ECBN_R(Gd) && VF_ECBN_R(bd) && VF_EC_CURVE_OK(curve) && VF_EC_CURVE_WF(*curve))
__CPROVER_requires(__CPROVER_r_ok(b, sizeof(ec_point_t)) && VF_EC_POINT_WF(*b) && b != res)
__CPROVER_requires(VF_EC_POINT_OK(res) && VF_EC_POINT_WF(*res))
__CPROVER_assigns(VF_EC_POINT_FRAME(res))
VF_G_twin
__CPROVER_ensures(__CPROVER_return_value == 0 ==> VF_EC_POINT_WF(*res))
;

/* point = d * point (in place) */
#ifdef VF_ENFORCE_ec_point_unknown_pt_mult
#define VF_G_unkpt	VF_EC_ENFORCED_GHOST
#else
#define VF_G_unkpt									\
	__CPROVER_assigns(VF_EC_STATUS_ASSIGNS, vf_g.unkpt)	\
	__CPROVER_ensures(VF_EC_STATUS_ENSURES)						\
	__CPROVER_ensures(vf_st_unkpt == __CPROVER_return_value && vf_n_unkpt == __CPROVER_old(vf_n_unkpt) + 1u &&	\
	    vf_unkpt_point == VF_ID(point) && vf_unkpt_d == VF_ID(d) && vf_unkpt_curve == VF_ID(curve) &&	\
	    vf_unkpt_inf == point->infinity)
#endif
static inline int
ec_point_unknown_pt_mult(ec_point_p point, bn_p d, ec_curve_p curve)
__CPROVER_requires(VF_ECBN_R(d) && VF_EC_CURVE_OK(curve) && VF_EC_CURVE_WF(*curve))
__CPROVER_requires(VF_EC_POINT_OK(point) && VF_EC_POINT_WF(*point))
__CPROVER_assigns(VF_EC_POINT_FRAME(point))
VF_G_unkpt
__CPROVER_ensures(__CPROVER_return_value == 0 ==> VF_EC_POINT_WF(*point))
;

/* ---------------------------------------------------------------- validation ---- */
/* reads the point and the curve only */
#ifdef VF_ENFORCE_ec_point_check_as_pub_key
#define VF_G_chk_pub	VF_EC_ENFORCED_GHOST
#else
#define VF_G_chk_pub									\
	__CPROVER_assigns(VF_EC_STATUS_ASSIGNS, vf_g.chk_pub)	\
	__CPROVER_ensures(VF_EC_STATUS_ENSURES)						\
	__CPROVER_ensures(vf_st_chk_pub == __CPROVER_return_value && vf_n_chk_pub == __CPROVER_old(vf_n_chk_pub) + 1u &&	\
	    vf_chk_pub_point == VF_ID(point) && vf_chk_pub_curve == VF_ID(curve))
#endif
static inline int
ec_point_check_as_pub_key(ec_point_p point, ec_curve_p curve)
__CPROVER_requires(VF_EC_CURVE_OK(curve) && VF_EC_CURVE_WF(*curve))
__CPROVER_requires(VF_EC_POINT_OK(point) && VF_EC_POINT_WF(*point))
VF_G_chk_pub
;

#ifdef VF_ENFORCE_ec_point_check_affine
#define VF_G_chk_affine	VF_EC_ENFORCED_GHOST
#else
#define VF_G_chk_affine									\
	__CPROVER_assigns(VF_EC_STATUS_ASSIGNS, vf_g.chk_affine)	\
	__CPROVER_ensures(VF_EC_STATUS_ENSURES)						\
	__CPROVER_ensures(vf_st_chk_affine == __CPROVER_return_value && vf_n_chk_affine == __CPROVER_old(vf_n_chk_affine) + 1u)
#endif
/* coordinate >= p is rejected (value clause, stated over the compared numbers) */
static inline int
ec_point_check_affine(ec_point_p point, ec_curve_p curve)
__CPROVER_requires(VF_EC_CURVE_OK(curve) && VF_EC_CURVE_WF(*curve))
__CPROVER_requires(VF_EC_POINT_OK(point) && VF_EC_POINT_WF(*point))
VF_G_chk_affine
__CPROVER_ensures((vf_bn_val(point->x) >= vf_bn_val(curve->p) || vf_bn_val(point->y) >= vf_bn_val(curve->p)) ==>
    __CPROVER_return_value != 0)
;

#ifdef VF_ENFORCE_ec_point_check_scalar_mult
#define VF_G_chk_scalar	VF_EC_ENFORCED_GHOST
#else
#define VF_G_chk_scalar									\
	__CPROVER_assigns(VF_EC_STATUS_ASSIGNS, vf_g.chk_scalar)	\
	__CPROVER_ensures(VF_EC_STATUS_ENSURES)						\
	__CPROVER_ensures(vf_st_chk_scalar == __CPROVER_return_value && vf_n_chk_scalar == __CPROVER_old(vf_n_chk_scalar) + 1u)
#endif
static inline int
ec_point_check_scalar_mult(ec_point_p point, ec_curve_p curve)
__CPROVER_requires(VF_EC_CURVE_OK(curve) && VF_EC_CURVE_WF(*curve))
__CPROVER_requires(VF_EC_POINT_OK(point) && VF_EC_POINT_WF(*point))
VF_G_chk_scalar
;

/* y := the root of x^3 + a x + b with the requested parity (y_is_odd 0 / 1; 2 = whichever
 * validates).  Writes only point->y. */
#ifdef VF_ENFORCE_ec_point_restore_y_by_x
#define VF_G_restore_y	__CPROVER_requires(!vf_ec_fail) __CPROVER_assigns(VF_EC_GHOST_FRAME)
#else
#define VF_G_restore_y									\
	__CPROVER_assigns(VF_EC_STATUS_ASSIGNS, vf_g.restore_y)	\
	__CPROVER_ensures(VF_EC_STATUS_ENSURES)						\
	__CPROVER_ensures(vf_st_restore_y == __CPROVER_return_value && vf_n_restore_y == __CPROVER_old(vf_n_restore_y) + 1u &&	\
	    vf_restore_y_odd == y_is_odd && vf_restore_y_point == VF_ID(point))
#endif
static inline int
ec_point_restore_y_by_x(int y_is_odd, ec_point_p point, ec_curve_p curve)
__CPROVER_requires(VF_EC_CURVE_OK(curve) && VF_EC_CURVE_WF(*curve))
__CPROVER_requires(VF_EC_POINT_OK(point) && vf_bn_wf(point->x) && VF_BN_CNT_OK(&point->y))
__CPROVER_requires(y_is_odd == 0 || y_is_odd == 1 || y_is_odd == 2)
__CPROVER_assigns(VF_BN_FRAME(&point->y))
VF_G_restore_y
__CPROVER_ensures(__CPROVER_return_value == 0 ==> vf_bn_wf(point->y))
;

#endif /* !VF_REPLAY */
#endif /* VF_CONTRACTS_EC_H */
