/*
 * Contracts for include/math/elliptic_curve.h (C02; callee contracts of C03 / C09), written on
 * redeclarations that FOLLOW the unmodified headers (same technique as contracts/bn.h).
 *
 *      #include "contracts/ec.h"        (pulls stubs/ec_config.h = the tests' configuration,
 *                                        crypto/dsa/ecdsa.h, specs/bn_spec.h, specs/ec_spec.h,
 *                                        contracts/ec_bn_stubs.h)
 *
 * Every function has ONE functional contract (preconditions, frame, "status 0 => outputs
 * well-formed") used both when the function is enforced against its body and when a caller is
 * verified against it.  The ghost-status clauses differ by role:
 *   as a replaced callee   the contract WRITES the ghost words: sticky vf_ec_fail, last status,
 *                          call counter, operand identities;
 *   enforced (-DVF_ENFORCE_<fn>)  the function may touch the whole ghost state (through its own
 *                          replaced callees) and must guarantee
 *                                return 0  ==>  no replaced callee returned non-zero
 *                          ("a callee error is propagated, never reported as success").
 */
#ifndef VF_CONTRACTS_EC_H
#define VF_CONTRACTS_EC_H

#include "stubs/ec_config.h"
#include "crypto/dsa/ecdsa.h"	/* includes math/big_num.h and math/elliptic_curve.h */
#ifndef VF_BN_VBITS
#define VF_BN_VBITS	(BN_BIT_LEN + 64)	/* values are only compared here */
#endif
#include "specs/bn_spec.h"
#include "specs/ec_spec.h"
#ifndef VF_REPLAY
#include "contracts/ec_bn_stubs.h"

#define VF_CURVE_IN_EC(curve)	(VF_EC_CURVE_OK(curve) && VF_EC_CURVE_WF(*curve))

/* role-dependent ghost clauses */
#define VF_EC_ENFORCED_GHOST								\
	__CPROVER_requires(!vf_ec_fail)							\
	__CPROVER_assigns(VF_EC_GHOST_FRAME)						\
	__CPROVER_ensures(__CPROVER_return_value == 0 ==> !vf_ec_fail)

/* ---------------------------------------------------------------- scalar multiplication ---- */
/* res = d * G.  res must be an initialised point (ec_point_init: capacities set, coordinates
 * well-formed); on success both coordinates are well-formed numbers (at infinity the real
 * function only sets the flag and leaves them as they were); on failure res is unspecified. */
#ifdef VF_ENFORCE_ec_point_mult_bp
#define VF_G_mult_bp	VF_EC_ENFORCED_GHOST
#else
#define VF_G_mult_bp									\
	__CPROVER_assigns(VF_EC_STATUS_ASSIGNS, vf_g.mult_bp)	\
	__CPROVER_ensures(VF_EC_STATUS_ENSURES)						\
	__CPROVER_ensures(vf_st_mult_bp == __CPROVER_return_value && vf_n_mult_bp == __CPROVER_old(vf_n_mult_bp) + 1u &&	\
	    vf_mult_bp_d == VF_ID(d) && vf_mult_bp_curve == VF_ID(curve) && vf_mult_bp_res == VF_ID(res))
#endif
static inline int
ec_point_mult_bp(bn_p d, ec_curve_p curve, ec_point_p res)
__CPROVER_requires(VF_ECBN_R(d) && VF_EC_CURVE_OK(curve) && VF_EC_CURVE_WF(*curve))
__CPROVER_requires(VF_EC_POINT_OK(res) && VF_EC_POINT_WF(*res))
__CPROVER_assigns(VF_EC_POINT_FRAME(res))
VF_G_mult_bp
__CPROVER_ensures(__CPROVER_return_value == 0 ==> VF_EC_POINT_WF(*res))
#if defined(VF_ENFORCE_ec_point_mult_bp) && EC_PF_FXP_MULT_ALGO != EC_PF_FXP_MULT_ALGO_BIN
/* dispatch: exactly one call of the fixed-point multiplier, on res, with the caller's scalar and the
 * curve's precomputed base-point table */
__CPROVER_ensures(__CPROVER_return_value == 0 ==> (vf_n_pop == 1 && vf_pop_fn == VF_POP_fpx_mult_affine && vf_st_pop == 0 &&
    vf_pop_a == VF_ID(res) && vf_pop_b == VF_ID(d) && vf_pop_c == VF_ID(&curve->G_fpx_mult_data)))
#endif
;

/* res = Gd * G + bd * b */
#ifdef VF_ENFORCE_ec_point_twin_mult_bp
#define VF_G_twin	VF_EC_ENFORCED_GHOST
#else
#define VF_G_twin									\
	__CPROVER_assigns(VF_EC_STATUS_ASSIGNS, vf_g.twin)	\
	__CPROVER_ensures(VF_EC_STATUS_ENSURES)						\
	__CPROVER_ensures(vf_st_twin == __CPROVER_return_value && vf_n_twin == __CPROVER_old(vf_n_twin) + 1u &&	\
	    vf_twin_Gd == VF_ID(Gd) && vf_twin_b == VF_ID(b) && vf_twin_bd == VF_ID(bd) && vf_twin_curve == VF_ID(curve) && vf_twin_res == VF_ID(res))
#endif
static inline int
ec_point_twin_mult_bp(bn_p Gd, ec_point_p b, bn_p bd, ec_curve_p curve, ec_point_p res)
__CPROVER_requires(VF_ECBN_R(Gd) && VF_ECBN_R(bd) && VF_EC_CURVE_OK(curve) && VF_EC_CURVE_WF(*curve))
__CPROVER_requires(__CPROVER_r_ok(b, sizeof(ec_point_t)) && VF_EC_POINT_WF(*b) && b != res)
__CPROVER_requires(VF_EC_POINT_OK(res) && VF_EC_POINT_WF(*res))
__CPROVER_assigns(VF_EC_POINT_FRAME(res))
VF_G_twin
__CPROVER_ensures(__CPROVER_return_value == 0 ==> VF_EC_POINT_WF(*res))
#if defined(VF_ENFORCE_ec_point_twin_mult_bp) && EC_PF_TWIN_MULT_ALGO != EC_PF_TWIN_MULT_ALGO_FXP_UNKPT
/* dispatch: one twin multiplication with the curve's base point as first operand */
__CPROVER_ensures(__CPROVER_return_value == 0 ==> (vf_n_pop == 1 && vf_pop_fn == VF_POP_twin_mult && vf_st_pop == 0 &&
    vf_pop_a == VF_ID(&curve->G) && vf_pop_b == VF_ID(b) && vf_pop_c == VF_ID(res)))
#endif
;

/* point = d * point (in place) */
#ifdef VF_ENFORCE_ec_point_unknown_pt_mult
#define VF_G_unkpt	VF_EC_ENFORCED_GHOST
#else
#define VF_G_unkpt									\
	__CPROVER_assigns(VF_EC_STATUS_ASSIGNS, vf_g.unkpt)	\
	__CPROVER_ensures(VF_EC_STATUS_ENSURES)						\
	__CPROVER_ensures(vf_st_unkpt == __CPROVER_return_value && vf_n_unkpt == __CPROVER_old(vf_n_unkpt) + 1u &&	\
	    vf_unkpt_point == VF_ID(point) && vf_unkpt_d == VF_ID(d) && vf_unkpt_curve == VF_ID(curve) &&	\
	    vf_unkpt_inf == point->infinity)
#endif
static inline int
ec_point_unknown_pt_mult(ec_point_p point, bn_p d, ec_curve_p curve)
__CPROVER_requires(VF_ECBN_R(d) && VF_EC_CURVE_OK(curve) && VF_EC_CURVE_WF(*curve))
__CPROVER_requires(VF_EC_POINT_OK(point) && VF_EC_POINT_WF(*point))
__CPROVER_assigns(VF_EC_POINT_FRAME(point))
VF_G_unkpt
__CPROVER_ensures(__CPROVER_return_value == 0 ==> VF_EC_POINT_WF(*point))
#if defined(VF_ENFORCE_ec_point_unknown_pt_mult) && EC_PF_UNKPT_MULT_ALGO != EC_PF_UNKPT_MULT_ALGO_BIN
/* dispatch: table precomputation for `point`, then one multiplication of `point` by the caller's scalar */
__CPROVER_ensures(__CPROVER_return_value == 0 ==> (vf_n_pop == 2 && vf_pop_fn == VF_POP_unkpt_mult_affine && vf_st_pop == 0 &&
    vf_pop_a == VF_ID(point) && vf_pop_b == VF_ID(d)))
#endif
;

/* ---------------------------------------------------------------- validation ---- */
/* reads the point and the curve only */
#ifdef VF_ENFORCE_ec_point_check_as_pub_key
#define VF_G_chk_pub	VF_EC_ENFORCED_GHOST
#else
#define VF_G_chk_pub									\
	__CPROVER_assigns(VF_EC_STATUS_ASSIGNS, vf_g.chk_pub)	\
	__CPROVER_ensures(VF_EC_STATUS_ENSURES)						\
	__CPROVER_ensures(vf_st_chk_pub == __CPROVER_return_value && vf_n_chk_pub == __CPROVER_old(vf_n_chk_pub) + 1u &&	\
	    vf_chk_pub_point == VF_ID(point) && vf_chk_pub_curve == VF_ID(curve))
#endif
static inline int
ec_point_check_as_pub_key(ec_point_p point, ec_curve_p curve)
__CPROVER_requires(VF_EC_CURVE_OK(curve) && VF_EC_CURVE_WF(*curve))
__CPROVER_requires(VF_EC_POINT_OK(point) && VF_EC_POINT_WF(*point))
VF_G_chk_pub
#ifdef VF_ENFORCE_ec_point_check_as_pub_key
/* accepted ==> the on-curve check AND the order check were each run once and returned 0 */
__CPROVER_ensures(__CPROVER_return_value == 0 ==> (vf_n_chk_affine == 1 && vf_st_chk_affine == 0 &&
    vf_n_chk_scalar == 1 && vf_st_chk_scalar == 0))
#endif
;

#ifdef VF_ENFORCE_ec_point_check_affine
#define VF_G_chk_affine	VF_EC_ENFORCED_GHOST
#else
#define VF_G_chk_affine									\
	__CPROVER_assigns(VF_EC_STATUS_ASSIGNS, vf_g.chk_affine)	\
	__CPROVER_ensures(VF_EC_STATUS_ENSURES)						\
	__CPROVER_ensures(vf_st_chk_affine == __CPROVER_return_value && vf_n_chk_affine == __CPROVER_old(vf_n_chk_affine) + 1u)
#endif
/* coordinate >= p is rejected (value clause, stated over the compared numbers) */
static inline int
ec_point_check_affine(ec_point_p point, ec_curve_p curve)
__CPROVER_requires(VF_EC_CURVE_OK(curve) && VF_EC_CURVE_WF(*curve))
__CPROVER_requires(VF_EC_POINT_OK(point) && VF_EC_POINT_WF(*point))
VF_G_chk_affine
__CPROVER_ensures((vf_bn_val(point->x) >= vf_bn_val(curve->p) || vf_bn_val(point->y) >= vf_bn_val(curve->p)) ==>
    __CPROVER_return_value != 0)
#ifdef VF_ENFORCE_ec_point_check_affine
/* accepted ==> the last comparison (y^2 against x^3 + a x + b) said "equal"; the a == p - 3 shortcut
 * (3 x by bn_mod_mult_digit) is taken exactly when the curve carries EC_CURVE_FLAG_A_M3 */
__CPROVER_ensures(__CPROVER_return_value == 0 ==> (vf_n_cmp == 3 && vf_cmp_r == 0))
__CPROVER_ensures(__CPROVER_return_value == 0 ==> ((0 != (EC_CURVE_FLAG_A_M3 & curve->flags)) ?
    (vf_n_mult_digit == 1 && vf_mult_digit_d == 3) : (vf_n_mult_digit == 0)))
#endif
;

#ifdef VF_ENFORCE_ec_point_check_scalar_mult
#define VF_G_chk_scalar	VF_EC_ENFORCED_GHOST
#else
#define VF_G_chk_scalar									\
	__CPROVER_assigns(VF_EC_STATUS_ASSIGNS, vf_g.chk_scalar)	\
	__CPROVER_ensures(VF_EC_STATUS_ENSURES)						\
	__CPROVER_ensures(vf_st_chk_scalar == __CPROVER_return_value && vf_n_chk_scalar == __CPROVER_old(vf_n_chk_scalar) + 1u)
#endif
static inline int
ec_point_check_scalar_mult(ec_point_p point, ec_curve_p curve)
__CPROVER_requires(VF_EC_CURVE_OK(curve) && VF_EC_CURVE_WF(*curve))
__CPROVER_requires(VF_EC_POINT_OK(point) && VF_EC_POINT_WF(*point))
VF_G_chk_scalar
#ifdef VF_ENFORCE_ec_point_check_scalar_mult
/* accepted ==> a COPY of the point was multiplied by the group order n over the caller's curve, the
 * multiplication succeeded and produced infinity; a finite product is rejected with -1 */
__CPROVER_ensures(__CPROVER_return_value == 0 ==> (vf_n_unkpt == 1 && vf_st_unkpt == 0 && vf_unkpt_inf != 0 &&
    vf_unkpt_d == VF_ID(&curve->n) && vf_unkpt_curve == VF_ID(curve) && vf_unkpt_point != VF_ID(point) &&
    VF_ASSIGNED_FROM(vf_unkpt_point + offsetof(ec_point_t, x), VF_ID(&point->x)) &&
    VF_ASSIGNED_FROM(vf_unkpt_point + offsetof(ec_point_t, y), VF_ID(&point->y))))
__CPROVER_ensures((!vf_ec_fail && vf_n_unkpt == 1 && vf_unkpt_inf == 0) ==> __CPROVER_return_value == -1)
#endif
;

/* y := the root of x^3 + a x + b with the requested parity (y_is_odd 0 / 1; 2 = whichever
 * validates).  Writes only point->y. */
#ifdef VF_ENFORCE_ec_point_restore_y_by_x
#define VF_G_restore_y	__CPROVER_requires(!vf_ec_fail) __CPROVER_assigns(VF_EC_GHOST_FRAME)
#else
#define VF_G_restore_y									\
	__CPROVER_assigns(VF_EC_STATUS_ASSIGNS, vf_g.restore_y)	\
	__CPROVER_ensures(VF_EC_STATUS_ENSURES)						\
	__CPROVER_ensures(vf_st_restore_y == __CPROVER_return_value && vf_n_restore_y == __CPROVER_old(vf_n_restore_y) + 1u &&	\
	    vf_restore_y_odd == y_is_odd && vf_restore_y_point == VF_ID(point))
#endif
static inline int
ec_point_restore_y_by_x(int y_is_odd, ec_point_p point, ec_curve_p curve)
__CPROVER_requires(VF_EC_CURVE_OK(curve) && VF_EC_CURVE_WF(*curve))
__CPROVER_requires(VF_EC_POINT_OK(point) && vf_bn_wf(point->x) && VF_BN_CNT_OK(&point->y))
__CPROVER_requires(y_is_odd == 0 || y_is_odd == 1 || y_is_odd == 2)
__CPROVER_assigns(VF_BN_FRAME(&point->y))
VF_G_restore_y
__CPROVER_ensures(__CPROVER_return_value == 0 ==> vf_bn_wf(point->y))
#ifdef VF_ENFORCE_ec_point_restore_y_by_x
/* requested parity 0 / 1: no internal failure is tolerated; parity 2 (auto) may retry with p - root
 * after a failed validation of the first root */
__CPROVER_ensures((__CPROVER_return_value == 0 && y_is_odd != 2) ==> !vf_ec_fail)
__CPROVER_ensures(__CPROVER_return_value == 0 ==> ((0 != (EC_CURVE_FLAG_A_M3 & curve->flags)) ?
    (vf_n_mult_digit == 1 && vf_mult_digit_d == 3) : (vf_n_mult_digit == 0)))
#ifndef EC_DISABLE_PUB_KEY_CHK
/* success ==> the returned point was validated: the last validation ran on it and returned 0 */
__CPROVER_ensures(__CPROVER_return_value == 0 ==> (vf_n_chk_pub >= 1 && vf_st_chk_pub == 0 &&
    vf_chk_pub_point == VF_ID(point) && vf_chk_pub_curve == VF_ID(curve)))
#endif
#endif
;

/* ================================================================== C02: point arithmetic ==== */
/* Jacobian point: three well-formed numbers; infinity <=> z == 0 (digits == 0) */
#define VF_EC_PP_OK(p)		(__CPROVER_rw_ok((p), sizeof(ec_point_proj_t)))
#define VF_EC_PP_ROK(p)		(__CPROVER_r_ok((p), sizeof(ec_point_proj_t)))
#define VF_EC_PP_WF(pp)		(vf_bn_wf((pp).x) && vf_bn_wf((pp).y) && vf_bn_wf((pp).z))
#define VF_EC_PP_INF(p)		((p)->z.digits == 0)
#define VF_EC_PP_INF_OLD(p)	(__CPROVER_old((p)->z.digits) == 0)
#define VF_EC_PP_FRAME(p)	VF_BN_FRAME(&(p)->x), VF_BN_FRAME(&(p)->y), VF_BN_FRAME(&(p)->z)
#define VF_EC_PP_SAME(p, q)	(vf_bn_val((p)->x) == vf_bn_val((q)->x) && vf_bn_val((p)->y) == vf_bn_val((q)->y) &&	\
	vf_bn_val((p)->z) == vf_bn_val((q)->z))
/* ghost clauses of a point operation used as a replaced callee */
#define VF_POP_CALLEE(id, A, B, C)							\
	__CPROVER_assigns(VF_EC_STATUS_ASSIGNS, vf_g.pop)				\
	__CPROVER_ensures(VF_EC_STATUS_ENSURES)						\
	__CPROVER_ensures(vf_st_pop == __CPROVER_return_value && vf_n_pop == __CPROVER_old(vf_n_pop) + 1u &&	\
	    vf_pop_fn == (id) && vf_pop_a == VF_ID(A) && vf_pop_b == VF_ID(B) && vf_pop_c == (unsigned long)(C))	\
	__CPROVER_ensures(VF_IO_SLOTS4(vf_n_pop, vf_pop_fnk, (id)) && VF_IO_SLOTS4(vf_n_pop, vf_pop_ak, VF_ID(A)) &&	\
	    VF_IO_SLOTS4(vf_n_pop, vf_pop_bk, VF_ID(B)) && VF_IO_SLOTS4(vf_n_pop, vf_pop_ck, (unsigned long)(C)))

/* a := (b.x, b.y, 1) or (0, 0, 0) for infinity */
#ifdef VF_ENFORCE_ec_point_proj_import_affine
#define VF_G_import_affine	VF_EC_ENFORCED_GHOST
#else
#define VF_G_import_affine	VF_POP_CALLEE(VF_POP_import_affine, a, b, 0)
#endif
static inline int
ec_point_proj_import_affine(ec_point_proj_p a, ec_point_p b, ec_curve_p curve)
__CPROVER_requires(VF_EC_PP_OK(a) && VF_BN_CNT_OK(&a->x) && VF_BN_CNT_OK(&a->y) && VF_BN_CNT_OK(&a->z))
__CPROVER_requires(__CPROVER_r_ok(b, sizeof(ec_point_t)) && VF_EC_POINT_WF(*b) && VF_EC_CURVE_OK(curve))
__CPROVER_assigns(VF_EC_PP_FRAME(a))
VF_G_import_affine
__CPROVER_ensures(__CPROVER_return_value == 0 ==> VF_EC_PP_WF(*a))
__CPROVER_ensures(__CPROVER_return_value == 0 ==> (VF_EC_PP_INF(a) == (b->infinity != 0)))
__CPROVER_ensures((__CPROVER_return_value == 0 && b->infinity == 0) ==>
    (vf_bn_val(a->x) == vf_bn_val(b->x) && vf_bn_val(a->y) == vf_bn_val(b->y) && vf_bn_val(a->z) == 1))
;

/* point := (x / z^2, y / z^3, 1); infinity and z == 1 are left alone */
#ifdef VF_ENFORCE_ec_point_proj_norm
#define VF_G_norm	VF_EC_ENFORCED_GHOST
#else
#define VF_G_norm	VF_POP_CALLEE(VF_POP_norm, point, curve, 0)
#endif
static inline int
ec_point_proj_norm(ec_point_proj_p point, ec_curve_p curve)
__CPROVER_requires(VF_EC_PP_OK(point) && VF_EC_PP_WF(*point) && VF_CURVE_IN_EC(curve))
__CPROVER_assigns(!VF_EC_PP_INF(point): VF_EC_PP_FRAME(point))
VF_G_norm
__CPROVER_ensures(__CPROVER_return_value == 0 ==> VF_EC_PP_WF(*point))
__CPROVER_ensures(VF_EC_PP_INF_OLD(point) ==> (__CPROVER_return_value == 0 && VF_EC_PP_INF(point)))
__CPROVER_ensures((__CPROVER_return_value == 0 && !VF_EC_PP_INF_OLD(point)) ==> vf_bn_val(point->z) == 1)
;

/* b := affine(a); a is normalised on the way (as coded); infinity only sets b's flag */
#ifdef VF_ENFORCE_ec_point_proj_export_affine
#define VF_G_export_affine	VF_EC_ENFORCED_GHOST
#else
#define VF_G_export_affine	VF_POP_CALLEE(VF_POP_export_affine, a, b, 0)
#endif
static inline int
ec_point_proj_export_affine(ec_point_proj_p a, ec_point_p b, ec_curve_p curve)
__CPROVER_requires(VF_EC_PP_OK(a) && VF_EC_PP_WF(*a) && VF_CURVE_IN_EC(curve))
__CPROVER_requires(VF_EC_POINT_OK(b) && VF_EC_POINT_WF(*b))
__CPROVER_assigns(!VF_EC_PP_INF(a): VF_EC_PP_FRAME(a), VF_BN_FRAME(&b->x), VF_BN_FRAME(&b->y))
__CPROVER_assigns(b->infinity)
VF_G_export_affine
__CPROVER_ensures(__CPROVER_return_value == 0 ==> (VF_EC_POINT_WF(*b) && (b->infinity != 0) == VF_EC_PP_INF_OLD(a)))
__CPROVER_ensures((__CPROVER_return_value == 0 && b->infinity == 0) ==>
    (vf_bn_val(b->x) == vf_bn_val(a->x) && vf_bn_val(b->y) == vf_bn_val(a->y)))
;

/*
 * a := a + b (Jacobian; a == b is the doubling call).  Exceptional-branch selection, stated over the
 * values returned by the replaced field operations (first / second bn_cmp: A ? C, B ? D):
 *    b == infinity                    a untouched (nothing is assigned), status 0
 *    a == infinity                    a := b (value copy)
 *    A != C                           general addition (no multiplication by 3)
 *    A == C, B != D                   a := infinity (z := 0, x and y untouched), status 0
 *    A == C, B == D  or  a == b       doubling: y == 0 -> infinity, else the doubling formula
 *                                     (exactly one multiplication by 3)
 */
#ifdef VF_ENFORCE_ec_point_proj_add
#define VF_G_padd	VF_EC_ENFORCED_GHOST
#else
#define VF_G_padd	VF_POP_CALLEE(VF_POP_add, a, b, 0)
#endif
static inline int
ec_point_proj_add(ec_point_proj_p a, ec_point_proj_p b, ec_curve_p curve)
__CPROVER_requires(VF_EC_PP_OK(a) && VF_EC_PP_WF(*a) && VF_EC_PP_ROK(b) && VF_EC_PP_WF(*b) && VF_CURVE_IN_EC(curve))
__CPROVER_requires(a == b || !__CPROVER_same_object(a, b))
__CPROVER_assigns(!VF_EC_PP_INF(b): VF_EC_PP_FRAME(a))
VF_G_padd
__CPROVER_ensures(__CPROVER_return_value == 0 ==> VF_EC_PP_WF(*a))
__CPROVER_ensures(VF_EC_PP_INF_OLD(b) ==> __CPROVER_return_value == 0)
#ifdef VF_ENFORCE_ec_point_proj_add
__CPROVER_ensures((!VF_EC_PP_INF_OLD(b) && VF_EC_PP_INF_OLD(a) && __CPROVER_return_value == 0) ==>
    VF_EC_PP_SAME(a, b))
__CPROVER_ensures((!VF_EC_PP_INF_OLD(b) && !VF_EC_PP_INF_OLD(a) && a != b && !vf_ec_fail && vf_n_cmp >= 1 && vf_cmp_r0 != 0) ==>
    (vf_n_cmp == 1 && vf_n_mult_digit3 == 0 && (__CPROVER_return_value != 0 || vf_n_assign >= 3)))
__CPROVER_ensures((!VF_EC_PP_INF_OLD(b) && !VF_EC_PP_INF_OLD(a) && a != b && vf_n_cmp >= 2 && vf_cmp_r0 == 0 && vf_cmp_r1 != 0) ==>
    (__CPROVER_return_value == 0 && VF_EC_PP_INF(a) && vf_n_mult_digit3 == 0 &&
     vf_bn_val(a->x) == vf_bn_val(__CPROVER_old(a->x)) && vf_bn_val(a->y) == vf_bn_val(__CPROVER_old(a->y))))
__CPROVER_ensures((!VF_EC_PP_INF_OLD(b) && !VF_EC_PP_INF_OLD(a) &&
    (a == b || (vf_n_cmp >= 2 && vf_cmp_r0 == 0 && vf_cmp_r1 == 0)) && __CPROVER_return_value == 0) ==>
    ((__CPROVER_old(a->y.digits) == 0) ? (VF_EC_PP_INF(a) && vf_n_mult_digit3 == 0) : (vf_n_mult_digit3 == 1)))
__CPROVER_ensures((!VF_EC_PP_INF_OLD(b) && !VF_EC_PP_INF_OLD(a) && a == b) ==> vf_n_cmp == 0)
#endif
;

/* a := a - b: b is negated into a temporary (p - b.y), then added */
#ifdef VF_ENFORCE_ec_point_proj_sub
#define VF_G_psub	VF_EC_ENFORCED_GHOST
#else
#define VF_G_psub	VF_POP_CALLEE(VF_POP_sub, a, b, 0)
#endif
static inline int
ec_point_proj_sub(ec_point_proj_p a, ec_point_proj_p b, ec_curve_p curve)
__CPROVER_requires(VF_EC_PP_OK(a) && VF_EC_PP_WF(*a) && VF_EC_PP_ROK(b) && VF_EC_PP_WF(*b) && VF_CURVE_IN_EC(curve))
__CPROVER_requires(a == b || !__CPROVER_same_object(a, b))
__CPROVER_assigns(VF_EC_PP_FRAME(a))
VF_G_psub
__CPROVER_ensures(__CPROVER_return_value == 0 ==> VF_EC_PP_WF(*a))
#ifdef VF_ENFORCE_ec_point_proj_sub
/* one addition, of a temporary that is neither a nor b */
__CPROVER_ensures(__CPROVER_return_value == 0 ==> (vf_n_pop == 1 && vf_pop_fn == VF_POP_add && vf_st_pop == 0 &&
    vf_pop_a == VF_ID(a) && vf_pop_b != VF_ID(a) && vf_pop_b != VF_ID(b)))
/* the temporary is (b.x, p - b.y, b.z) */
__CPROVER_ensures(__CPROVER_return_value == 0 ==> (
    VF_ASSIGNED_FROM(vf_pop_b + offsetof(ec_point_proj_t, x), VF_ID(&b->x)) &&
    VF_ASSIGNED_FROM(vf_pop_b + offsetof(ec_point_proj_t, y), VF_ID(&curve->p)) &&
    VF_ASSIGNED_FROM(vf_pop_b + offsetof(ec_point_proj_t, z), VF_ID(&b->z))))
/* ... its y is p - b.y: the first modular subtraction is (copy of p) - b.y modulo p */
__CPROVER_ensures(__CPROVER_return_value == 0 ==> (vf_n_msub == 1 && vf_msub_bn0 == vf_pop_b + offsetof(ec_point_proj_t, y) &&
    vf_msub_n0 == VF_ID(&b->y) && vf_msub_m0 == VF_ID(&curve->p)))
#endif
;

/*
 * a := a + b, b affine (mixed addition).  Branch selection:
 *    b == infinity                    a untouched, status 0
 *    a == infinity                    a := projective(b)                 (ec_point_proj_import_affine)
 *    T1 == 0 (same x), T2 == 0        doubling: exactly one ec_point_proj_add(a, a)
 *    T1 == 0, T2 != 0                 a := infinity (z := 0), status 0
 *    otherwise                        the mixed-addition formula, no call of ec_point_proj_add
 * T1, T2 are the results of the two bn_mod_sub calls; "== 0" is their digits == 0 (bn_is_zero, real).
 */
#ifdef VF_ENFORCE_ec_point_proj_add_mix
#define VF_G_padd_mix	VF_EC_ENFORCED_GHOST
#else
#define VF_G_padd_mix	VF_POP_CALLEE(VF_POP_add_mix, a, b, (long)b->infinity)	/* c = infinity flag of the affine operand */
#endif
static inline int
ec_point_proj_add_mix(ec_point_proj_p a, ec_point_p b, ec_curve_p curve)
__CPROVER_requires(VF_EC_PP_OK(a) && VF_EC_PP_WF(*a) && VF_CURVE_IN_EC(curve))
__CPROVER_requires(__CPROVER_r_ok(b, sizeof(ec_point_t)) && VF_EC_POINT_WF(*b) && !__CPROVER_same_object(a, b))
__CPROVER_assigns(b->infinity == 0: VF_EC_PP_FRAME(a))
VF_G_padd_mix
__CPROVER_ensures(__CPROVER_return_value == 0 ==> VF_EC_PP_WF(*a))
__CPROVER_ensures(b->infinity != 0 ==> __CPROVER_return_value == 0)
#ifdef VF_ENFORCE_ec_point_proj_add_mix
__CPROVER_ensures((b->infinity == 0 && VF_EC_PP_INF_OLD(a) && __CPROVER_return_value == 0) ==>
    (vf_n_pop == 1 && vf_pop_fn == VF_POP_import_affine && vf_st_pop == 0 && vf_pop_a == VF_ID(a) && vf_pop_b == VF_ID(b)))
__CPROVER_ensures((b->infinity == 0 && !VF_EC_PP_INF_OLD(a) && __CPROVER_return_value == 0) ==>
    (vf_n_pop == 0 || (vf_n_pop == 1 && vf_pop_fn == VF_POP_add && vf_st_pop == 0 && vf_pop_a == VF_ID(a) && vf_pop_b == VF_ID(a))))
/* T1 == 0 and T2 == 0: doubling call;  T1 == 0 and T2 != 0: infinity, nothing else;  T1 != 0: formula */
__CPROVER_ensures((b->infinity == 0 && !VF_EC_PP_INF_OLD(a) && __CPROVER_return_value == 0 && vf_n_msub >= 2 && vf_msub_z0 && vf_msub_z1) ==>
    (vf_n_pop == 1 && vf_pop_fn == VF_POP_add))
__CPROVER_ensures((b->infinity == 0 && !VF_EC_PP_INF_OLD(a) && !vf_ec_fail && vf_n_msub >= 2 && vf_msub_z0 && !vf_msub_z1) ==>
    (__CPROVER_return_value == 0 && vf_n_pop == 0 && VF_EC_PP_INF(a) && vf_n_msub == 2))
__CPROVER_ensures((b->infinity == 0 && !VF_EC_PP_INF_OLD(a) && vf_n_msub >= 2 && !vf_msub_z0) ==> vf_n_pop == 0)
#endif
;

#ifdef VF_ENFORCE_ec_point_proj_sub_mix
#define VF_G_psub_mix	VF_EC_ENFORCED_GHOST
#else
#define VF_G_psub_mix	VF_POP_CALLEE(VF_POP_sub_mix, a, b, (long)b->infinity)
#endif
static inline int
ec_point_proj_sub_mix(ec_point_proj_p a, ec_point_p b, ec_curve_p curve)
__CPROVER_requires(VF_EC_PP_OK(a) && VF_EC_PP_WF(*a) && VF_CURVE_IN_EC(curve))
__CPROVER_requires(__CPROVER_r_ok(b, sizeof(ec_point_t)) && VF_EC_POINT_WF(*b) && !__CPROVER_same_object(a, b))
__CPROVER_assigns(VF_EC_PP_FRAME(a))
VF_G_psub_mix
__CPROVER_ensures(__CPROVER_return_value == 0 ==> VF_EC_PP_WF(*a))
#ifdef VF_ENFORCE_ec_point_proj_sub_mix
__CPROVER_ensures(__CPROVER_return_value == 0 ==> (vf_n_pop == 1 && vf_pop_fn == VF_POP_add_mix && vf_st_pop == 0 &&
    vf_pop_a == VF_ID(a) && vf_pop_b != VF_ID(b)))
/* the operand handed to the addition is -b = (b.x, p - b.y, b.infinity) */
__CPROVER_ensures(__CPROVER_return_value == 0 ==> (
    VF_ASSIGNED_FROM(vf_pop_b + offsetof(ec_point_t, x), VF_ID(&b->x)) &&
    VF_ASSIGNED_FROM(vf_pop_b + offsetof(ec_point_t, y), VF_ID(&curve->p))))
__CPROVER_ensures(__CPROVER_return_value == 0 ==> (vf_n_msub == 1 && vf_msub_bn0 == vf_pop_b + offsetof(ec_point_t, y) &&
    vf_msub_n0 == VF_ID(&b->y) && vf_msub_m0 == VF_ID(&curve->p)))
__CPROVER_ensures(__CPROVER_return_value == 0 ==> vf_pop_c == (unsigned long)(long)b->infinity)
#endif
;

/* affine front ends (ec_point_add / ec_point_sub of the projective build):
 * import a, mixed add/sub of b, export back into a */
#define VF_AFFINE_BINOP_CONTRACT(fn, GHOST, MIXID)					\
static inline int fn(ec_point_p a, ec_point_p b, ec_curve_p curve)			\
__CPROVER_requires(VF_EC_POINT_OK(a) && VF_EC_POINT_WF(*a) && VF_CURVE_IN_EC(curve))	\
__CPROVER_requires(__CPROVER_r_ok(b, sizeof(ec_point_t)) && VF_EC_POINT_WF(*b) && (a == b || !__CPROVER_same_object(a, b)))	\
__CPROVER_assigns(VF_EC_POINT_FRAME(a))							\
GHOST											\
__CPROVER_ensures(__CPROVER_return_value == 0 ==> VF_EC_POINT_WF(*a))
#ifdef VF_ENFORCE_ec_point_proj_add_affine
VF_AFFINE_BINOP_CONTRACT(ec_point_proj_add_affine, VF_EC_ENFORCED_GHOST, VF_POP_add_mix)
__CPROVER_ensures(__CPROVER_return_value == 0 ==> (vf_n_pop == 3 && vf_pop_fn == VF_POP_export_affine && vf_pop_b == VF_ID(a)))
/* import(tm, a); add_mix(tm, b); export(tm, a) - the mixed operation gets the caller's b itself */
__CPROVER_ensures(__CPROVER_return_value == 0 ==> (vf_pop_fnk[0] == VF_POP_import_affine && vf_pop_bk[0] == VF_ID(a) &&
    vf_pop_fnk[1] == VF_POP_add_mix && vf_pop_ak[1] == vf_pop_ak[0] && vf_pop_bk[1] == VF_ID(b) &&
    vf_pop_ck[1] == (unsigned long)(long)b->infinity && vf_pop_ak[2] == vf_pop_ak[0]))
;
#else
VF_AFFINE_BINOP_CONTRACT(ec_point_proj_add_affine, VF_POP_CALLEE(VF_POP_add, a, b, 1), VF_POP_add_mix)
;
#endif
#ifdef VF_ENFORCE_ec_point_proj_sub_affine
VF_AFFINE_BINOP_CONTRACT(ec_point_proj_sub_affine, VF_EC_ENFORCED_GHOST, VF_POP_sub_mix)
__CPROVER_ensures(__CPROVER_return_value == 0 ==> (vf_n_pop == 3 && vf_pop_fn == VF_POP_export_affine && vf_pop_b == VF_ID(a)))
__CPROVER_ensures(__CPROVER_return_value == 0 ==> (vf_pop_fnk[0] == VF_POP_import_affine && vf_pop_bk[0] == VF_ID(a) &&
    vf_pop_fnk[1] == VF_POP_sub_mix && vf_pop_ak[1] == vf_pop_ak[0] && vf_pop_bk[1] == VF_ID(b) &&
    vf_pop_ck[1] == (unsigned long)(long)b->infinity && vf_pop_ak[2] == vf_pop_ak[0]))
;
#else
VF_AFFINE_BINOP_CONTRACT(ec_point_proj_sub_affine, VF_POP_CALLEE(VF_POP_sub, a, b, 1), VF_POP_sub_mix)
;
#endif

/* ---- affine-coordinate addition / subtraction (ec_point_add / ec_point_sub of a build without
 * EC_USE_PROJECTIVE; the functions are compiled in every configuration) ----
 * ec_point_affine_add: a := a + b.  Branch selection:
 *    b == infinity                    a untouched, status 0
 *    a == infinity                    a := b (coordinates and flag copied)
 *    a != b, bx - ax != 0             chord formula (no multiplication by 3), result finite
 *    a != b, bx - ax == 0, ay == by   doubling
 *    a != b, bx - ax == 0, ay != by   a := infinity (flag only), status 0
 *    a == b or doubling               ay == 0 -> infinity, else tangent formula (one multiplication by 3)
 */
#ifdef VF_ENFORCE_ec_point_affine_add
#define VF_G_aadd	VF_EC_ENFORCED_GHOST
#else
#define VF_G_aadd	VF_POP_CALLEE(VF_POP_affine_add, a, b, (long)b->infinity)
#endif
static inline int
ec_point_affine_add(ec_point_p a, ec_point_p b, ec_curve_p curve)
__CPROVER_requires(VF_EC_POINT_OK(a) && VF_EC_POINT_WF(*a) && VF_CURVE_IN_EC(curve))
__CPROVER_requires(__CPROVER_r_ok(b, sizeof(ec_point_t)) && VF_EC_POINT_WF(*b) && (a == b || !__CPROVER_same_object(a, b)))
__CPROVER_assigns(b->infinity == 0: VF_EC_POINT_FRAME(a))
VF_G_aadd
__CPROVER_ensures(__CPROVER_return_value == 0 ==> VF_EC_POINT_WF(*a))
__CPROVER_ensures(__CPROVER_old(b->infinity) != 0 ==> __CPROVER_return_value == 0)
#ifdef VF_ENFORCE_ec_point_affine_add
__CPROVER_ensures((__CPROVER_old(b->infinity) == 0 && __CPROVER_old(a->infinity) != 0 && __CPROVER_return_value == 0) ==>
    (a->infinity == 0 && vf_bn_val(a->x) == vf_bn_val(b->x) && vf_bn_val(a->y) == vf_bn_val(b->y)))
__CPROVER_ensures((__CPROVER_old(b->infinity) == 0 && __CPROVER_old(a->infinity) == 0 && a != b && vf_n_msub >= 1 && !vf_msub_z0 && !vf_ec_fail) ==>
    (vf_n_mult_digit3 == 0 && (__CPROVER_return_value != 0 || a->infinity == 0)))
__CPROVER_ensures((__CPROVER_old(b->infinity) == 0 && __CPROVER_old(a->infinity) == 0 && a != b && vf_n_msub >= 1 && vf_msub_z0 &&
    vf_bn_val(__CPROVER_old(a->y)) != vf_bn_val(b->y)) ==>
    (__CPROVER_return_value == 0 && a->infinity == 1 && vf_n_mult_digit3 == 0 &&
     vf_bn_val(a->x) == vf_bn_val(__CPROVER_old(a->x)) && vf_bn_val(a->y) == vf_bn_val(__CPROVER_old(a->y))))
__CPROVER_ensures((__CPROVER_old(b->infinity) == 0 && __CPROVER_old(a->infinity) == 0 && __CPROVER_return_value == 0 &&
    (a == b || (vf_n_msub >= 1 && vf_msub_z0 && vf_bn_val(__CPROVER_old(a->y)) == vf_bn_val(b->y)))) ==>
    ((__CPROVER_old(a->y.digits) == 0) ? (a->infinity == 1 && vf_n_mult_digit3 == 0) : (vf_n_mult_digit3 == 1 && a->infinity == 0)))
#endif
;
/* ec_point_affine_sub: a := a + (-b) with -b = (b.x, p - b.y, b.infinity) in a temporary */
#ifdef VF_ENFORCE_ec_point_affine_sub
#define VF_G_asub	VF_EC_ENFORCED_GHOST
#else
#define VF_G_asub	VF_POP_CALLEE(VF_POP_affine_sub, a, b, (long)b->infinity)
#endif
static inline int
ec_point_affine_sub(ec_point_p a, ec_point_p b, ec_curve_p curve)
__CPROVER_requires(VF_EC_POINT_OK(a) && VF_EC_POINT_WF(*a) && VF_CURVE_IN_EC(curve))
__CPROVER_requires(__CPROVER_r_ok(b, sizeof(ec_point_t)) && VF_EC_POINT_WF(*b) && (a == b || !__CPROVER_same_object(a, b)))
__CPROVER_assigns(VF_EC_POINT_FRAME(a))
VF_G_asub
__CPROVER_ensures(__CPROVER_return_value == 0 ==> VF_EC_POINT_WF(*a))
#ifdef VF_ENFORCE_ec_point_affine_sub
__CPROVER_ensures(__CPROVER_return_value == 0 ==> (vf_n_pop == 1 && vf_pop_fn == VF_POP_affine_add && vf_st_pop == 0 &&
    vf_pop_a == VF_ID(a) && vf_pop_b != VF_ID(a) && vf_pop_b != VF_ID(b)))
__CPROVER_ensures(__CPROVER_return_value == 0 ==> (
    VF_ASSIGNED_FROM(vf_pop_b + offsetof(ec_point_t, x), VF_ID(&b->x)) &&
    VF_ASSIGNED_FROM(vf_pop_b + offsetof(ec_point_t, y), VF_ID(&curve->p))))
__CPROVER_ensures(__CPROVER_return_value == 0 ==> (vf_n_msub == 1 && vf_msub_bn0 == vf_pop_b + offsetof(ec_point_t, y) &&
    vf_msub_n0 == VF_ID(&b->y) && vf_msub_m0 == VF_ID(&curve->p)))
__CPROVER_ensures(__CPROVER_return_value == 0 ==> vf_pop_c == (unsigned long)(long)__CPROVER_old(b->infinity))
#endif
;

/* point equality / inverse tests (values are only compared) */
static inline int
ec_point_is_eq(ec_point_p a, ec_point_p b)
__CPROVER_requires(a == NULL || (__CPROVER_r_ok(a, sizeof(ec_point_t)) && VF_EC_POINT_WF(*a)))
__CPROVER_requires(b == NULL || (__CPROVER_r_ok(b, sizeof(ec_point_t)) && VF_EC_POINT_WF(*b)))
__CPROVER_assigns(vf_g.cmp)
__CPROVER_ensures(a == b ==> __CPROVER_return_value == 1)
__CPROVER_ensures((a != b && (a == NULL || b == NULL)) ==> __CPROVER_return_value == 0)
__CPROVER_ensures((a != NULL && b != NULL) ==> (__CPROVER_return_value == (
    (a == b || (a->infinity != 0 && b->infinity != 0) ||
     (a->infinity == 0 && b->infinity == 0 && vf_bn_val(a->x) == vf_bn_val(b->x) && vf_bn_val(a->y) == vf_bn_val(b->y))) ? 1 : 0)))
;

/* ================================================================== C02: ladders and tables ==== */
/*
 * Scalar-multiplication ladders of the tests' configuration: COMB_2T (fixed point, window 9), COMB_1T
 * (unknown point, window 2; the same functions, the same table type with 2^9 - 1 slots), interleaved
 * w-NAF twin multiplication (EP_DEPTH = EP_WIDTH = 4, tables of 4).  Enforced (-DVF_ENFORCE_<fn>) with
 * the point additions / doublings, the recoding functions and bn_* replaced by contracts:
 *   memory safety incl. TABLE-INDEX BOUNDS: every pt_add_arr[windex - 1], pt_dbl_arr[windex - 1],
 *       tbl[naf / 2], tbl[-naf / 2], naf0[i], naf1[i] is inside its array, for every scalar;
 *   frame (only the result point / the table is written);  a callee error is propagated;
 *   well-formed result on success.
 * Representation invariant of a comb table (VF_COMB_TBL): wnd_bits <= EC_PF_FXP_MULT_WIN_BITS (the
 * array has 2^EC_PF_FXP_MULT_WIN_BITS - 1 slots), wnd_count <= BN_BIT_LEN, every slot a pair of
 * well-formed numbers.  It is REQUIRED by the enforced ladder and ESTABLISHED (first two parts) by
 * the enforced precompute; callers up the chain (ec_point_mult_bp ... ecdsa_*) do not restate it
 * for curve->G_fpx_mult_data: there it is an assumption on the curve object.
 */
#define VF_BN_WF_Q(n)		((n).count >= 1 && (n).count <= BN_MAX_DIGITS && (n).digits <= (n).count &&	\
	((n).digits == 0 || (n).num[(n).digits - 1] != 0))
#define VF_PT_ARR_WF(arr, N)	__CPROVER_forall { size_t vf_qk; (vf_qk < (size_t)(N)) ==>		\
	(VF_BN_WF_Q((arr)[vf_qk].x) && VF_BN_WF_Q((arr)[vf_qk].y)) }
#define VF_COMB_HDR(md)		((md)->wnd_bits <= EC_PF_FXP_MULT_WIN_BITS && (md)->wnd_count <= BN_BIT_LEN)

/* res has at most wnd_bits significant bits; reads the number only (enforced: ec.bn_combo_column_get) */
static inline bn_digit_t
bn_combo_column_get(bn_p bn, size_t bit_off, size_t wnd_bits, size_t wnd_count)
__CPROVER_requires(VF_ECBN_R(bn) && wnd_bits < BN_DIGIT_BITS)
__CPROVER_assigns()
__CPROVER_ensures(__CPROVER_return_value < (((bn_digit_t)1) << wnd_bits))
;
/* width-w NAF (assumed; C01 r2.bn_calc_naf.w8.b8 checks exactly these facts on 8-bit scalars): every
 * entry of the array is 0 or odd with |digit| < 2^(w-1), entries from the count on are 0, count <= size */
#define VF_NAF_DIGIT_OK(v, w)	((v) == 0 || (((v) & 1) != 0 && (v) < (1 << ((w) - 1)) && (v) > -(1 << ((w) - 1))))
static inline int
bn_calc_naf(bn_p bn, size_t wnd_bits, size_t naf_arr_size, int8_t *naf_arr, size_t *naf_arr_items_cnt_ret)
__CPROVER_requires(VF_ECBN_R(bn) && wnd_bits >= 2 && wnd_bits <= 7 && naf_arr_size <= BN_BIT_LEN)
__CPROVER_requires(__CPROVER_w_ok(naf_arr, naf_arr_size) && __CPROVER_w_ok(naf_arr_items_cnt_ret, sizeof(size_t)))
__CPROVER_assigns(__CPROVER_object_upto(naf_arr, naf_arr_size), *naf_arr_items_cnt_ret)
__CPROVER_assigns(VF_EC_STATUS_ASSIGNS)
__CPROVER_ensures(VF_EC_STATUS_ENSURES)
__CPROVER_ensures(__CPROVER_return_value == 0 ==> *naf_arr_items_cnt_ret <= naf_arr_size)
/* count <= bits + 1 (C01: "reported count within bits + 1"), instance for scalars below 8 */
__CPROVER_ensures((__CPROVER_return_value == 0 && (bn->digits == 0 || (bn->digits == 1 && bn->num[0] < 8))) ==>
    *naf_arr_items_cnt_ret <= 4)
__CPROVER_ensures(__CPROVER_return_value == 0 ==> __CPROVER_forall { size_t vf_qn; (vf_qn < (size_t)BN_BIT_LEN) ==>
    (vf_qn >= naf_arr_size || (VF_NAF_DIGIT_OK(naf_arr[vf_qn], wnd_bits) &&
     (vf_qn < *naf_arr_items_cnt_ret || naf_arr[vf_qn] == 0))) })
;
/* n doublings in place (assumed: loop over n) */
static inline int
ec_point_proj_dbl_n(ec_point_proj_p point, size_t n, ec_curve_p curve)
__CPROVER_requires(VF_EC_PP_OK(point) && VF_EC_PP_WF(*point) && VF_CURVE_IN_EC(curve))
__CPROVER_assigns(VF_EC_PP_FRAME(point))
VF_POP_CALLEE(VF_POP_dbl_n, point, curve, n)
__CPROVER_ensures(__CPROVER_return_value == 0 ==> VF_EC_PP_WF(*point))
;
/* binary ladder, the fall-back of the comb multipliers for over-long scalars (assumed) */
static inline int
ec_point_proj_bin_mult(ec_point_proj_p point, bn_p d, ec_curve_p curve)
__CPROVER_requires(VF_EC_PP_OK(point) && VF_EC_PP_WF(*point) && VF_ECBN_R(d) && VF_CURVE_IN_EC(curve))
__CPROVER_assigns(VF_EC_PP_FRAME(point))
VF_POP_CALLEE(VF_POP_bin_mult, point, d, 0)
__CPROVER_ensures(__CPROVER_return_value == 0 ==> VF_EC_PP_WF(*point))
;

#if defined(EC_USE_PROJECTIVE) && defined(EC_PROJ_ADD_MIX)
/* ---- comb multipliers: point := d * P from the table(s) ---- */
#define VF_COMB_MULT_CONTRACT(fn, T, GHOST, TBLREQ)					\
static inline int fn(ec_point_proj_p point, T *mult_data, bn_p d, ec_curve_p curve)	\
__CPROVER_requires(VF_EC_PP_OK(point) && VF_EC_PP_WF(*point) && VF_ECBN_R(d) && VF_CURVE_IN_EC(curve))	\
__CPROVER_requires(__CPROVER_r_ok(mult_data, sizeof(T)))				\
TBLREQ											\
__CPROVER_assigns(VF_EC_PP_FRAME(point))						\
GHOST											\
__CPROVER_ensures(__CPROVER_return_value == 0 ==> VF_EC_PP_WF(*point))			\
;
#ifdef VF_ENFORCE_ec_point_proj_fpx_comb1t_mult
VF_COMB_MULT_CONTRACT(ec_point_proj_fpx_comb1t_mult, ec_point_proj_fpx_comb1t_mult_data_t, VF_EC_ENFORCED_GHOST,
    __CPROVER_requires(VF_COMB_HDR(mult_data) && VF_PT_ARR_WF(mult_data->pt_add_arr, EC_PF_FXP_MULT_NUM_POINTS)))
#else
VF_COMB_MULT_CONTRACT(ec_point_proj_fpx_comb1t_mult, ec_point_proj_fpx_comb1t_mult_data_t,
    VF_POP_CALLEE(VF_POP_unkpt_mult, point, d, VF_ID(mult_data)), )
#endif
#ifdef VF_ENFORCE_ec_point_proj_fpx_comb2t_mult
VF_COMB_MULT_CONTRACT(ec_point_proj_fpx_comb2t_mult, ec_point_proj_fpx_comb2t_mult_data_t, VF_EC_ENFORCED_GHOST,
    __CPROVER_requires(VF_COMB_HDR(mult_data) && mult_data->e_count <= BN_BIT_LEN &&
	VF_PT_ARR_WF(mult_data->pt_add_arr, EC_PF_FXP_MULT_NUM_POINTS) &&
	VF_PT_ARR_WF(mult_data->pt_dbl_arr, EC_PF_FXP_MULT_NUM_POINTS)))
#else
VF_COMB_MULT_CONTRACT(ec_point_proj_fpx_comb2t_mult, ec_point_proj_fpx_comb2t_mult_data_t,
    VF_POP_CALLEE(VF_POP_fpx_mult, point, d, VF_ID(mult_data)), )
#endif
/* ---- table construction: writes the table only; wnd_bits must fit the array ---- */
#ifdef VF_ENFORCE_ec_point_proj_fpx_comb1t_mult_precompute_affine
#define VF_G_comb1t_pre	VF_EC_ENFORCED_GHOST
#else
#define VF_G_comb1t_pre	VF_POP_CALLEE(VF_POP_unkpt_pre, point, mult_data, wnd_bits)
#endif
static inline int
ec_point_proj_fpx_comb1t_mult_precompute_affine(size_t wnd_bits, ec_point_p point, ec_curve_p curve,
    ec_point_proj_fpx_comb1t_mult_data_t *mult_data)
__CPROVER_requires(__CPROVER_r_ok(point, sizeof(ec_point_t)) && VF_EC_POINT_WF(*point) && VF_CURVE_IN_EC(curve))
__CPROVER_requires(__CPROVER_rw_ok(mult_data, sizeof(ec_point_proj_fpx_comb1t_mult_data_t)))
__CPROVER_requires(wnd_bits <= EC_PF_FXP_MULT_WIN_BITS && !__CPROVER_same_object(point, mult_data))
__CPROVER_assigns(__CPROVER_object_upto(mult_data, sizeof(ec_point_proj_fpx_comb1t_mult_data_t)))
VF_G_comb1t_pre
__CPROVER_ensures(__CPROVER_return_value == 0 ==> VF_COMB_HDR(mult_data))
;
#define VF_LADDER_FPX_CONTRACT
#define VF_LADDER_UNKPT_CONTRACT
#define VF_LADDER_UNKPT_PRE_CONTRACT

/* ---- interleaved twin multiplication: res := ad * a + bd * b ---- */
/* table of odd multiples 1P, 3P, ... (2^(w-1) - 1)P: 2^(w-2) slots */
#ifdef VF_ENFORCE_ec_point_proj_inter_twin_mult_precalc_affine
#define VF_G_inter_pre	VF_EC_ENFORCED_GHOST
#else
#define VF_G_inter_pre	VF_POP_CALLEE(VF_POP_inter_pre, point, tbl, wnd_bits)
#endif
static inline int
ec_point_proj_inter_twin_mult_precalc_affine(ec_point_p point, size_t wnd_bits, ec_curve_p curve, ec_pt_proj_am_t *tbl)
__CPROVER_requires(__CPROVER_r_ok(point, sizeof(ec_point_t)) && VF_EC_POINT_WF(*point) && VF_CURVE_IN_EC(curve))
__CPROVER_requires(wnd_bits >= 2 && wnd_bits <= 4 && !__CPROVER_same_object(point, tbl))
__CPROVER_requires(__CPROVER_rw_ok(tbl, (((size_t)1) << (wnd_bits - 2)) * sizeof(ec_pt_proj_am_t)))
__CPROVER_assigns(__CPROVER_object_upto(tbl, (((size_t)1) << (wnd_bits - 2)) * sizeof(ec_pt_proj_am_t)))
VF_G_inter_pre
__CPROVER_ensures(__CPROVER_return_value == 0 ==> (VF_EC_POINT_WF(tbl[0]) &&
    (wnd_bits < 3 || VF_EC_POINT_WF(tbl[1])) && (wnd_bits < 4 || (VF_EC_POINT_WF(tbl[2]) && VF_EC_POINT_WF(tbl[3])))))
;
#ifdef VF_ENFORCE_ec_point_proj_inter_twin_mult_affine
#define VF_G_inter_twin	VF_EC_ENFORCED_GHOST
#else
#define VF_G_inter_twin	VF_POP_CALLEE(VF_POP_twin_mult, a, b, VF_ID(res))
#endif
static inline int
ec_point_proj_inter_twin_mult_affine(ec_point_p a, bn_p ad, ec_point_p b, bn_p bd, ec_curve_p curve, ec_point_p res)
__CPROVER_requires(__CPROVER_r_ok(a, sizeof(ec_point_t)) && VF_EC_POINT_WF(*a) && VF_ECBN_R(ad))
__CPROVER_requires(__CPROVER_r_ok(b, sizeof(ec_point_t)) && VF_EC_POINT_WF(*b) && VF_ECBN_R(bd) && VF_CURVE_IN_EC(curve))
__CPROVER_requires(VF_EC_POINT_OK(res) && VF_EC_POINT_WF(*res))
__CPROVER_assigns(VF_EC_POINT_FRAME(res))
VF_G_inter_twin
__CPROVER_ensures(__CPROVER_return_value == 0 ==> VF_EC_POINT_WF(*res))
;
#define VF_LADDER_TWIN_CONTRACT
#else /* other builds: the multipliers stay generic assumed callees */
#define VF_LADDER_FPX_CONTRACT								\
static inline int									\
ec_point_proj_fpx_mult(ec_point_proj_p point, ec_point_proj_fpx_mult_data_t *mult_data, bn_p d, ec_curve_p curve)	\
__CPROVER_requires(VF_EC_PP_OK(point) && VF_EC_PP_WF(*point) && VF_ECBN_R(d) && VF_CURVE_IN_EC(curve))	\
__CPROVER_requires(__CPROVER_r_ok(mult_data, sizeof(ec_point_proj_fpx_mult_data_t)))	\
__CPROVER_assigns(VF_EC_PP_FRAME(point))						\
VF_POP_CALLEE(VF_POP_fpx_mult, point, d, VF_ID(mult_data))				\
__CPROVER_ensures(__CPROVER_return_value == 0 ==> VF_EC_PP_WF(*point))			\
;
#define VF_LADDER_UNKPT_CONTRACT							\
static inline int									\
ec_point_proj_unkpt_mult(ec_point_proj_p point, ec_point_proj_unkpt_mult_data_t *mult_data, bn_p d, ec_curve_p curve)	\
__CPROVER_requires(VF_EC_PP_OK(point) && VF_EC_PP_WF(*point) && VF_ECBN_R(d) && VF_CURVE_IN_EC(curve))	\
__CPROVER_requires(__CPROVER_r_ok(mult_data, sizeof(ec_point_proj_unkpt_mult_data_t)))	\
__CPROVER_assigns(VF_EC_PP_FRAME(point))						\
VF_POP_CALLEE(VF_POP_unkpt_mult, point, d, VF_ID(mult_data))				\
__CPROVER_ensures(__CPROVER_return_value == 0 ==> VF_EC_PP_WF(*point))			\
;
#define VF_LADDER_UNKPT_PRE_CONTRACT							\
static inline int									\
ec_point_proj_unkpt_mult_precompute_affine(size_t wnd_bits, ec_point_p point, ec_curve_p curve,	\
    ec_point_proj_unkpt_mult_data_t *mult_data)						\
__CPROVER_requires(__CPROVER_r_ok(point, sizeof(ec_point_t)) && VF_EC_POINT_WF(*point) && VF_CURVE_IN_EC(curve))	\
__CPROVER_requires(__CPROVER_rw_ok(mult_data, sizeof(ec_point_proj_unkpt_mult_data_t)))	\
__CPROVER_assigns(__CPROVER_object_upto(mult_data, sizeof(ec_point_proj_unkpt_mult_data_t)))	\
VF_POP_CALLEE(VF_POP_unkpt_pre, point, mult_data, wnd_bits)				\
;
#define VF_LADDER_TWIN_CONTRACT								\
static inline int									\
ec_point_proj_twin_mult(ec_point_p a, bn_p ad, ec_point_p b, bn_p bd, ec_curve_p curve, ec_point_p res)	\
__CPROVER_requires(__CPROVER_r_ok(a, sizeof(ec_point_t)) && VF_EC_POINT_WF(*a) && VF_ECBN_R(ad))	\
__CPROVER_requires(__CPROVER_r_ok(b, sizeof(ec_point_t)) && VF_EC_POINT_WF(*b) && VF_ECBN_R(bd) && VF_CURVE_IN_EC(curve))	\
__CPROVER_requires(VF_EC_POINT_OK(res) && VF_EC_POINT_WF(*res))				\
__CPROVER_assigns(VF_EC_POINT_FRAME(res))						\
VF_POP_CALLEE(VF_POP_twin_mult, a, b, VF_ID(res))					\
__CPROVER_ensures(__CPROVER_return_value == 0 ==> VF_EC_POINT_WF(*res))			\
;
#endif

/* ================================================================== C02: multiplication dispatch ==== */
/* the algorithm-level multipliers are ASSUMED callees here (ladders / comb tables are not proved):
 * frame = the result point, any status, status 0 => well-formed coordinates */
#if EC_PF_FXP_MULT_ALGO != EC_PF_FXP_MULT_ALGO_BIN
#ifdef VF_ENFORCE_ec_point_proj_fpx_mult_affine
#define VF_G_fpx_mult_affine	VF_EC_ENFORCED_GHOST
#else
#define VF_G_fpx_mult_affine	VF_POP_CALLEE(VF_POP_fpx_mult_affine, point, d, VF_ID(mult_data))
#endif
static inline int
ec_point_proj_fpx_mult_affine(ec_point_p point, ec_point_proj_fpx_mult_data_t *mult_data, bn_p d, ec_curve_p curve)
__CPROVER_requires(VF_EC_POINT_OK(point) && VF_EC_POINT_WF(*point) && VF_ECBN_R(d) && VF_CURVE_IN_EC(curve))
__CPROVER_requires(__CPROVER_r_ok(mult_data, sizeof(ec_point_proj_fpx_mult_data_t)))
__CPROVER_assigns(VF_EC_POINT_FRAME(point))
VF_G_fpx_mult_affine
__CPROVER_ensures(__CPROVER_return_value == 0 ==> VF_EC_POINT_WF(*point))
#ifdef VF_ENFORCE_ec_point_proj_fpx_mult_affine
__CPROVER_ensures(__CPROVER_return_value == 0 ==> (vf_n_pop == 2 && vf_pop_fn == VF_POP_export_affine && vf_pop_b == VF_ID(point)))
#endif
;
/* point := d * (the point the table was built for): see the ladder section below */
VF_LADDER_FPX_CONTRACT
#endif
#if EC_PF_UNKPT_MULT_ALGO != EC_PF_UNKPT_MULT_ALGO_BIN
#ifdef VF_ENFORCE_ec_point_proj_unkpt_mult_affine
#define VF_G_unkpt_mult_affine	VF_EC_ENFORCED_GHOST
#else
#define VF_G_unkpt_mult_affine	VF_POP_CALLEE(VF_POP_unkpt_mult_affine, point, d, VF_ID(mult_data))
#endif
static inline int
ec_point_proj_unkpt_mult_affine(ec_point_p point, ec_point_proj_unkpt_mult_data_t *mult_data, bn_p d, ec_curve_p curve)
__CPROVER_requires(VF_EC_POINT_OK(point) && VF_EC_POINT_WF(*point) && VF_ECBN_R(d) && VF_CURVE_IN_EC(curve))
__CPROVER_requires(__CPROVER_r_ok(mult_data, sizeof(ec_point_proj_unkpt_mult_data_t)))
__CPROVER_assigns(VF_EC_POINT_FRAME(point))
VF_G_unkpt_mult_affine
__CPROVER_ensures(__CPROVER_return_value == 0 ==> VF_EC_POINT_WF(*point))
#ifdef VF_ENFORCE_ec_point_proj_unkpt_mult_affine
__CPROVER_ensures(__CPROVER_return_value == 0 ==> (vf_n_pop == 2 && vf_pop_fn == VF_POP_export_affine && vf_pop_b == VF_ID(point)))
#endif
;
VF_LADDER_UNKPT_CONTRACT
VF_LADDER_UNKPT_PRE_CONTRACT
#endif
VF_LADDER_TWIN_CONTRACT

/* ================================================================== C02: curve validation ==== */
/* The function ends in the MOV-condition loop (99 iterations of bn_assign + bn_mod_exp_digit); fully
 * unwound it did not finish (1300 s, > 1024 objects) and goto-instrument's loop-contract
 * instrumentation under --dfcc grew without bound on this function (> 1 GB in 30 s, killed).  The
 * clauses are therefore stated over PREFIXES of the execution, through the ghost call counters of
 * the on-curve check (step 4) and the order check (step 7), both of which precede the loop: they are
 * decided on every path that leaves the function within one loop iteration, and every prefix up to
 * those calls has such a continuation (the callee may fail).
 *   reaching step 4 with EC_CURVE_FLAG_A_M3  ==>  a == p - 3 as numbers: the shortcut formulas of
 *       add / dbl / check_affine / restore_y agree with curve->a.  (The converse is not required: a
 *       curve with a == p - 3 and no flag uses the general formulas.)
 *   reaching step 4  ==>  a, b, Gx, Gy < p and no internal computation failed before
 *   reaching step 7  ==>  step 4 was run once and returned 0
 *   writes only *warnings. */
static inline int
ec_curve_validate(ec_curve_p curve, int *warnings)
__CPROVER_requires(VF_CURVE_IN_EC(curve) && (warnings == NULL || __CPROVER_w_ok(warnings, sizeof(int))))
__CPROVER_requires(!vf_ec_fail)
__CPROVER_assigns(warnings != NULL: *warnings)
__CPROVER_assigns(VF_EC_GHOST_FRAME)
__CPROVER_ensures(__CPROVER_return_value == 0 ==> !vf_ec_fail)
__CPROVER_ensures((vf_n_chk_affine >= 1 && 0 != (EC_CURVE_FLAG_A_M3 & curve->flags) && vf_bn_val(curve->p) >= 3) ==>
    vf_bn_val(curve->a) == vf_bn_val(curve->p) - 3)
__CPROVER_ensures(vf_n_chk_affine >= 1 ==> (vf_bn_val(curve->a) < vf_bn_val(curve->p) && vf_bn_val(curve->b) < vf_bn_val(curve->p) &&
    vf_bn_val(curve->G.x) < vf_bn_val(curve->p) && vf_bn_val(curve->G.y) < vf_bn_val(curve->p)))
__CPROVER_ensures((vf_n_chk_affine == 1 && vf_n_chk_scalar == 0 && vf_st_chk_affine != 0) ==> __CPROVER_return_value != 0)
__CPROVER_ensures(vf_n_chk_scalar >= 1 ==> (vf_n_chk_affine == 1 && vf_st_chk_affine == 0 && vf_n_chk_scalar == 1))
__CPROVER_ensures((vf_n_chk_scalar == 1 && vf_st_chk_scalar != 0) ==> __CPROVER_return_value != 0)
;

#endif /* !VF_REPLAY */
#endif /* VF_CONTRACTS_EC_H */
