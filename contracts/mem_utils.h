/* Contracts for include/utils/mem_utils.h (C12). libc search/compare primitives are replaced
 * by the assumed contracts of stubs/libc.h in these proofs. */
#ifndef VF_CONTRACTS_MEM_UTILS_H
#define VF_CONTRACTS_MEM_UTILS_H
#include "vf/vf.h"
#include <errno.h>
#ifndef VF_REPLAY
static inline void *mem_chr(const void *buf, const size_t size, const uint8_t what_find)
__CPROVER_requires(buf == NULL || size == 0 || __CPROVER_is_fresh(buf, size))
__CPROVER_assigns()
__CPROVER_ensures(VF_IN_OR_NULL(__CPROVER_return_value, buf, 0, size))
__CPROVER_ensures(__CPROVER_return_value != NULL ==> *(const uint8_t *)__CPROVER_return_value == what_find)
;
static inline void *mem_chr_off(const size_t offset, const void *buf, const size_t size, const uint8_t what_find)
__CPROVER_requires(buf == NULL || size == 0 || __CPROVER_is_fresh(buf, size))
__CPROVER_assigns()
__CPROVER_ensures(VF_IN_OR_NULL(__CPROVER_return_value, buf, offset, size))
;
static inline void *mem_rchr(const void *buf, const size_t size, const uint8_t what_find)
__CPROVER_requires(buf == NULL || size == 0 || __CPROVER_is_fresh(buf, size))
__CPROVER_assigns()
__CPROVER_ensures(VF_IN_OR_NULL(__CPROVER_return_value, buf, 0, size))
;
static inline void *mem_rchr_off(size_t offset, const void *buf, const size_t size, const uint8_t what_find)
__CPROVER_requires(buf == NULL || size == 0 || __CPROVER_is_fresh(buf, size))
__CPROVER_assigns()
__CPROVER_ensures(VF_IN_OR_NULL(__CPROVER_return_value, buf, 0, size))
;
static inline void *mem_find(const void *buf, const size_t buf_size, const void *what_find, const size_t what_find_size)
__CPROVER_requires(buf == NULL || buf_size == 0 || __CPROVER_is_fresh(buf, buf_size))
__CPROVER_requires(what_find == NULL || what_find_size == 0 || __CPROVER_is_fresh(what_find, what_find_size))
__CPROVER_assigns()
__CPROVER_ensures(__CPROVER_return_value == NULL || (what_find_size <= buf_size &&
    VF_IN_OR_NULL(__CPROVER_return_value, buf, 0, buf_size - what_find_size + 1)))
;
static inline void *mem_find_off(const size_t offset, const void *buf, const size_t buf_size,
    const void *what_find, const size_t what_find_size)
__CPROVER_requires(buf == NULL || buf_size == 0 || __CPROVER_is_fresh(buf, buf_size))
__CPROVER_requires(what_find == NULL || what_find_size == 0 || __CPROVER_is_fresh(what_find, what_find_size))
__CPROVER_assigns()
__CPROVER_ensures(__CPROVER_return_value == NULL || (what_find_size <= buf_size &&
    VF_IN_OR_NULL(__CPROVER_return_value, buf, offset, buf_size - what_find_size + 1)))
;
#ifndef VF_MEMCASE_MAX
#define VF_MEMCASE_MAX (((size_t)1) << 62)
#endif
static inline size_t mem_to_lower(void *dst, const void *src, const size_t size)
__CPROVER_requires(size <= VF_MEMCASE_MAX)
__CPROVER_requires(dst == NULL || size == 0 || __CPROVER_is_fresh(dst, size))
__CPROVER_requires(src == NULL || size == 0 || __CPROVER_is_fresh(src, size))
__CPROVER_assigns(dst != NULL && size != 0: __CPROVER_object_upto(dst, size))
__CPROVER_ensures(__CPROVER_return_value == 0 || __CPROVER_return_value == size)
;
static inline size_t mem_to_upper(void *dst, const void *src, const size_t size)
__CPROVER_requires(size <= VF_MEMCASE_MAX)
__CPROVER_requires(dst == NULL || size == 0 || __CPROVER_is_fresh(dst, size))
__CPROVER_requires(src == NULL || size == 0 || __CPROVER_is_fresh(src, size))
__CPROVER_assigns(dst != NULL && size != 0: __CPROVER_object_upto(dst, size))
__CPROVER_ensures(__CPROVER_return_value == 0 || __CPROVER_return_value == size)
;
#define VF_CMP_CONTRACT(fn)							\
static inline int fn(const void *buf1, const void *buf2, const size_t size)	\
__CPROVER_requires(buf1 == NULL || size == 0 || __CPROVER_is_fresh(buf1, size))	\
__CPROVER_requires(buf2 == NULL || size == 0 || __CPROVER_is_fresh(buf2, size))	\
__CPROVER_assigns()								\
__CPROVER_ensures(size == 0 ==> __CPROVER_return_value == 0)			\
;
VF_CMP_CONTRACT(mem_cmp)
VF_CMP_CONTRACT(mem_cmpi)
#define VF_CMPN_CONTRACT(fn)							\
static inline int fn(const void *buf1, const size_t buf1_size, const void *buf2, const size_t buf2_size) \
__CPROVER_requires(buf1 == NULL || buf1_size == 0 || __CPROVER_is_fresh(buf1, buf1_size)) \
__CPROVER_requires(buf2 == NULL || buf2_size == 0 || __CPROVER_is_fresh(buf2, buf2_size)) \
__CPROVER_assigns()								\
__CPROVER_ensures(buf1_size != buf2_size ==> __CPROVER_return_value != 0)	\
;
VF_CMPN_CONTRACT(mem_cmpn)
VF_CMPN_CONTRACT(mem_cmpin)
#endif
#endif

#ifndef VF_REPLAY
#ifndef VF_MFS_BUF_MAX
#define VF_MFS_BUF_MAX (((size_t)1) << 62)
#define VF_MFS_WHAT_MAX (((size_t)1) << 62)
#endif
static inline int mem_find_stream(const uint8_t *buf, const size_t buf_size,
    const uint8_t *what, const size_t what_size, size_t *state, size_t *off_end)
__CPROVER_requires(buf_size <= VF_MFS_BUF_MAX && what_size <= VF_MFS_WHAT_MAX)
__CPROVER_requires(buf == NULL || __CPROVER_is_fresh(buf, buf_size))
__CPROVER_requires(what == NULL || __CPROVER_is_fresh(what, what_size))
__CPROVER_requires(state == NULL || __CPROVER_is_fresh(state, sizeof(size_t)))
__CPROVER_requires(off_end == NULL || __CPROVER_is_fresh(off_end, sizeof(size_t)))
__CPROVER_assigns(state != NULL: *state; off_end != NULL: *off_end)
__CPROVER_ensures(__CPROVER_return_value == 0 || __CPROVER_return_value == ENOENT ||
    __CPROVER_return_value == EINVAL)
__CPROVER_ensures((__CPROVER_return_value == 0) ==> (*state == 0 &&
    (off_end == NULL || (*off_end >= 1 && *off_end <= buf_size))))
__CPROVER_ensures((__CPROVER_return_value == ENOENT) ==> *state < what_size)
;

#ifndef VF_MRA_SRC_MAX
#define VF_MRA_SRC_MAX (((size_t)1) << 62)
#define VF_MRA_DST_MAX (((size_t)1) << 62)
#define VF_MRA_PAT_MAX (((size_t)1) << 62)
#endif
#endif
