/*
 * Contracts for the HMAC entry points of include/crypto/hash/{md5,sha1,sha2,gost3411-2012}.h
 * (C07: HMAC == RFC 2104 for every key length, message and chunking; pads wiped) and for
 * the one-shot / hex-string entry points (C04).
 *
 * The underlying hash is abstract here: *_init/_update/_final are REPLACED by their
 * byte-stream contracts (-DVF_HASH_STREAM, contracts/<alg>.h, ghost state in
 * stubs/hash_ghost.h): init opens an empty stream, update appends data[0..n), final records
 * (stream, digest) as the next entry of the ghost digest table, returns that (arbitrary)
 * digest and zeroes the context.  RFC 2104 then reads:
 *
 *   K'            = key || 0..0 (B bytes)              if key_len <= B
 *                 = H(key) || 0..0                     otherwise   (table entry 0 has input == key)
 *   inner entry   : input == (K' xor 0x36^B) || message
 *   outer entry   : input == (K' xor 0x5c^B) || digest(inner entry)
 *   result        == digest(outer entry)
 *
 * All sequences are observed at the ghost indices vf_s_k (stream position) and vf_d_k
 * (digest position), which are arbitrary; where a clause needs byte k of a digest and byte
 * k' of a stream at once it is stated for the index pairs with vf_d_k == f(vf_s_k), which is
 * every pair the RFC's equation ranges over.
 *
 * Select the algorithm with -DVF_ALG_MD5 / _SHA1 / _SHA2 / _GOST.
 */
#ifndef VF_CONTRACTS_HMAC_H
#define VF_CONTRACTS_HMAC_H
#ifndef VF_HASH_STREAM
#define VF_HASH_STREAM 1
#endif
#include "vf/vf.h"
#include "stubs/hash_ghost.h"

/* ASCII of the lower-case hex digit of a nibble */
#define VF_HEXCH(x)	((uint8_t)(((x) & 15) < 10 ? ('0' + ((x) & 15)) : ('a' + (((x) & 15) - 10))))

/* K'[k] for k < B, given that table entry 0 is the key hash when key_len > B.  The digest
 * of entry 0 is observed at vf_d_k only, hence VF_KP_KNOWN. */
#define VF_KP(k, key, key_len, B, HS)					\
	(((key_len) <= (B)) ? (((k) < (key_len)) ? (key)[(k)] : (uint8_t)0) :	\
	    (((k) < (HS)) ? vf_d_dig[0] : (uint8_t)0))
#define VF_KP_KNOWN(k, key_len, B, HS)	((key_len) <= (B) || (k) >= (HS) || vf_d_k == (k))

/* ghost objects a function that runs complete hash computations may assign */
#define VF_STREAM_GHOST_ASSIGNS						\
	__CPROVER_assigns(vf_s_len, vf_s_at, vf_s_open, vf_s_ctx, vf_s_bits, vf_d_n,	\
	    __CPROVER_object_whole(vf_d_len), __CPROVER_object_whole(vf_d_at),	\
	    __CPROVER_object_whole(vf_d_size), __CPROVER_object_whole(vf_d_dig))

/* ---- the three RFC 2104 clauses, shared by all algorithms ------------------------------ */
/* after *_hmac_init: optional key-hash entry, inner stream == K' xor ipad, k_opad == K' xor opad */
#define VF_HMAC_INIT_POST(key, key_len, hctx, B, HS)					\
__CPROVER_ensures(vf_d_n == (((key_len) > (B)) ? 1 : 0))				\
__CPROVER_ensures((key_len) > (B) ==> (vf_d_len[0] == (key_len) && vf_d_size[0] == (HS) &&	\
    (vf_s_k < (key_len) ==> vf_d_at[0] == (key)[vf_s_k])))				\
__CPROVER_ensures(vf_s_open == 1 && vf_s_ctx == &(hctx)->ctx && vf_s_len == (B))	\
__CPROVER_ensures((vf_s_k < (B) && VF_KP_KNOWN(vf_s_k, key_len, B, HS)) ==>		\
    vf_s_at == (uint8_t)(VF_KP(vf_s_k, key, key_len, B, HS) ^ 0x36))			\
__CPROVER_ensures((vf_s_k < (B) && VF_KP_KNOWN(vf_s_k, key_len, B, HS)) ==>		\
    ((const uint8_t *)(hctx)->k_opad)[vf_s_k] == (uint8_t)(VF_KP(vf_s_k, key, key_len, B, HS) ^ 0x5c))

/* after *_hmac_final: inner entry == the stream as it stood, outer entry == k_opad || inner
 * digest, result == outer digest, pads and context wiped */
#define VF_HMAC_FINAL_POST(hctx, hctx_t, digest, B, HS)					\
__CPROVER_ensures(vf_d_n == __CPROVER_old(vf_d_n) + 2 && vf_s_open == 0)		\
__CPROVER_ensures(vf_d_len[__CPROVER_old(vf_d_n)] == __CPROVER_old(vf_s_len) &&		\
    vf_d_at[__CPROVER_old(vf_d_n)] == __CPROVER_old(vf_s_at) &&				\
    vf_d_size[__CPROVER_old(vf_d_n)] == (HS))						\
__CPROVER_ensures(vf_d_len[__CPROVER_old(vf_d_n) + 1] == (B) + (HS) &&			\
    vf_d_size[__CPROVER_old(vf_d_n) + 1] == (HS))					\
__CPROVER_ensures(vf_s_k < (B) ==> vf_d_at[__CPROVER_old(vf_d_n) + 1] ==		\
    __CPROVER_old(((const uint8_t *)(hctx)->k_opad)[vf_s_k & ((B) - 1)]))		\
__CPROVER_ensures((vf_s_k >= (B) && vf_s_k - (B) < (HS) && vf_d_k == vf_s_k - (B)) ==>	\
    vf_d_at[__CPROVER_old(vf_d_n) + 1] == vf_d_dig[__CPROVER_old(vf_d_n)])		\
__CPROVER_ensures(vf_d_k < (HS) ==> (digest)[vf_d_k] == vf_d_dig[__CPROVER_old(vf_d_n) + 1])	\
/* keyed pad wiped (C07), and no chaining/message data left in the hash context (C04) */	\
__CPROVER_ensures(vf_c_k < sizeof((hctx)->k_opad) ==> ((const uint8_t *)(hctx)->k_opad)[vf_c_k] == 0) \
__CPROVER_ensures(vf_c_k < sizeof((hctx)->ctx) ==> ((const uint8_t *)&(hctx)->ctx)[vf_c_k] == 0)

/* the whole of RFC 2104 for the one-shot functions */
#define VF_HMAC_NK(key_len, B)	(((key_len) > (B)) ? (size_t)1 : (size_t)0)
#define VF_HMAC_ONESHOT_POST(key, key_len, data, data_size, digest, B, HS)		\
__CPROVER_ensures(vf_d_n == VF_HMAC_NK(key_len, B) + 2 && vf_s_open == 0)		\
__CPROVER_ensures((key_len) > (B) ==> (vf_d_len[0] == (key_len) && vf_d_size[0] == (HS) &&	\
    (vf_s_k < (key_len) ==> vf_d_at[0] == ((const uint8_t *)(key))[vf_s_k])))		\
/* inner: (K' xor ipad) || message */							\
__CPROVER_ensures(vf_d_len[VF_HMAC_NK(key_len, B)] == (B) + (data_size) &&		\
    vf_d_size[VF_HMAC_NK(key_len, B)] == (HS))						\
__CPROVER_ensures((vf_s_k < (B) && VF_KP_KNOWN(vf_s_k, key_len, B, HS)) ==>		\
    vf_d_at[VF_HMAC_NK(key_len, B)] ==							\
	(uint8_t)(VF_KP(vf_s_k, (const uint8_t *)(key), key_len, B, HS) ^ 0x36))	\
__CPROVER_ensures((vf_s_k >= (B) && vf_s_k - (B) < (data_size)) ==>			\
    vf_d_at[VF_HMAC_NK(key_len, B)] == ((const uint8_t *)(data))[vf_s_k - (B)])	\
/* outer: (K' xor opad) || inner digest */						\
__CPROVER_ensures(vf_d_len[VF_HMAC_NK(key_len, B) + 1] == (B) + (HS) &&			\
    vf_d_size[VF_HMAC_NK(key_len, B) + 1] == (HS))					\
__CPROVER_ensures((vf_s_k < (B) && VF_KP_KNOWN(vf_s_k, key_len, B, HS)) ==>		\
    vf_d_at[VF_HMAC_NK(key_len, B) + 1] ==						\
	(uint8_t)(VF_KP(vf_s_k, (const uint8_t *)(key), key_len, B, HS) ^ 0x5c))	\
__CPROVER_ensures((vf_s_k >= (B) && vf_s_k - (B) < (HS) && vf_d_k == vf_s_k - (B)) ==>	\
    vf_d_at[VF_HMAC_NK(key_len, B) + 1] == vf_d_dig[VF_HMAC_NK(key_len, B)])		\
/* result */										\
__CPROVER_ensures(vf_d_k < (HS) ==> (digest)[vf_d_k] == vf_d_dig[VF_HMAC_NK(key_len, B) + 1])

/* exactly one init-update-final over the caller's span (plain one-shot hash) */
#define VF_HASH_ONESHOT_POST(data, data_size, HS)					\
__CPROVER_ensures(vf_d_n == 1 && vf_s_open == 0)					\
__CPROVER_ensures(vf_d_len[0] == (data_size) && vf_d_size[0] == (HS))			\
__CPROVER_ensures(vf_s_k < (data_size) ==> vf_d_at[0] == ((const uint8_t *)(data))[vf_s_k])

/* hex string of a digest observed at vf_d_k: 2*HS characters + NUL, inside the buffer */
#define VF_HEXSTR_POST(str, HS, digbyte)						\
__CPROVER_ensures(((const uint8_t *)(str))[2 * (HS)] == 0)				\
__CPROVER_ensures(vf_d_k < (HS) ==>							\
    (((const uint8_t *)(str))[2 * vf_d_k] == VF_HEXCH((digbyte) >> 4) &&		\
     ((const uint8_t *)(str))[2 * vf_d_k + 1] == VF_HEXCH(digbyte)))

/* key span: an exact span of key_len bytes; for the empty key a valid 1-byte object
 * (memcpy(dst, NULL, 0) is formally undefined behaviour and is not examined) */
#define VF_KEY_FRESH(key, key_len)	__CPROVER_is_fresh((key), ((key_len) == 0) ? 1 : (key_len))

#ifdef VF_ALG_MD5
#include "contracts/md5.h"
#endif
#ifdef VF_ALG_SHA1
#include "contracts/sha1.h"
#endif
#ifdef VF_ALG_SHA2
#include "contracts/sha2.h"
#endif
#ifdef VF_ALG_GOST
#include "contracts/gost3411.h"
#endif

#endif
