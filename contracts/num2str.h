/*
 * Contracts for include/utils/num2str.h (C12 memory discipline, C14 canonical text).
 * Written on redeclarations: the header itself is not edited.
 *
 * VF_DECLEN(v): number of decimal digits of the unsigned magnitude v (spec).
 */
#ifndef VF_CONTRACTS_NUM2STR_H
#define VF_CONTRACTS_NUM2STR_H
#include "vf/vf.h"
#include <sys/types.h>
#include <errno.h>

#define VF_DECLEN(v) ((size_t)(						\
	(uint64_t)(v) < 10ull ? 1 : (uint64_t)(v) < 100ull ? 2 :		\
	(uint64_t)(v) < 1000ull ? 3 : (uint64_t)(v) < 10000ull ? 4 :		\
	(uint64_t)(v) < 100000ull ? 5 : (uint64_t)(v) < 1000000ull ? 6 :	\
	(uint64_t)(v) < 10000000ull ? 7 : (uint64_t)(v) < 100000000ull ? 8 :	\
	(uint64_t)(v) < 1000000000ull ? 9 : (uint64_t)(v) < 10000000000ull ? 10 : \
	(uint64_t)(v) < 100000000000ull ? 11 : (uint64_t)(v) < 1000000000000ull ? 12 : \
	(uint64_t)(v) < 10000000000000ull ? 13 : (uint64_t)(v) < 100000000000000ull ? 14 : \
	(uint64_t)(v) < 1000000000000000ull ? 15 : (uint64_t)(v) < 10000000000000000ull ? 16 : \
	(uint64_t)(v) < 100000000000000000ull ? 17 : (uint64_t)(v) < 1000000000000000000ull ? 18 : \
	(uint64_t)(v) < 10000000000000000000ull ? 19 : 20))

/* magnitude of a signed value as uint64 without overflow */
#define VF_UMAG(v)	((v) < 0 ? (uint64_t)(-((v) + 1)) + 1ull : (uint64_t)(v))
/* text length of v: digits plus sign */
#define VF_TXTLEN_U(v)	VF_DECLEN(v)
#define VF_TXTLEN_S(v)	(VF_DECLEN(VF_UMAG(v)) + ((v) < 0 ? 1 : 0))

#ifndef VF_REPLAY
#define VF_NUM2STR_CONTRACT(fn, NT, CT, TXTLEN)					\
static inline int fn(NT num, CT *buf, size_t buf_size, size_t *buf_size_ret)	\
__CPROVER_requires(buf == NULL || buf_size == 0 || __CPROVER_is_fresh(buf, buf_size)) \
__CPROVER_requires(buf_size_ret == NULL || __CPROVER_is_fresh(buf_size_ret, sizeof(size_t))) \
__CPROVER_assigns(buf != NULL && buf_size != 0: __CPROVER_object_upto(buf, buf_size)) \
__CPROVER_assigns(buf_size_ret != NULL: *buf_size_ret)				\
/* loud failure, never overflow */						\
__CPROVER_ensures((__CPROVER_return_value == EINVAL) == (buf == NULL || buf_size == 0)) \
__CPROVER_ensures(__CPROVER_return_value == 0 || __CPROVER_return_value == EINVAL || \
    __CPROVER_return_value == ENOSPC)						\
/* an exactly-sized buffer (text + NUL) is sufficient; anything smaller is refused */ \
__CPROVER_ensures((buf != NULL && buf_size != 0) ==>				\
    ((__CPROVER_return_value == 0) == (buf_size >= TXTLEN(num) + 1)))		\
/* reported sizes: required size on ENOSPC, text length on success */		\
__CPROVER_ensures((__CPROVER_return_value == ENOSPC && buf_size_ret != NULL) ==> \
    *buf_size_ret == TXTLEN(num) + 1)						\
__CPROVER_ensures((__CPROVER_return_value == 0 && buf_size_ret != NULL) ==>	\
    *buf_size_ret == TXTLEN(num))						\
__CPROVER_ensures(__CPROVER_return_value == 0 ==> buf[TXTLEN(num)] == 0)	\
;

VF_NUM2STR_CONTRACT(usize2str, size_t, char, VF_TXTLEN_U)
VF_NUM2STR_CONTRACT(usize2ustr, size_t, uint8_t, VF_TXTLEN_U)
VF_NUM2STR_CONTRACT(u82str, uint8_t, char, VF_TXTLEN_U)
VF_NUM2STR_CONTRACT(u82ustr, uint8_t, uint8_t, VF_TXTLEN_U)
VF_NUM2STR_CONTRACT(u162str, uint16_t, char, VF_TXTLEN_U)
VF_NUM2STR_CONTRACT(u162ustr, uint16_t, uint8_t, VF_TXTLEN_U)
VF_NUM2STR_CONTRACT(u322str, uint32_t, char, VF_TXTLEN_U)
VF_NUM2STR_CONTRACT(u322ustr, uint32_t, uint8_t, VF_TXTLEN_U)
VF_NUM2STR_CONTRACT(u642str, uint64_t, char, VF_TXTLEN_U)
VF_NUM2STR_CONTRACT(u642ustr, uint64_t, uint8_t, VF_TXTLEN_U)
VF_NUM2STR_CONTRACT(ssize2str, ssize_t, char, VF_TXTLEN_S)
VF_NUM2STR_CONTRACT(ssize2ustr, ssize_t, uint8_t, VF_TXTLEN_S)
VF_NUM2STR_CONTRACT(s82str, int8_t, char, VF_TXTLEN_S)
VF_NUM2STR_CONTRACT(s82ustr, int8_t, uint8_t, VF_TXTLEN_S)
VF_NUM2STR_CONTRACT(s162str, int16_t, char, VF_TXTLEN_S)
VF_NUM2STR_CONTRACT(s162ustr, int16_t, uint8_t, VF_TXTLEN_S)
VF_NUM2STR_CONTRACT(s322str, int32_t, char, VF_TXTLEN_S)
VF_NUM2STR_CONTRACT(s322ustr, int32_t, uint8_t, VF_TXTLEN_S)
VF_NUM2STR_CONTRACT(s642str, int64_t, char, VF_TXTLEN_S)
VF_NUM2STR_CONTRACT(s642ustr, int64_t, uint8_t, VF_TXTLEN_S)
#endif /* !VF_REPLAY */
#endif
