/*
 * C01 rung 1, digit arrays: bn_digits_* of include/math/big_num.h.
 * Included from contracts/bn.h.
 *
 * Every contract has a safety part (spans, frame, return codes, carry/borrow in {0,1}) that is
 * proved for symbolic, unbounded `count` with loop contracts (loops/bn_digits.json), and a value
 * part (VF_DIGITS_VAL) that is proved for count <= BN_MAX_DIGITS by full unwinding.
 * -DVF_BN_SAFETY_ONLY compiles the value part out (used by the unbounded jobs only: there
 * VF_DIGITS_VAL, a BN_MAX_DIGITS-term expression, would not describe the whole array).
 *
 * The value part speaks about entry values through VF_DIGITS_OLD, which snapshots a[0] even for
 * an empty array: value contracts therefore require non-NULL arrays with at least one readable
 * digit (every in-tree call site passes bn->num or &bn->num[j], j < count); the NULL / empty-array
 * branches are covered by the safety jobs.
 *
 * Preconditions that are not checked by the functions themselves are the ones every in-tree
 * call site establishes (listed at each contract).
 */
#ifndef VF_CONTRACTS_BN_DIGITS_H
#define VF_CONTRACTS_BN_DIGITS_H
#ifndef VF_REPLAY

/* largest digit count a contract speaks about: BN_MAX_DIGITS for value proofs.  In the
 * unbounded safety proofs the loops are closed by loop contracts for any count; the cap of 4096
 * digits exists only because cbmc --trace materialises every written heap array in the
 * counterexample of the reachability canary (2^40 digits exhausts memory). */
#ifndef VF_BN_MAXCOUNT
#ifdef VF_BN_SAFETY_ONLY
#define VF_BN_MAXCOUNT	((size_t)4096)
#else
#define VF_BN_MAXCOUNT	BN_MAX_DIGITS
#endif
#endif

#ifdef VF_BN_SAFETY_ONLY
#define VF_VALUE(c)	1
#else
#define VF_VALUE(c)	(c)
#endif

#define VF_DS_SZ(n)		((n) * sizeof(bn_digit_t))
#define VF_DS_RW(a, n)		((n) <= VF_BN_MAXCOUNT && __CPROVER_rw_ok((a), VF_DS_SZ(n)))
#define VF_DS_R(a, n)		((n) <= VF_BN_MAXCOUNT && __CPROVER_r_ok((a), VF_DS_SZ(n)))
/* out-parameter digit that is not part of the array a[0..n-1] */
#define VF_D_OUTSIDE(p, a, n)	(!__CPROVER_same_object((p), (a)) ||			\
	(const char *)(p) >= (const char *)((a) + (n)) || (const char *)((p) + 1) <= (const char *)(a))
#define VF_D_OPT_OUT(p, a, n)	((p) == NULL || (VF_D_OK(p) && VF_D_OUTSIDE(p, a, n)))
/* two digit arrays are the same array or do not overlap */
#define VF_DS_DISJOINT(a, an, b, bn_)	(!__CPROVER_same_object((a), (b)) ||		\
	(const char *)((a) + (an)) <= (const char *)(b) || (const char *)((b) + (bn_)) <= (const char *)(a))

static inline size_t
bn_digits_calc_digits(bn_digit_t *a, size_t count)
__CPROVER_requires(a == NULL || count == 0 || VF_DS_R(a, count))
__CPROVER_assigns()
__CPROVER_ensures(__CPROVER_return_value <= count)
__CPROVER_ensures((a == NULL || count == 0) ==> __CPROVER_return_value == 0)
__CPROVER_ensures(__CPROVER_return_value != 0 ==> a[__CPROVER_return_value - 1] != 0)
__CPROVER_ensures(VF_VALUE((a != NULL && count != 0) ==>
    VF_DIGITS_VAL(a, __CPROVER_return_value) == VF_DIGITS_VAL(a, count)))
;

static inline int
bn_digits_cmp(bn_digit_t *a, bn_digit_t *b, size_t count)
__CPROVER_requires(a == b || count == 0 || ((a == NULL || VF_DS_R(a, count)) && (b == NULL || VF_DS_R(b, count))))
__CPROVER_assigns()
__CPROVER_ensures(__CPROVER_return_value == 0 || __CPROVER_return_value == 1 || __CPROVER_return_value == -1)
__CPROVER_ensures((a == b || count == 0) ==> __CPROVER_return_value == 0)
__CPROVER_ensures(VF_VALUE((a != NULL && b != NULL && count != 0) ==> __CPROVER_return_value ==
    ((VF_DIGITS_VAL(a, count) > VF_DIGITS_VAL(b, count)) ? 1 :
     ((VF_DIGITS_VAL(a, count) < VF_DIGITS_VAL(b, count)) ? -1 : 0))))
;

static inline void
bn_digits_assign_zero(bn_digit_t *a, size_t count)
__CPROVER_requires(a == NULL || count == 0 || VF_DS_RW(a, count))
__CPROVER_assigns(a != NULL && count != 0: __CPROVER_object_upto(a, VF_DS_SZ(count)))
__CPROVER_ensures(VF_VALUE((a != NULL && count != 0) ==> VF_DIGITS_VAL(a, count) == 0))
;

/* a = (a << bits) mod 2^(W*count).
 * Domain: bits < W*count.  Established by every call site: bn_l_shift (digits =
 * MIN(count, digits + 1 + bits/W) with bits < W*bn->count) and bn_digits_mult_digit__int
 * (bits = ctz(d) < W).  Outside it the memmove length count*size - bits/8 underflows (F2). */
static inline void
bn_digits_l_shift(bn_digit_t *a, size_t count, size_t bits)
__CPROVER_requires(VF_VALUE(a != NULL && __CPROVER_r_ok(a, sizeof(bn_digit_t))))
__CPROVER_requires(a == NULL || count == 0 || VF_DS_RW(a, count))
__CPROVER_requires(count == 0 || bits < count * BN_DIGIT_BITS)
__CPROVER_assigns(a != NULL && count != 0: __CPROVER_object_upto(a, VF_DS_SZ(count)))
__CPROVER_ensures(VF_VALUE((a != NULL && count != 0) ==> VF_DIGITS_VAL(a, count) ==
    ((VF_DIGITS_OLD(a, count) << bits) & (VF_POW2W(count) - 1))))
;
/* a = a >> bits.  Domain: bits < W*count (every call site: bn_r_shift with bits < W*digits);
 * outside it `count - 1` underflows in the loop bound (F2). */
static inline void
bn_digits_r_shift(bn_digit_t *a, size_t count, size_t bits)
__CPROVER_requires(VF_VALUE(a != NULL && __CPROVER_r_ok(a, sizeof(bn_digit_t))))
__CPROVER_requires(a == NULL || count == 0 || VF_DS_RW(a, count))
__CPROVER_requires(count == 0 || bits < count * BN_DIGIT_BITS)
__CPROVER_assigns(a != NULL && count != 0: __CPROVER_object_upto(a, VF_DS_SZ(count)))
__CPROVER_ensures(VF_VALUE((a != NULL && count != 0) ==> VF_DIGITS_VAL(a, count) ==
    (VF_DIGITS_OLD(a, count) >> bits)))
;

/* a += b; carry out of the count digits.  Call sites pass count >= 1. */
static inline void
bn_digits_add_digit(bn_digit_t *a, size_t count, bn_digit_t b, bn_digit_t *carry)
__CPROVER_requires(a != NULL && count >= 1 && VF_DS_RW(a, count))
__CPROVER_requires(VF_D_OPT_OUT(carry, a, count))
__CPROVER_assigns(__CPROVER_object_upto(a, VF_DS_SZ(count)))
__CPROVER_assigns(carry != NULL: *carry)
__CPROVER_ensures(carry != NULL ==> (*carry == 0 || *carry == 1))
__CPROVER_ensures(VF_VALUE(carry != NULL ==>
    VF_DIGITS_VAL(a, count) + (*carry ? VF_POW2W(count) : (vf_bnv_t)0) == VF_DIGITS_OLD(a, count) + b))
__CPROVER_ensures(VF_VALUE(VF_DIGITS_VAL(a, count) ==
    ((VF_DIGITS_OLD(a, count) + b) & (VF_POW2W(count) - 1))))
;

/* a += b (b_count digits of b); EOVERFLOW iff b does not fit a; carry out of a_count digits.
 * a == b (same array) is permitted. */
static inline int
bn_digits_add(bn_digit_t *a, size_t a_count, bn_digit_t *b, size_t b_count, bn_digit_t *carry)
__CPROVER_requires(VF_VALUE(a != NULL && b != NULL && __CPROVER_r_ok(a, sizeof(bn_digit_t)) && __CPROVER_r_ok(b, sizeof(bn_digit_t))))
__CPROVER_requires(a == NULL || VF_DS_RW(a, a_count))
__CPROVER_requires(b == NULL || VF_DS_R(b, b_count))
__CPROVER_requires(a == NULL || b == NULL || a == b || VF_DS_DISJOINT(a, a_count, b, b_count))
__CPROVER_requires(carry == NULL || (VF_D_OK(carry) && (a == NULL || VF_D_OUTSIDE(carry, a, a_count)) &&
    (b == NULL || VF_D_OUTSIDE(carry, b, b_count))))
__CPROVER_assigns(a != NULL && b != NULL && b_count != 0 && a_count >= b_count: __CPROVER_object_upto(a, VF_DS_SZ(a_count)))
__CPROVER_assigns(carry != NULL: *carry)
__CPROVER_ensures(__CPROVER_return_value == ((a == NULL || b == NULL) ? EINVAL :
    ((b_count != 0 && a_count < b_count) ? EOVERFLOW : 0)))
__CPROVER_ensures(carry != NULL ==> (*carry == 0 || *carry == 1))
__CPROVER_ensures((carry != NULL && __CPROVER_return_value != 0) ==> *carry == 0)
__CPROVER_ensures(VF_VALUE((__CPROVER_return_value == 0 && carry != NULL) ==>
    VF_DIGITS_VAL(a, a_count) + (*carry ? VF_POW2W(a_count) : (vf_bnv_t)0) ==
    VF_DIGITS_OLD(a, a_count) + VF_DIGITS_OLD(b, b_count)))
__CPROVER_ensures(VF_VALUE(__CPROVER_return_value == 0 ==> VF_DIGITS_VAL(a, a_count) ==
    ((VF_DIGITS_OLD(a, a_count) + VF_DIGITS_OLD(b, b_count)) & (VF_POW2W(a_count) - 1))))
;

/* a -= b; borrow out of the count digits.  Call sites pass count >= 1. */
static inline void
bn_digits_sub_digit(bn_digit_t *a, size_t count, bn_digit_t b, bn_digit_t *borrow)
__CPROVER_requires(a != NULL && count >= 1 && VF_DS_RW(a, count))
__CPROVER_requires(VF_D_OPT_OUT(borrow, a, count))
__CPROVER_assigns(__CPROVER_object_upto(a, VF_DS_SZ(count)))
__CPROVER_assigns(borrow != NULL: *borrow)
__CPROVER_ensures(borrow != NULL ==> (*borrow == 0 || *borrow == 1))
__CPROVER_ensures(VF_VALUE(borrow != NULL ==>
    VF_DIGITS_VAL(a, count) + b == VF_DIGITS_OLD(a, count) + (*borrow ? VF_POW2W(count) : (vf_bnv_t)0)))
__CPROVER_ensures(VF_VALUE(VF_DIGITS_VAL(a, count) ==
    ((VF_DIGITS_OLD(a, count) + VF_POW2W(count) - b) & (VF_POW2W(count) - 1))))
;

/* a -= b, internal: a_count >= b_count (documented: "set to non zero digits count"; call sites:
 * bn_digits_sub after its own check, bn_div with nn->digits - j >= dd->digits,
 * bn_digits_sub_digit_mult__int).  *borrow is left untouched when b_count == 0 or a == b. */
static inline void
bn_digits_sub__int(bn_digit_t *a, size_t a_count, bn_digit_t *b, size_t b_count, bn_digit_t *borrow)
__CPROVER_requires(VF_VALUE(__CPROVER_r_ok(a, sizeof(bn_digit_t)) && __CPROVER_r_ok(b, sizeof(bn_digit_t))))
__CPROVER_requires(a_count >= b_count)
__CPROVER_requires(b_count == 0 || (VF_DS_RW(a, a_count) && VF_DS_R(b, b_count)))
__CPROVER_requires(b_count == 0 || a == b || VF_DS_DISJOINT(a, a_count, b, b_count))
__CPROVER_requires(borrow == NULL || (VF_D_OK(borrow) && (b_count == 0 ||
    (VF_D_OUTSIDE(borrow, a, a_count) && VF_D_OUTSIDE(borrow, b, b_count)))))
__CPROVER_assigns(b_count != 0: __CPROVER_object_upto(a, VF_DS_SZ(a_count)))
__CPROVER_assigns(borrow != NULL && b_count != 0 && a != b: *borrow)
__CPROVER_ensures((borrow != NULL && b_count != 0 && a != b) ==> (*borrow == 0 || *borrow == 1))
__CPROVER_ensures(VF_VALUE((borrow != NULL && b_count != 0 && a != b) ==>
    VF_DIGITS_VAL(a, a_count) + VF_DIGITS_OLD(b, b_count) ==
    VF_DIGITS_OLD(a, a_count) + (*borrow ? VF_POW2W(a_count) : (vf_bnv_t)0)))
__CPROVER_ensures(VF_VALUE(b_count != 0 ==> VF_DIGITS_VAL(a, a_count) ==
    ((VF_DIGITS_OLD(a, a_count) + VF_POW2W(a_count) - VF_DIGITS_OLD(b, b_count)) &
     (VF_POW2W(a_count) - 1))))
;

static inline int
bn_digits_sub(bn_digit_t *a, size_t a_count, bn_digit_t *b, size_t b_count, bn_digit_t *borrow)
__CPROVER_requires(VF_VALUE(a != NULL && b != NULL && __CPROVER_r_ok(a, sizeof(bn_digit_t)) && __CPROVER_r_ok(b, sizeof(bn_digit_t))))
__CPROVER_requires(a == NULL || VF_DS_RW(a, a_count))
__CPROVER_requires(b == NULL || VF_DS_R(b, b_count))
__CPROVER_requires(a == NULL || b == NULL || a == b || VF_DS_DISJOINT(a, a_count, b, b_count))
__CPROVER_requires(borrow == NULL || (VF_D_OK(borrow) && (a == NULL || VF_D_OUTSIDE(borrow, a, a_count)) &&
    (b == NULL || VF_D_OUTSIDE(borrow, b, b_count))))
__CPROVER_assigns(a != NULL && b != NULL && b_count != 0 && a_count >= b_count: __CPROVER_object_upto(a, VF_DS_SZ(a_count)))
__CPROVER_assigns(borrow != NULL && a != NULL && b != NULL && (b_count == 0 || a_count >= b_count): *borrow)
__CPROVER_ensures(__CPROVER_return_value == ((a == NULL || b == NULL) ? EINVAL :
    ((b_count != 0 && a_count < b_count) ? EOVERFLOW : 0)))
__CPROVER_ensures((borrow != NULL && __CPROVER_return_value == 0) ==> (*borrow == 0 || *borrow == 1))
__CPROVER_ensures(VF_VALUE((__CPROVER_return_value == 0 && borrow != NULL) ==>
    VF_DIGITS_VAL(a, a_count) + VF_DIGITS_OLD(b, b_count) ==
    VF_DIGITS_OLD(a, a_count) + (*borrow ? VF_POW2W(a_count) : (vf_bnv_t)0)))
__CPROVER_ensures(VF_VALUE(__CPROVER_return_value == 0 ==> VF_DIGITS_VAL(a, a_count) ==
    ((VF_DIGITS_OLD(a, a_count) + VF_POW2W(a_count) - VF_DIGITS_OLD(b, b_count)) &
     (VF_POW2W(a_count) - 1))))
;

#endif /* !VF_REPLAY */
#endif
