/*
 * Contracts for include/proto/mpeg2ts.h (property C13): mpeg2_ts_pkt_is_valid,
 * mpeg2_ts_pkt_size_detect, mpeg2_ts_pkt_get_next.  Redeclarations only; include BEFORE
 * "proto/mpeg2ts.h".  (The PSI / adaptation-field "accessors" of this header are macros over the
 * packed structs, not functions; the two mpeg2_ts_serialize_* functions build packets from
 * caller data and belong to the construction side, not to C13.)
 *
 * Input model: a TS packet / a receive buffer is NULL or an exact-size span of hostile bytes of
 * symbolic size; every byte (sync byte, PID, adaptation-field flag and length, table id, ...)
 * unconstrained.
 */
#ifndef VF_CONTRACTS_MPEG2TS_H
#define VF_CONTRACTS_MPEG2TS_H
#include "vf/vf.h"
#include <sys/types.h>
#include <errno.h>

#ifndef VF_TS_BUF_MAX
#define VF_TS_BUF_MAX		(((size_t)1) << 48)
#endif
#define VF_TS_PKT_MIN		((size_t)188)
#define VF_TS_PKT_MAX		((size_t)208)
#define VF_TS_SB		0x47
#define VF_TS_B(p, i)		(((const uint8_t *)(p))[(i)])
/* ISO/IEC 13818-1 2.4.3.2: sync | TEI PUSI prio PID(13) | scrambling(2) AFC(2) CC(4) */
#define VF_TS_PID(p)		((unsigned)(((VF_TS_B(p, 1) & 0x1f) << 8) | VF_TS_B(p, 2)))
#define VF_TS_AFE(p)		((VF_TS_B(p, 3) & 0x20) != 0)
#define VF_TS_CP(p)		((VF_TS_B(p, 3) & 0x10) != 0)
#define VF_TS_IS_SIZE(n)	((n) == 188 || (n) == 192 || (n) == 204 || (n) == 208)

#ifndef VF_REPLAY
struct mpeg2_ts_hdr_s;
typedef struct mpeg2_ts_hdr_s mpeg2_ts_hdr_t;

static inline int
mpeg2_ts_pkt_is_valid(const mpeg2_ts_hdr_t *ts_hdr, const size_t mpeg2_ts_pkt_size)
__CPROVER_requires(mpeg2_ts_pkt_size <= VF_TS_BUF_MAX)
#ifdef VF_R_mpeg2_ts_pkt_is_valid	/* replaced callee: span asserted readable at the call site */
__CPROVER_requires(ts_hdr == NULL || mpeg2_ts_pkt_size == 0 || __CPROVER_r_ok(ts_hdr, mpeg2_ts_pkt_size))
#else
__CPROVER_requires(ts_hdr == NULL || __CPROVER_is_fresh(ts_hdr, mpeg2_ts_pkt_size))
#endif
__CPROVER_assigns()
__CPROVER_ensures(__CPROVER_return_value == 0 || __CPROVER_return_value == 1)
__CPROVER_ensures((ts_hdr == NULL || mpeg2_ts_pkt_size < VF_TS_PKT_MIN || mpeg2_ts_pkt_size > VF_TS_PKT_MAX) ==>
    __CPROVER_return_value == 0)
__CPROVER_ensures(__CPROVER_return_value == 1 ==> VF_TS_B(ts_hdr, 0) == VF_TS_SB)
/* accepted packet with an adaptation field: the field (length octet + af_len octets, + at least one
 * payload octet when the payload flag is set) lies inside the packet */
__CPROVER_ensures((__CPROVER_return_value == 1 && VF_TS_PID(ts_hdr) != 0x1fff && VF_TS_AFE(ts_hdr)) ==>
    (size_t)4 + 1 + VF_TS_B(ts_hdr, 4) + (VF_TS_CP(ts_hdr) ? 1 : 0) <= mpeg2_ts_pkt_size)
;

static inline int
mpeg2_ts_pkt_size_detect(const uint8_t *buf, const size_t buf_size, size_t *mpeg2_ts_pkt_size)
__CPROVER_requires(buf_size <= VF_TS_BUF_MAX)
__CPROVER_requires(buf == NULL || __CPROVER_is_fresh(buf, buf_size))
__CPROVER_requires(mpeg2_ts_pkt_size == NULL || __CPROVER_is_fresh(mpeg2_ts_pkt_size, sizeof(size_t)))
__CPROVER_assigns(mpeg2_ts_pkt_size != NULL: *mpeg2_ts_pkt_size)
__CPROVER_ensures(__CPROVER_return_value == 0 || __CPROVER_return_value == EINVAL)
__CPROVER_ensures((buf == NULL || buf_size < VF_TS_PKT_MIN || mpeg2_ts_pkt_size == NULL) ==>
    __CPROVER_return_value == EINVAL)
/* a detected size is one of the four TS packet sizes, and at least one candidate packet of the
 * largest size fitted into the buffer */
__CPROVER_ensures(__CPROVER_return_value == 0 ==>
    (VF_TS_IS_SIZE(*mpeg2_ts_pkt_size) && buf_size >= VF_TS_PKT_MAX))
__CPROVER_ensures((__CPROVER_return_value != 0 && mpeg2_ts_pkt_size != NULL) ==>
    *mpeg2_ts_pkt_size == __CPROVER_old(*mpeg2_ts_pkt_size))
;

/* Next sync byte at or after buf + off that still has a whole packet behind it.
 * Caller-side preconditions (not received bytes): off is a cursor inside the buffer, the packet size
 * is a real TS packet size (the value mpeg2_ts_pkt_size_detect returned), pkt is the caller's object. */
static inline int
mpeg2_ts_pkt_get_next(const uint8_t *buf, const size_t buf_size, const size_t off,
    const size_t mpeg2_ts_pkt_size, uint8_t **pkt)
__CPROVER_requires(buf_size <= VF_TS_BUF_MAX)
__CPROVER_requires(__CPROVER_is_fresh(buf, buf_size))
__CPROVER_requires(off <= buf_size)
__CPROVER_requires(VF_TS_PKT_MIN <= mpeg2_ts_pkt_size && mpeg2_ts_pkt_size <= VF_TS_PKT_MAX)
__CPROVER_requires(__CPROVER_is_fresh(pkt, sizeof(uint8_t *)))
__CPROVER_assigns(*pkt)
__CPROVER_ensures(__CPROVER_return_value == 0 || __CPROVER_return_value == 1)
/* the whole packet lies inside the buffer, at or after the cursor, and starts with the sync byte */
__CPROVER_ensures(__CPROVER_return_value == 1 ==>
    (VF_INSIDE(*pkt, mpeg2_ts_pkt_size, buf, buf_size) &&
     VF_OFF(*pkt) - VF_OFF(buf) >= off && **pkt == VF_TS_SB))
__CPROVER_ensures(__CPROVER_return_value == 0 ==> *pkt == __CPROVER_old(*pkt))
;
#endif
#endif
