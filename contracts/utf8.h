/* Contract for include/utils/utf8.h: utf8_decode reads only buf[0..buf_size) and writes
 * only ret_buf[0..ret_buf_size). */
#ifndef VF_CONTRACTS_UTF8_H
#define VF_CONTRACTS_UTF8_H
#include "vf/vf.h"
#ifndef VF_REPLAY
static inline size_t
utf8_decode(const void *buf, size_t buf_size, void *ret_buf, size_t ret_buf_size)
__CPROVER_requires(buf == NULL || buf_size == 0 || __CPROVER_is_fresh(buf, buf_size))
__CPROVER_requires(ret_buf == NULL || ret_buf_size == 0 || __CPROVER_is_fresh(ret_buf, ret_buf_size))
__CPROVER_assigns(ret_buf != NULL && ret_buf_size != 0: __CPROVER_object_upto(ret_buf, ret_buf_size))
__CPROVER_ensures(__CPROVER_return_value <= ret_buf_size)
;
#endif
#endif
