/* Contracts for include/math/crc32.h (C12): tables and data are only read, within their sizes. */
#ifndef VF_CONTRACTS_CRC32_H
#define VF_CONTRACTS_CRC32_H
#include "vf/vf.h"
#ifndef VF_REPLAY
#define VF_CRC_CONTRACT(fn, TBLN)						\
static inline uint32_t fn(const uint32_t *tbl, const uint32_t init_crc32,	\
    const uint8_t *buf, const size_t buf_size)					\
__CPROVER_requires(__CPROVER_is_fresh(tbl, (TBLN) * sizeof(uint32_t)))		\
__CPROVER_requires(buf == NULL || buf_size == 0 || __CPROVER_is_fresh(buf, buf_size)) \
__CPROVER_assigns()								\
__CPROVER_ensures((buf == NULL || buf_size == 0) ==> __CPROVER_return_value == init_crc32) \
;
VF_CRC_CONTRACT(crc32_normal4, 16)
VF_CRC_CONTRACT(crc32_normal8, 256)
VF_CRC_CONTRACT(crc32_normal, 256)
VF_CRC_CONTRACT(crc32_reflect4, 16)
VF_CRC_CONTRACT(crc32_reflect8, 256)
static inline uint32_t crc32_reflect(const uint32_t *table256, const uint32_t *table16,
    const uint32_t init_crc32, const uint8_t *buf, const size_t buf_size)
__CPROVER_requires(__CPROVER_is_fresh(table256, 256 * sizeof(uint32_t)))
__CPROVER_requires(table16 == NULL || __CPROVER_is_fresh(table16, 16 * sizeof(uint32_t)))
__CPROVER_requires(buf == NULL || buf_size == 0 || __CPROVER_is_fresh(buf, buf_size))
__CPROVER_assigns()
__CPROVER_ensures((buf == NULL || buf_size == 0) ==> __CPROVER_return_value == init_crc32)
;
#endif
#endif
