/*
 * Contracts for include/utils/base64.h (C12 memory discipline; C14 content is in
 * harness/C14/base64_*.c).  Redeclarations only: the header is not edited.
 */
#ifndef VF_CONTRACTS_BASE64_H
#define VF_CONTRACTS_BASE64_H
#include "vf/vf.h"
#include <errno.h>

/* stated input-length bounds of the harness (bounded route); default: no overflow of 4n/3 */
#ifndef VF_B64_MAX_IN
#define VF_B64_MAX_IN	(((size_t)1) << 60)
#endif
#ifndef VF_B64_MAX_OUT
#define VF_B64_MAX_OUT	(((size_t)1) << 61)
#endif

/* RFC 4648: encoded length of n bytes; upper bound of the decoded length of n chars */
#define VF_B64_ENC_LEN(n)	((((n) + 2) / 3) * 4)
#define VF_B64_DEC_CAP(n)	((((n) + 3) / 4) * 3)

#ifndef VF_REPLAY
static inline int
base64_encode(const uint8_t *src, const size_t src_size,
    uint8_t *dst, size_t dst_size, size_t *enc_size_ret)
__CPROVER_requires(src_size <= VF_B64_MAX_IN && dst_size <= VF_B64_MAX_OUT)
__CPROVER_requires(src == NULL || src_size == 0 || __CPROVER_is_fresh(src, src_size))
__CPROVER_requires(dst == NULL || dst_size == 0 || __CPROVER_is_fresh(dst, dst_size))
__CPROVER_requires(enc_size_ret == NULL || __CPROVER_is_fresh(enc_size_ret, sizeof(size_t)))
__CPROVER_assigns(dst != NULL && dst_size != 0: __CPROVER_object_upto(dst, dst_size))
__CPROVER_assigns(enc_size_ret != NULL: *enc_size_ret)
__CPROVER_ensures(__CPROVER_return_value == 0 || __CPROVER_return_value == EINVAL ||
    __CPROVER_return_value == ENOBUFS)
/* reports the size it needs instead of overflowing */
__CPROVER_ensures((src_size != 0 && src != NULL) ==>
    ((__CPROVER_return_value == ENOBUFS) == (dst_size < VF_B64_ENC_LEN(src_size))))
__CPROVER_ensures((enc_size_ret != NULL && (src_size == 0 || src != NULL)) ==>
    *enc_size_ret == VF_B64_ENC_LEN(src_size))
/* an exactly-sized destination (the size the function itself reports) is sufficient */
__CPROVER_ensures((src_size == 0 || (src != NULL && dst != NULL &&
    dst_size >= VF_B64_ENC_LEN(src_size))) ==> __CPROVER_return_value == 0)
;

static inline int
base64_decode(const uint8_t *src, const size_t src_size,
    uint8_t *dst, size_t dst_size, size_t *dcd_size_ret)
__CPROVER_requires(src_size <= VF_B64_MAX_IN && dst_size <= VF_B64_MAX_OUT)
__CPROVER_requires(src == NULL || src_size == 0 || __CPROVER_is_fresh(src, src_size))
__CPROVER_requires(dst == NULL || dst_size == 0 || __CPROVER_is_fresh(dst, dst_size))
__CPROVER_requires(dcd_size_ret == NULL || __CPROVER_is_fresh(dcd_size_ret, sizeof(size_t)))
__CPROVER_assigns(dst != NULL && dst_size != 0: __CPROVER_object_upto(dst, dst_size))
__CPROVER_assigns(dcd_size_ret != NULL: *dcd_size_ret)
__CPROVER_ensures(__CPROVER_return_value == 0 || __CPROVER_return_value == EINVAL ||
    __CPROVER_return_value == ENOBUFS)
/* the reported size is a sufficient capacity and never exceeds the cap for src_size */
__CPROVER_ensures((__CPROVER_return_value == ENOBUFS && dcd_size_ret != NULL) ==>
    (*dcd_size_ret > dst_size && *dcd_size_ret <= VF_B64_DEC_CAP(src_size)))
__CPROVER_ensures((__CPROVER_return_value == 0 && dcd_size_ret != NULL) ==>
    (*dcd_size_ret <= dst_size && *dcd_size_ret <= VF_B64_DEC_CAP(src_size)))
__CPROVER_ensures((src != NULL && dst != NULL && dst_size >= VF_B64_DEC_CAP(src_size)) ==>
    __CPROVER_return_value != ENOBUFS)
;

static inline int
base64_en_copy(const uint8_t *src, uint8_t *dst, const size_t buf_size, size_t *new_size)
__CPROVER_requires(buf_size <= VF_B64_MAX_IN)
__CPROVER_requires(src == NULL || buf_size == 0 || __CPROVER_is_fresh(src, buf_size))
__CPROVER_requires(dst == NULL || buf_size == 0 || __CPROVER_is_fresh(dst, buf_size))
__CPROVER_requires(new_size == NULL || __CPROVER_is_fresh(new_size, sizeof(size_t)))
__CPROVER_assigns(dst != NULL && buf_size != 0: __CPROVER_object_upto(dst, buf_size))
__CPROVER_assigns(new_size != NULL: *new_size)
__CPROVER_ensures(__CPROVER_return_value == 0 || __CPROVER_return_value == EINVAL)
__CPROVER_ensures((__CPROVER_return_value == 0 && new_size != NULL) ==> *new_size <= buf_size)
__CPROVER_ensures((buf_size == 0 || (src != NULL && dst != NULL)) == (__CPROVER_return_value == 0))
;

static inline int
base64_decode_fmt(const uint8_t *src, const size_t src_size,
    uint8_t *dst, size_t dst_size, size_t *dcd_size_ret)
__CPROVER_requires(src_size <= VF_B64_MAX_IN && dst_size <= VF_B64_MAX_OUT)
__CPROVER_requires(src == NULL || src_size == 0 || __CPROVER_is_fresh(src, src_size))
__CPROVER_requires(dst == NULL || dst_size == 0 || __CPROVER_is_fresh(dst, dst_size))
__CPROVER_requires(dcd_size_ret == NULL || __CPROVER_is_fresh(dcd_size_ret, sizeof(size_t)))
__CPROVER_assigns(dst != NULL && dst_size != 0: __CPROVER_object_upto(dst, dst_size))
__CPROVER_assigns(dcd_size_ret != NULL: *dcd_size_ret)
__CPROVER_ensures(__CPROVER_return_value == 0 || __CPROVER_return_value == EINVAL ||
    __CPROVER_return_value == ENOBUFS)
__CPROVER_ensures((__CPROVER_return_value == 0 && dcd_size_ret != NULL) ==> *dcd_size_ret <= dst_size)
;
#endif /* !VF_REPLAY */
#endif
