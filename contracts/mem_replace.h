/* Contract for include/utils/mem_utils.h mem_replace_arr (C12), bounded route, plus the
 * harness vocabulary shared by the xml / bencode / mem_replace jobs (exact-size input objects,
 * byte-loop memcpy/memmove models).
 *
 * Caller contract (legitimate preconditions, taken from the two in-tree callers xml_encode /
 * xml_decode and the parameter names): src is a span of src_size bytes, dst a span of dst_size
 * bytes, the four tables have repl_count entries, src_repl[i] / dst_repl[i] are spans of
 * src_repl_counts[i] / dst_repl_counts[i] bytes.  Everything else (contents, sizes, zero-length
 * patterns, patterns that are prefixes of each other, NULL tables with repl_count == 0) is input.
 *
 * Property (C12): reads only the given spans, writes only dst[0..dst_size) and the two
 * out-parameters, never overflows (ENOBUFS instead), reported length <= capacity, terminates
 * (full unwinding with unwinding assertions).  "An exactly-sized destination suffices" is the
 * three-call obligation of harness/C12/mem_replace_exact.c.
 *
 * Why r_ok/w_ok and not is_fresh: is_fresh with a symbolic size creates objects of symbolic
 * size; this function writes dst in unwound loops and the array theory then needs > 4 M
 * variables for 3 source bytes (measured: > 300 s).  The harness instead hands in EXACT-size
 * objects (VF_EXACT8 etc. below: one array per possible size, selected by the symbolic size), so an
 * access one byte outside any span is still a failed pointer obligation, and the requires
 * clauses only state what the harness established.  Writes are additionally confined by the
 * assigns clause (checked by --dfcc on every store).
 */
#ifndef VF_CONTRACTS_MEM_REPLACE_H
#define VF_CONTRACTS_MEM_REPLACE_H
#include "vf/vf.h"
#include <errno.h>
#include <stdlib.h>
#include <string.h>

/* ------------------------------------------------------------------------------------------
 * VF_EXACT4/8/16(name, n): `uint8_t *name` points to an object of EXACTLY n bytes (n symbolic,
 * n <= 3 / 8 / 16) with symbolic content.  CBMC: one array per possible size, the one of the
 * right size is selected by n (n == 0: one-past pointer of a 1-byte object, every access
 * fails); each array is recorded as input `<name>_o<size>` so that the native replay gets the
 * counterexample's bytes.  Native replay: malloc(n), so ASan sees the same exact bounds.
 * VF_EXACT*_OPT: additionally NULL when `isnull`.
 * ------------------------------------------------------------------------------------------ */
#ifndef VF_REPLAY
#define VF_XO(name, k)	struct { uint8_t b[(k) ? (k) : 1]; } name##_o##k; __CPROVER_input(#name "_o" #k, name##_o##k);
#define VF_XO_0_3(name)	VF_XO(name, 0) VF_XO(name, 1) VF_XO(name, 2) VF_XO(name, 3)
#define VF_XO_4_8(name)	VF_XO(name, 4) VF_XO(name, 5) VF_XO(name, 6) VF_XO(name, 7) VF_XO(name, 8)
#define VF_XO_9_16(name) VF_XO(name, 9) VF_XO(name, 10) VF_XO(name, 11) VF_XO(name, 12)	\
	VF_XO(name, 13) VF_XO(name, 14) VF_XO(name, 15) VF_XO(name, 16)
#define VF_XS_0_3(name, n, rest)						\
	((n) == 0 ? name##_o0.b + 1 : (n) == 1 ? name##_o1.b : (n) == 2 ? name##_o2.b : rest)
#define VF_XS_4_8(name, n, rest)						\
	((n) == 3 ? name##_o3.b : (n) == 4 ? name##_o4.b : (n) == 5 ? name##_o5.b :	\
	 (n) == 6 ? name##_o6.b : (n) == 7 ? name##_o7.b : rest)
#define VF_XS_9_16(name, n)							\
	((n) == 8 ? name##_o8.b : (n) == 9 ? name##_o9.b : (n) == 10 ? name##_o10.b :	\
	 (n) == 11 ? name##_o11.b : (n) == 12 ? name##_o12.b : (n) == 13 ? name##_o13.b :	\
	 (n) == 14 ? name##_o14.b : (n) == 15 ? name##_o15.b : name##_o16.b)
#define VF_EXACT4(name, n)	VF_XO_0_3(name) __CPROVER_assume((n) <= 3);	\
	uint8_t *name = VF_XS_0_3(name, n, name##_o3.b);
#define VF_EXACT8(name, n)	VF_XO_0_3(name) VF_XO_4_8(name) __CPROVER_assume((n) <= 8);	\
	uint8_t *name = VF_XS_0_3(name, n, VF_XS_4_8(name, n, name##_o8.b));
#define VF_EXACT16(name, n)	VF_XO_0_3(name) VF_XO_4_8(name) VF_XO_9_16(name) __CPROVER_assume((n) <= 16); \
	uint8_t *name = VF_XS_0_3(name, n, VF_XS_4_8(name, n, VF_XS_9_16(name, n)));
#else
static inline uint8_t *
vf_exact_native(const char *name, size_t n) {
	char key[128];
	uint8_t *p = (uint8_t *)malloc(n);
	snprintf(key, sizeof(key), "%s_o%zu", name, n);
	if (n != 0)
		vf_replay_get(key, p, n);
	return (p);
}
#define VF_EXACT4(name, n)	VF_ASSUME((n) <= 3); uint8_t *name = vf_exact_native(#name, (n));
#define VF_EXACT8(name, n)	VF_ASSUME((n) <= 8); uint8_t *name = vf_exact_native(#name, (n));
#define VF_EXACT16(name, n)	VF_ASSUME((n) <= 16); uint8_t *name = vf_exact_native(#name, (n));
#endif
#define VF_EXACT4_OPT(name, n, isnull)	VF_EXACT4(name##_x, n) uint8_t *name = (isnull) ? NULL : name##_x;
#define VF_EXACT8_OPT(name, n, isnull)	VF_EXACT8(name##_x, n) uint8_t *name = (isnull) ? NULL : name##_x;
#define VF_EXACT16_OPT(name, n, isnull)	VF_EXACT16(name##_x, n) uint8_t *name = (isnull) ? NULL : name##_x;

/* VF_TABLE2(T, name, k): `T *name` = table of EXACTLY k (<= 2) entries of type T (T one token). */
typedef const void *vf_cvp;
typedef const uint8_t *vf_cu8p;
#ifndef VF_REPLAY
#define VF_TABLE2(T, name, k)							\
	T name##_t1[1], name##_t2[2];						\
	__CPROVER_assume((k) <= 2);						\
	T *name = (k) == 0 ? name##_t1 + 1 : (k) == 1 ? name##_t1 : name##_t2;
#else
#define VF_TABLE2(T, name, k)	VF_ASSUME((k) <= 2); T *name = (T *)malloc((k) * sizeof(T));
#endif

/* VF_FLUSH_END(name, n, MAX): `uint8_t *name` = the LAST n bytes of a MAX-byte object (n <= MAX,
 * symbolic).  For destinations larger than 16 bytes: an overrun leaves the object (pointer
 * obligation); a write before `name` is caught by the enforced assigns clause (dfcc jobs) or by
 * the harness comparing the bytes in front of `name` (VF_FLUSH_END_UNTOUCHED, plain jobs).
 * Native replay: malloc(n). */
#ifndef VF_REPLAY
#define VF_FLUSH_END(name, n, MAX)						\
	uint8_t name##_obj[(MAX)], name##_cpy[(MAX)];				\
	__CPROVER_assume((n) <= (MAX));						\
	for (size_t vf_i = 0; vf_i < (MAX); vf_i ++)				\
		name##_cpy[vf_i] = name##_obj[vf_i];				\
	uint8_t *name = name##_obj + ((MAX) - (n));
#define VF_FLUSH_END_UNTOUCHED(name, n, MAX)					\
	for (size_t vf_i = 0; vf_i < (MAX); vf_i ++) {				\
		if (vf_i < (MAX) - (n))						\
			__CPROVER_assert(name##_obj[vf_i] == name##_cpy[vf_i], "no write in front of " #name); \
	}
#else
#define VF_FLUSH_END(name, n, MAX)	VF_ASSUME((n) <= (MAX)); uint8_t *name = (uint8_t *)malloc((n));
#define VF_FLUSH_END_UNTOUCHED(name, n, MAX)	do { } while (0)
#endif

/* ------------------------------------------------------------------------------------------
 * Executable byte-loop models of memcpy/memmove for the bounded jobs (define
 * VF_BYTE_LOOP_MEMCPY before including this file).  CBMC's built-in models copy through a
 * variable-length temporary array, which does not scale when the length is symbolic and the
 * call sits in an unwound loop; the loops below are the C11 7.24.2 definitions (memmove: copy
 * direction chosen so that overlapping spans are handled).  Trusted; listed in assumptions.
 * ------------------------------------------------------------------------------------------ */
#if defined(VF_BYTE_LOOP_MEMCPY) && !defined(VF_REPLAY)
void *memcpy(void *d, const void *s, size_t n) {
	unsigned char *dp = (unsigned char *)d;
	const unsigned char *sp = (const unsigned char *)s;
	for (size_t i = 0; i < n; i ++)
		dp[i] = sp[i];
	return (d);
}
void *memmove(void *d, const void *s, size_t n) {
	unsigned char *dp = (unsigned char *)d;
	const unsigned char *sp = (const unsigned char *)s;
	if (__CPROVER_same_object(d, s) && __CPROVER_POINTER_OFFSET(d) > __CPROVER_POINTER_OFFSET(s)) {
		for (size_t i = n; i > 0; i --)
			dp[i - 1] = sp[i - 1];
	} else {
		for (size_t i = 0; i < n; i ++)
			dp[i] = sp[i];
	}
	return (d);
}
#endif

/* ------------------------------------------------------------------------------------------ */
#ifndef VF_MRA_SRC_MAX
#define VF_MRA_SRC_MAX 3	/* src_size bound */
#endif
#ifndef VF_MRA_DST_MAX
#define VF_MRA_DST_MAX 7	/* dst_size bound: >= VF_MRA_SRC_MAX * VF_MRA_PAT_MAX + 1 */
#endif
#ifndef VF_MRA_PAT_MAX
#define VF_MRA_PAT_MAX 2	/* bytes per search / replacement pattern */
#endif
#define VF_MRA_K_MAX 2		/* patterns */

#if !defined(VF_REPLAY) && !defined(VF_MRA_NO_CONTRACT)
#define VF_MRA_ENTRY(i)								\
	(repl_count <= (i) || (							\
	    src_repl_counts[i] <= VF_MRA_PAT_MAX && dst_repl_counts[i] <= VF_MRA_PAT_MAX &&	\
	    __CPROVER_r_ok(src_repl[i], src_repl_counts[i]) &&			\
	    __CPROVER_r_ok(dst_repl[i], dst_repl_counts[i])))

static inline int
mem_replace_arr(const void *src, const size_t src_size, const size_t repl_count, void *tmp_arr,
    const void **src_repl, const size_t *src_repl_counts,
    const void **dst_repl, const size_t *dst_repl_counts,
    void *dst, const size_t dst_size, size_t *dst_size_ret, size_t *replaced)
__CPROVER_requires(src_size <= VF_MRA_SRC_MAX && dst_size <= VF_MRA_DST_MAX && repl_count <= VF_MRA_K_MAX)
__CPROVER_requires(src == NULL || __CPROVER_r_ok(src, src_size))
__CPROVER_requires(dst == NULL || __CPROVER_w_ok(dst, dst_size))
__CPROVER_requires(tmp_arr == NULL)	/* only used for more than 31 patterns */
__CPROVER_requires(dst_size_ret == NULL || __CPROVER_w_ok(dst_size_ret, sizeof(size_t)))
__CPROVER_requires(replaced == NULL || __CPROVER_w_ok(replaced, sizeof(size_t)))
/* the four tables: all present with repl_count entries, or repl_count == 0 and a table absent */
__CPROVER_requires((repl_count == 0 && (src_repl == NULL || dst_repl == NULL)) ||
    (__CPROVER_r_ok(src_repl, repl_count * sizeof(void *)) &&
     __CPROVER_r_ok(dst_repl, repl_count * sizeof(void *)) &&
     __CPROVER_r_ok(src_repl_counts, repl_count * sizeof(size_t)) &&
     __CPROVER_r_ok(dst_repl_counts, repl_count * sizeof(size_t)) &&
     VF_MRA_ENTRY(0) && VF_MRA_ENTRY(1)))
__CPROVER_assigns(dst != NULL && dst_size != 0: __CPROVER_object_upto(dst, dst_size))
__CPROVER_assigns(dst_size_ret != NULL: *dst_size_ret; replaced != NULL: *replaced)
__CPROVER_ensures(__CPROVER_return_value == 0 || __CPROVER_return_value == EINVAL ||
    __CPROVER_return_value == ENOBUFS)
__CPROVER_ensures((src == NULL || dst == NULL) ==> __CPROVER_return_value == EINVAL)
/* reported length == bytes produced, inside the capacity */
__CPROVER_ensures((__CPROVER_return_value == 0 && dst_size_ret != NULL) ==> *dst_size_ret <= dst_size)
/* every replacement consumes at least one source byte */
__CPROVER_ensures((__CPROVER_return_value == 0 && replaced != NULL) ==> *replaced <= src_size)
/* no pattern -> plain copy */
__CPROVER_ensures((__CPROVER_return_value == 0 && repl_count == 0 && dst_size_ret != NULL) ==>
    *dst_size_ret == src_size)
;
#endif
#endif
