/* Contract for include/utils/mem_utils.h mem_replace_arr (C12), bounded route.
 *
 * Caller contract (legitimate preconditions, taken from the two in-tree callers xml_encode /
 * xml_decode and the parameter names): src is a span of src_size bytes, dst a span of dst_size
 * bytes, the four tables have repl_count entries, src_repl[i] / dst_repl[i] are spans of
 * src_repl_counts[i] / dst_repl_counts[i] bytes.  Everything else (contents, sizes, zero-length
 * patterns, patterns that are prefixes of each other, NULL tables with repl_count == 0) is input.
 *
 * Property (C12): reads only the given spans, writes only dst[0..dst_size) and the two
 * out-parameters, never overflows (ENOBUFS instead), reported length <= capacity, terminates
 * (full unwinding with unwinding assertions).  "An exactly-sized destination suffices" is the
 * two-call obligation of harness/C12/mem_replace_exact.c.
 */
#ifndef VF_CONTRACTS_MEM_REPLACE_H
#define VF_CONTRACTS_MEM_REPLACE_H
#include "vf/vf.h"
#include <errno.h>

#ifndef VF_MRA_SRC_MAX
#define VF_MRA_SRC_MAX 6	/* src_size bound */
#endif
#ifndef VF_MRA_DST_MAX
#define VF_MRA_DST_MAX 10	/* dst_size bound */
#endif
#ifndef VF_MRA_PAT_MAX
#define VF_MRA_PAT_MAX 3	/* bytes per search / replacement pattern */
#endif
#define VF_MRA_K_MAX 2		/* patterns (the contract spells the table entries out) */

#ifndef VF_REPLAY
#define VF_MRA_ENTRY(i)								\
	(repl_count <= (i) || (							\
	    src_repl_counts[i] <= VF_MRA_PAT_MAX && dst_repl_counts[i] <= VF_MRA_PAT_MAX &&	\
	    __CPROVER_is_fresh(src_repl[i], src_repl_counts[i]) &&		\
	    __CPROVER_is_fresh(dst_repl[i], dst_repl_counts[i])))

static inline int
mem_replace_arr(const void *src, const size_t src_size, const size_t repl_count, void *tmp_arr,
    const void **src_repl, const size_t *src_repl_counts,
    const void **dst_repl, const size_t *dst_repl_counts,
    void *dst, const size_t dst_size, size_t *dst_size_ret, size_t *replaced)
__CPROVER_requires(src_size <= VF_MRA_SRC_MAX && dst_size <= VF_MRA_DST_MAX && repl_count <= VF_MRA_K_MAX)
__CPROVER_requires(src == NULL || __CPROVER_is_fresh(src, src_size))
__CPROVER_requires(dst == NULL || __CPROVER_is_fresh(dst, dst_size))
__CPROVER_requires(tmp_arr == NULL)	/* only used for more than 31 patterns */
__CPROVER_requires(dst_size_ret == NULL || __CPROVER_is_fresh(dst_size_ret, sizeof(size_t)))
__CPROVER_requires(replaced == NULL || __CPROVER_is_fresh(replaced, sizeof(size_t)))
/* the four tables: all present, or (repl_count == 0 and) any of them absent */
__CPROVER_requires((repl_count == 0 && (src_repl == NULL || dst_repl == NULL)) ||
    (__CPROVER_is_fresh(src_repl, repl_count * sizeof(void *)) &&
     __CPROVER_is_fresh(dst_repl, repl_count * sizeof(void *)) &&
     __CPROVER_is_fresh(src_repl_counts, repl_count * sizeof(size_t)) &&
     __CPROVER_is_fresh(dst_repl_counts, repl_count * sizeof(size_t)) &&
     VF_MRA_ENTRY(0) && VF_MRA_ENTRY(1)))
__CPROVER_assigns(dst != NULL && dst_size != 0: __CPROVER_object_upto(dst, dst_size))
__CPROVER_assigns(dst_size_ret != NULL: *dst_size_ret; replaced != NULL: *replaced)
__CPROVER_ensures(__CPROVER_return_value == 0 || __CPROVER_return_value == EINVAL ||
    __CPROVER_return_value == ENOBUFS)
__CPROVER_ensures((src == NULL || dst == NULL) ==> __CPROVER_return_value == EINVAL)
/* reported length == bytes produced, inside the capacity */
__CPROVER_ensures((__CPROVER_return_value == 0 && dst_size_ret != NULL) ==> *dst_size_ret <= dst_size)
/* every replacement consumes at least one source byte */
__CPROVER_ensures((__CPROVER_return_value == 0 && replaced != NULL) ==> *replaced <= src_size)
/* no pattern -> plain copy */
__CPROVER_ensures((__CPROVER_return_value == 0 && repl_count == 0 && dst_size_ret != NULL) ==>
    *dst_size_ret == src_size)
;
#endif
#endif
