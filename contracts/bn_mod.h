/*
 * C01 rung 3: modular layer of include/math/big_num.h (BN_MOD_REDUCE_ALGO_BASIC; Barrett
 * reduction is outside the claim).  Included from contracts/bn.h.
 *
 * Straight-line compositions carry value contracts; they are proved modularly (bn_add, bn_sub,
 * bn_cmp, bn_mult, bn_div ... replaced by their contracts).  Always: a callee error is returned
 * unchanged, never reported as success.
 * Loop functions (bn_mod_exp, bn_mod_inv_bin, bn_gcd, bn_gcd_bin, bn_sqrt1, ...) carry
 * safety contracts: memory safety, frame, well-formed result, return-code set, domain checks.
 */
#ifndef VF_CONTRACTS_BN_MOD_H
#define VF_CONTRACTS_BN_MOD_H
#ifndef VF_REPLAY

#define VF_RD_OK(p)	1
#ifdef VF_BN_INV_NO_VALUE	/* jobs that only use / prove status, frame and range of the inverse */
#define VF_INV_VALUE(c)	1
#else
#define VF_INV_VALUE(c)	(c)
#endif	/* bn_mod_rd_data_p is unused by BN_MOD_REDUCE_ALGO_BASIC (may be NULL) */
#define VF_BN_3PRE(bn, n, m)	(VF_BN_IN(bn) && VF_BN_IN(n) && VF_BN_IN(m) &&		\
	VF_BN_SEP(bn, n) && (bn) != (m) && VF_BN_SEP(bn, m))

/* bn = bn mod m */
static inline int
bn_mod(bn_p bn, bn_p m, bn_mod_rd_data_p mod_rd_data)
__CPROVER_requires(VF_BN_BINOP_PRE(bn, m))
__CPROVER_assigns(VF_BN_FRAME(bn))
__CPROVER_ensures(__CPROVER_return_value == 0 || __CPROVER_return_value == EINVAL || __CPROVER_return_value == EOVERFLOW)
__CPROVER_ensures((__CPROVER_return_value == EINVAL) == (VF_BN_OLDVAL(m) == 0))
__CPROVER_ensures(__CPROVER_return_value == EOVERFLOW ==> (__CPROVER_old(bn->digits) == bn->count &&
    VF_BN_OLDVAL(bn) > VF_BN_OLDVAL(m)))
__CPROVER_ensures(__CPROVER_return_value == 0 ==> (VF_BN_WF(*bn) &&
    VF_BN_VAL(*bn) == VF_BN_OLDVAL(bn) % VF_BN_OLDVAL(m)))
;

/* bn = (bn + n) mod m for reduced operands (bn, n < m).  The sum is formed in bn: if it does
 * not fit bn's capacity the function must not report success with a wrong value. */
static inline int
bn_mod_add(bn_p bn, bn_p n, bn_p m, bn_mod_rd_data_p mod_rd_data)
__CPROVER_requires(VF_BN_3PRE(bn, n, m))
__CPROVER_assigns(VF_BN_FRAME(bn))
__CPROVER_ensures(__CPROVER_return_value == 0 || __CPROVER_return_value == EOVERFLOW)
__CPROVER_ensures((__CPROVER_old(n->digits) <= bn->count && m->digits <= bn->count) ==> __CPROVER_return_value == 0)
__CPROVER_ensures(__CPROVER_old(n->digits) > bn->count ==> __CPROVER_return_value == EOVERFLOW)
__CPROVER_ensures(__CPROVER_return_value == 0 ==> VF_BN_WF(*bn))
__CPROVER_ensures((__CPROVER_return_value == 0 && VF_BN_OLDVAL(bn) < VF_BN_VAL(*m) && VF_BN_OLDVAL(n) < VF_BN_VAL(*m)) ==>
    VF_BN_VAL(*bn) == ((VF_BN_OLDVAL(bn) + VF_BN_OLDVAL(n) >= VF_BN_VAL(*m)) ?
	(VF_BN_OLDVAL(bn) + VF_BN_OLDVAL(n) - VF_BN_VAL(*m)) : (VF_BN_OLDVAL(bn) + VF_BN_OLDVAL(n))))
;
/* bn = (bn - n) mod m for reduced operands */
static inline int
bn_mod_sub(bn_p bn, bn_p n, bn_p m, bn_mod_rd_data_p mod_rd_data)
__CPROVER_requires(VF_BN_3PRE(bn, n, m))
__CPROVER_assigns(VF_BN_FRAME(bn))
__CPROVER_ensures(__CPROVER_return_value == 0 || __CPROVER_return_value == EOVERFLOW || __CPROVER_return_value == EINVAL)
__CPROVER_ensures(__CPROVER_return_value == 0 ==> VF_BN_WF(*bn))
/* no wrap-around needed and the difference already reduced (also for an unreduced minuend, e.g. m - n) */
__CPROVER_ensures((VF_BN_OLDVAL(bn) >= VF_BN_OLDVAL(n) && VF_BN_OLDVAL(bn) - VF_BN_OLDVAL(n) < VF_BN_VAL(*m)) ==>
    (__CPROVER_return_value == 0 && VF_BN_VAL(*bn) == VF_BN_OLDVAL(bn) - VF_BN_OLDVAL(n)))
__CPROVER_ensures((VF_BN_OLDVAL(bn) < VF_BN_VAL(*m) && VF_BN_OLDVAL(n) < VF_BN_VAL(*m) && m->digits <= bn->count) ==>
    (__CPROVER_return_value == 0 && VF_BN_VAL(*bn) == ((VF_BN_OLDVAL(bn) >= VF_BN_OLDVAL(n)) ?
	(VF_BN_OLDVAL(bn) - VF_BN_OLDVAL(n)) : (VF_BN_OLDVAL(bn) + VF_BN_VAL(*m) - VF_BN_OLDVAL(n)))))
;
/* bn = (bn * n) mod m */
static inline int
bn_mod_mult(bn_p bn, bn_p n, bn_p m, bn_mod_rd_data_p mod_rd_data)
__CPROVER_requires(VF_BN_3PRE(bn, n, m))
__CPROVER_assigns(VF_BN_FRAME(bn))
__CPROVER_ensures(__CPROVER_return_value == 0 || __CPROVER_return_value == EOVERFLOW || __CPROVER_return_value == EINVAL)
__CPROVER_ensures((VF_BN_OLDVAL(bn) != 0 && VF_BN_OLDVAL(n) != 0 &&
    __CPROVER_old(bn->digits) + __CPROVER_old(n->digits) > bn->count) ==> __CPROVER_return_value == EOVERFLOW)
__CPROVER_ensures(__CPROVER_return_value == 0 ==> (VF_BN_WF(*bn) && VF_BN_VAL(*m) != 0))
__CPROVER_ensures(VF_HEAVY(__CPROVER_return_value == 0 ==>
    VF_BN_VAL(*bn) == (VF_BN_OLDVAL(bn) * VF_BN_OLDVAL(n)) % VF_BN_VAL(*m)))
;
static inline int
bn_mod_mult_digit(bn_p bn, bn_digit_t n, bn_p m, bn_mod_rd_data_p mod_rd_data)
__CPROVER_requires(VF_BN_BINOP_PRE(bn, m) && bn != m)
__CPROVER_assigns(VF_BN_FRAME(bn))
__CPROVER_ensures(__CPROVER_return_value == 0 || __CPROVER_return_value == EOVERFLOW || __CPROVER_return_value == EINVAL)
__CPROVER_ensures(__CPROVER_return_value == 0 ==> (VF_BN_WF(*bn) && VF_BN_VAL(*m) != 0))
__CPROVER_ensures(VF_HEAVY(__CPROVER_return_value == 0 ==>
    VF_BN_VAL(*bn) == (VF_BN_OLDVAL(bn) * n) % VF_BN_VAL(*m)))
;
static inline int
bn_mod_square(bn_p bn, bn_p m, bn_mod_rd_data_p mod_rd_data)
__CPROVER_requires(VF_BN_BINOP_PRE(bn, m) && bn != m)
__CPROVER_assigns(VF_BN_FRAME(bn))
__CPROVER_ensures(__CPROVER_return_value == 0 || __CPROVER_return_value == EOVERFLOW || __CPROVER_return_value == EINVAL)
__CPROVER_ensures(__CPROVER_return_value == 0 ==> (VF_BN_WF(*bn) && VF_BN_VAL(*m) != 0 &&
    VF_BN_VAL(*bn) == (VF_BN_OLDVAL(bn) * VF_BN_OLDVAL(bn)) % VF_BN_VAL(*m)))
;
/* bn = (bn mod (m - 1)) + 1 when bn >= m, unchanged otherwise; domain m >= 2 (call sites:
 * curve order n) */
static inline int
bn_mod_reduce(bn_p bn, bn_p m, bn_mod_rd_data_p mod_rd_data)
__CPROVER_requires(VF_BN_BINOP_PRE(bn, m) && bn != m && VF_BN_VAL(*m) >= 2)
__CPROVER_assigns(VF_BN_FRAME(bn))
__CPROVER_ensures(__CPROVER_return_value == 0 || __CPROVER_return_value == EOVERFLOW)
__CPROVER_ensures(VF_BN_OLDVAL(bn) < VF_BN_VAL(*m) ==> (__CPROVER_return_value == 0 && VF_BN_VAL(*bn) == VF_BN_OLDVAL(bn)))
__CPROVER_ensures(__CPROVER_return_value == 0 ==> (VF_BN_WF(*bn) && (VF_BN_OLDVAL(bn) < VF_BN_VAL(*m) ||
    VF_BN_VAL(*bn) == (VF_BN_OLDVAL(bn) % (VF_BN_VAL(*m) - 1)) + 1)))
;

/* ------------------------------------------------------------------ loop functions: safety contracts
 * (memory safety and frame by the instrumentation; here: return-code set, domain checks,
 * well-formed result on success, callee errors propagated - the proofs replace every callee by
 * its contract, so "callee error => same error returned" is checked on all paths) */

/* bn = bn^exp mod m, exponent a machine word: loop over the 64 exponent bits (type-bounded) */
static inline int
bn_mod_exp_digit(bn_p bn, size_t exp, bn_p m, bn_mod_rd_data_p mod_rd_data)
__CPROVER_requires(VF_BN_BINOP_PRE(bn, m) && bn != m)
__CPROVER_assigns(VF_BN_FRAME(bn))
__CPROVER_ensures(__CPROVER_return_value == 0 || __CPROVER_return_value == EOVERFLOW || __CPROVER_return_value == EINVAL)
__CPROVER_ensures((bn->count < m->count || 2 * __CPROVER_old(bn->digits) > bn->count) ==> __CPROVER_return_value == EOVERFLOW)
__CPROVER_ensures(__CPROVER_return_value == 0 ==> VF_BN_WF(*bn))
__CPROVER_ensures((__CPROVER_return_value == 0 && exp == 0) ==> VF_BN_VAL(*bn) == 1)
__CPROVER_ensures((__CPROVER_return_value == 0 && exp == 1) ==> VF_BN_VAL(*bn) == VF_BN_OLDVAL(bn))
__CPROVER_ensures(VF_HEAVY((__CPROVER_return_value == 0 && exp == 2) ==> VF_BN_VAL(*bn) == (VF_BN_OLDVAL(bn) * VF_BN_OLDVAL(bn)) % VF_BN_VAL(*m)))
;
/* bn = bn^exp mod m: loop over bn_calc_bits(exp) bits */
static inline int
bn_mod_exp(bn_p bn, bn_p exp, bn_p m, bn_mod_rd_data_p mod_rd_data)
__CPROVER_requires(VF_BN_BINOP_PRE(bn, m) && bn != m && VF_BN_IN(exp) &&
    !__CPROVER_same_object(exp, bn) && !__CPROVER_same_object(exp, m))
__CPROVER_assigns(VF_BN_FRAME(bn))
__CPROVER_ensures(__CPROVER_return_value == 0 || __CPROVER_return_value == EOVERFLOW || __CPROVER_return_value == EINVAL)
__CPROVER_ensures(bn->count < m->count ==> __CPROVER_return_value == EOVERFLOW)
__CPROVER_ensures(__CPROVER_return_value == 0 ==> VF_BN_WF(*bn))
__CPROVER_ensures((__CPROVER_return_value == 0 && exp->digits == 1 && exp->num[0] == 0) ==> VF_BN_VAL(*bn) == 1)
__CPROVER_ensures((__CPROVER_return_value == 0 && VF_BN_VAL(*exp) == 1) ==> VF_BN_VAL(*bn) == VF_BN_OLDVAL(bn))
/* a reduced base stays reduced (m >= 2: bn^0 is returned as 1 also for m == 1) */
__CPROVER_ensures((__CPROVER_return_value == 0 && VF_BN_OLDVAL(bn) < VF_BN_VAL(*m) && VF_BN_VAL(*m) >= 2) ==>
    VF_BN_VAL(*bn) < VF_BN_VAL(*m))
;
/* bn = bn / d mod m = bn * d^-1 mod m (straight-line over bn_mod_inv and bn_mod_mult) */
static inline int
bn_mod_div(bn_p bn, bn_p d, bn_p m, bn_mod_rd_data_p mod_rd_data)
__CPROVER_requires(VF_BN_3PRE(bn, d, m) && bn != d)
__CPROVER_assigns(VF_BN_FRAME(bn))
__CPROVER_ensures(__CPROVER_return_value == 0 || __CPROVER_return_value == EOVERFLOW || __CPROVER_return_value == EINVAL)
__CPROVER_ensures((VF_BN_OLDVAL(d) == 0 || VF_BN_VAL(*m) == 0 || VF_BN_OLDVAL(d) >= VF_BN_VAL(*m)) ==> __CPROVER_return_value == EINVAL)
__CPROVER_ensures(__CPROVER_return_value == 0 ==> VF_BN_WF(*bn))
;
/* binary modular inverse bn = bn^-1 mod m.  Domain: 0 < bn < m, m odd, gcd(bn, m) == 1; anything
 * else is EINVAL (never a wrong value, never a hang).  On success 0 < bn' < m and bn' * bn == 1 (mod m). */
static inline int
bn_mod_inv_bin(bn_p bn, bn_p m, bn_mod_rd_data_p mod_rd_data)
__CPROVER_requires(VF_BN_BINOP_PRE(bn, m) && bn != m)
__CPROVER_assigns(VF_BN_FRAME(bn))
__CPROVER_ensures(__CPROVER_return_value == 0 || __CPROVER_return_value == EOVERFLOW || __CPROVER_return_value == EINVAL)
__CPROVER_ensures((VF_BN_OLDVAL(bn) == 0 || VF_BN_VAL(*m) == 0 || VF_BN_OLDVAL(bn) >= VF_BN_VAL(*m) ||
    (VF_BN_VAL(*m) & 1) == 0) ==> __CPROVER_return_value == EINVAL)
__CPROVER_ensures(__CPROVER_return_value == 0 ==> (VF_BN_WF(*bn) && VF_BN_VAL(*bn) < VF_BN_VAL(*m)))
__CPROVER_ensures(VF_INV_VALUE(__CPROVER_return_value == 0 ==>
    (VF_BN_VAL(*bn) != 0 && (VF_BN_VAL(*bn) * VF_BN_OLDVAL(bn)) % VF_BN_VAL(*m) == 1)))
;

/* ------------------------------------------------------------------ second round: loop functions */
/* ghost index for "greatest" in the gcd contracts */
vf_bnv_t vf_bn_gcd_kv;

/* bn = bn^exp (no modulus).  As coded: exponent 0 -> 1; for exp >= 3 EOVERFLOW when digits*exp > count */
static inline int
bn_exp_digit(bn_p bn, bn_digit_t exp)
__CPROVER_requires(VF_BN_IN(bn))
__CPROVER_assigns(VF_BN_FRAME(bn))
__CPROVER_ensures(__CPROVER_return_value == 0 || __CPROVER_return_value == EOVERFLOW)
__CPROVER_ensures((exp >= 3 && __CPROVER_old(bn->digits) * exp > bn->count) ==> __CPROVER_return_value == EOVERFLOW)
__CPROVER_ensures(__CPROVER_return_value == 0 ==> VF_BN_WF(*bn))
__CPROVER_ensures((__CPROVER_return_value == 0 && exp == 0) ==> VF_BN_VAL(*bn) == 1)
__CPROVER_ensures((__CPROVER_return_value == 0 && exp == 1) ==> VF_BN_VAL(*bn) == VF_BN_OLDVAL(bn))
__CPROVER_ensures((__CPROVER_return_value == 0 && exp == 2) ==> VF_BN_VAL(*bn) == VF_BN_OLDVAL(bn) * VF_BN_OLDVAL(bn))
;

/* bn = floor(sqrt(bn)) */
static inline int
bn_sqrt1(bn_p bn)
__CPROVER_requires(VF_BN_IN(bn))
__CPROVER_assigns(VF_BN_FRAME(bn))
__CPROVER_ensures(__CPROVER_return_value == 0)
__CPROVER_ensures(VF_BN_WF(*bn))
__CPROVER_ensures(VF_BN_VAL(*bn) * VF_BN_VAL(*bn) <= VF_BN_OLDVAL(bn) &&
    VF_BN_OLDVAL(bn) < (VF_BN_VAL(*bn) + 1) * (VF_BN_VAL(*bn) + 1))
;

/* bn = gcd(a, b); gcd(a, 0) = a, gcd(0, b) = b.  bn is a result-only object distinct from a and b;
 * as coded its capacity `count` is overwritten with that of an operand. */
#ifdef VF_BN_GCD_NO_VALUE	/* the loop-contract jobs prove everything but "is the greatest common divisor" */
#define VF_GCD_VALUE(c)	1
#else
#define VF_GCD_VALUE(c)	(c)
#endif
#define VF_GCD_BN_CONTRACT(fn)								\
static inline int fn(bn_p bn, bn_p a, bn_p b)						\
__CPROVER_requires(VF_BN_OK(bn) && VF_BN_CNT_OK(bn) && VF_BN_IN(a) && VF_BN_IN(b) && VF_BN_SEP(a, b) &&	\
    !__CPROVER_same_object(bn, a) && !__CPROVER_same_object(bn, b))			\
__CPROVER_assigns(bn->count, VF_BN_FRAME(bn))						\
__CPROVER_ensures(__CPROVER_return_value == 0 || __CPROVER_return_value == EOVERFLOW)	\
__CPROVER_ensures(__CPROVER_return_value == 0 ==> VF_BN_WF(*bn))			\
__CPROVER_ensures((__CPROVER_return_value == 0 && VF_BN_VAL(*a) == 0) ==> VF_BN_VAL(*bn) == VF_BN_VAL(*b))	\
__CPROVER_ensures((__CPROVER_return_value == 0 && VF_BN_VAL(*b) == 0) ==> VF_BN_VAL(*bn) == VF_BN_VAL(*a))	\
__CPROVER_ensures(VF_GCD_VALUE((__CPROVER_return_value == 0 && (VF_BN_VAL(*a) != 0 || VF_BN_VAL(*b) != 0)) ==>	\
    (VF_BN_VAL(*bn) != 0 && VF_BN_VAL(*a) % VF_BN_VAL(*bn) == 0 && VF_BN_VAL(*b) % VF_BN_VAL(*bn) == 0)))	\
__CPROVER_ensures(VF_GCD_VALUE((__CPROVER_return_value == 0 && (VF_BN_VAL(*a) != 0 || VF_BN_VAL(*b) != 0) &&	\
    vf_bn_gcd_kv != 0 && VF_BN_VAL(*a) % vf_bn_gcd_kv == 0 && VF_BN_VAL(*b) % vf_bn_gcd_kv == 0) ==>	\
    vf_bn_gcd_kv <= VF_BN_VAL(*bn)))							\
;
VF_GCD_BN_CONTRACT(bn_gcd)
VF_GCD_BN_CONTRACT(bn_gcd_bin)

/* Legendre symbol: -1, 0, 1, or an errno (EINVAL for an even modulus, callee errors); works on copies */
static inline int
bn_mod_legendre(bn_p bn, bn_p m, bn_mod_rd_data_p mod_rd_data)
__CPROVER_requires(VF_BN_IN(bn) && VF_BN_IN(m) && VF_BN_SEP(bn, m))
__CPROVER_assigns()
__CPROVER_ensures(__CPROVER_return_value == -1 || __CPROVER_return_value == 0 || __CPROVER_return_value == 1 ||
    __CPROVER_return_value == EINVAL || __CPROVER_return_value == EOVERFLOW)
__CPROVER_ensures((VF_BN_VAL(*m) & 1) == 0 ==> __CPROVER_return_value == EINVAL)
;

/* bn = sqrt(bn) mod m, m an odd prime.  0 on success, -1 "no root found", errno otherwise.
 * Whatever branch computes the candidate, the function squares it and compares with the reduced
 * input before it reports success - hence the value clause. */
static inline int
bn_mod_sqrt(bn_p bn, bn_p m, bn_mod_rd_data_p mod_rd_data)
__CPROVER_requires(VF_BN_BINOP_PRE(bn, m) && bn != m)
__CPROVER_assigns(VF_BN_FRAME(bn))
__CPROVER_ensures(__CPROVER_return_value == 0 || __CPROVER_return_value == -1 ||
    __CPROVER_return_value == EINVAL || __CPROVER_return_value == EOVERFLOW)
__CPROVER_ensures((VF_BN_VAL(*m) & 1) == 0 ==> __CPROVER_return_value == EINVAL)
__CPROVER_ensures(__CPROVER_return_value == 0 ==> (VF_BN_WF(*bn) &&
    (VF_BN_VAL(*bn) * VF_BN_VAL(*bn)) % VF_BN_VAL(*m) == VF_BN_OLDVAL(bn) % VF_BN_VAL(*m)))
;

#endif /* !VF_REPLAY */
#endif
