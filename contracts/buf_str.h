/* Contracts for src/utils/buf_str.c (C12). */
#ifndef VF_CONTRACTS_BUF_STR_H
#define VF_CONTRACTS_BUF_STR_H
#include "vf/vf.h"
#include <errno.h>
#ifndef VF_BS_MAX
#define VF_BS_MAX (((size_t)1) << 62)
#endif
#ifndef VF_REPLAY
#define VF_COUNT_CONTRACT(fn)						\
size_t fn(const char *buf, size_t buf_size)				\
__CPROVER_requires(buf_size <= VF_BS_MAX)				\
__CPROVER_requires(__CPROVER_is_fresh(buf, buf_size))			\
__CPROVER_assigns()							\
__CPROVER_ensures(__CPROVER_return_value <= buf_size)			\
;
VF_COUNT_CONTRACT(calc_sptab_count)
VF_COUNT_CONTRACT(calc_sptab_count_r)
VF_COUNT_CONTRACT(calc_non_sptab_count)
VF_COUNT_CONTRACT(calc_non_sptab_count_r)

size_t buf2args(char *buf, size_t buf_size, size_t max_args, char **args, size_t *args_sizes)
__CPROVER_requires(buf_size <= VF_BS_MAX && max_args <= VF_BS_MAX)
__CPROVER_requires(buf == NULL || __CPROVER_is_fresh(buf, buf_size))
__CPROVER_requires(args == NULL || __CPROVER_is_fresh(args, max_args * sizeof(char *)))
__CPROVER_requires(args_sizes == NULL || __CPROVER_is_fresh(args_sizes, max_args * sizeof(size_t)))
__CPROVER_assigns(buf != NULL: __CPROVER_object_upto(buf, buf_size))
__CPROVER_assigns(args != NULL: __CPROVER_object_upto(args, max_args * sizeof(char *)))
__CPROVER_assigns(args_sizes != NULL: __CPROVER_object_upto(args_sizes, max_args * sizeof(size_t)))
__CPROVER_ensures(__CPROVER_return_value <= max_args)
;

uint8_t data_xor8(const void *buf, size_t size)
__CPROVER_requires(buf == NULL || __CPROVER_is_fresh(buf, size))
__CPROVER_assigns()
__CPROVER_ensures(1)
;
void memxorbuf(void *dst, size_t dsize, const void *src, size_t ssize)
__CPROVER_requires(dst == NULL || __CPROVER_is_fresh(dst, dsize))
__CPROVER_requires(src == NULL || __CPROVER_is_fresh(src, ssize))
__CPROVER_assigns(dst != NULL && dsize != 0: __CPROVER_object_upto(dst, dsize))
__CPROVER_ensures(1)
;
int cvt_hex2bin(const uint8_t *hex, size_t hex_size, int auto_out_size,
    uint8_t *bin, size_t bin_size, size_t *bin_size_ret)
__CPROVER_requires(hex_size <= VF_BS_MAX && bin_size <= VF_BS_MAX)
__CPROVER_requires(hex == NULL || __CPROVER_is_fresh(hex, hex_size))
__CPROVER_requires(bin == NULL || __CPROVER_is_fresh(bin, bin_size))
__CPROVER_requires(bin_size_ret == NULL || __CPROVER_is_fresh(bin_size_ret, sizeof(size_t)))
__CPROVER_assigns(bin != NULL && bin_size != 0: __CPROVER_object_upto(bin, bin_size))
__CPROVER_assigns(bin_size_ret != NULL: *bin_size_ret)
__CPROVER_ensures(__CPROVER_return_value == 0 || __CPROVER_return_value == EINVAL ||
    __CPROVER_return_value == EOVERFLOW)
__CPROVER_ensures((__CPROVER_return_value == 0 && bin_size_ret != NULL) ==> *bin_size_ret <= bin_size)
;
int cvt_bin2hex(const uint8_t *bin, size_t bin_size, int auto_out_size,
    uint8_t *hex, size_t hex_size, size_t *hex_size_ret)
__CPROVER_requires(hex_size <= VF_BS_MAX && bin_size <= VF_BS_MAX)
__CPROVER_requires(bin == NULL || __CPROVER_is_fresh(bin, bin_size))
__CPROVER_requires(hex == NULL || __CPROVER_is_fresh(hex, hex_size))
__CPROVER_requires(hex_size_ret == NULL || __CPROVER_is_fresh(hex_size_ret, sizeof(size_t)))
__CPROVER_assigns(hex != NULL && hex_size != 0: __CPROVER_object_upto(hex, hex_size))
__CPROVER_assigns(hex_size_ret != NULL: *hex_size_ret)
__CPROVER_ensures(__CPROVER_return_value == 0 || __CPROVER_return_value == EINVAL ||
    __CPROVER_return_value == EOVERFLOW)
/* reports the size it needs instead of overflowing; that size is then sufficient */
__CPROVER_ensures((bin != NULL && hex != NULL && hex_size >= 2 && bin_size != 0) ==>
    ((__CPROVER_return_value == EOVERFLOW) == (hex_size < 2 * bin_size)))
__CPROVER_ensures((__CPROVER_return_value == EOVERFLOW && hex_size_ret != NULL) ==> *hex_size_ret == 2 * bin_size)
__CPROVER_ensures((__CPROVER_return_value == 0 && hex_size_ret != NULL) ==> *hex_size_ret <= hex_size)
;
int yn_set_flag32(const uint8_t *buf, size_t buf_size, uint32_t flag_bit, uint32_t *flags)
__CPROVER_requires(buf == NULL || __CPROVER_is_fresh(buf, buf_size))
__CPROVER_requires(flags == NULL || __CPROVER_is_fresh(flags, sizeof(uint32_t)))
__CPROVER_assigns(flags != NULL: *flags)
__CPROVER_ensures(__CPROVER_return_value == 0 || __CPROVER_return_value == EINVAL)
__CPROVER_ensures(flags != NULL ==> ((*flags) & ~flag_bit) == (__CPROVER_old(*flags) & ~flag_bit))
;
/* wrapper: `line` is a sub-span of buf (NULL for the first call) */
int w_buf_get_next_line(const uint8_t *buf, size_t buf_size, int have_line, size_t line_off, size_t line_size,
    const uint8_t **next_line, size_t *next_line_size)
__CPROVER_requires(buf_size <= VF_BS_MAX)
__CPROVER_requires(buf == NULL || __CPROVER_is_fresh(buf, buf_size))
__CPROVER_requires(line_off <= buf_size && line_size <= buf_size - line_off)
__CPROVER_requires(next_line == NULL || __CPROVER_is_fresh(next_line, sizeof(uint8_t *)))
__CPROVER_requires(next_line_size == NULL || __CPROVER_is_fresh(next_line_size, sizeof(size_t)))
__CPROVER_assigns(next_line != NULL: *next_line; next_line_size != NULL: *next_line_size)
__CPROVER_ensures(__CPROVER_return_value == 0 || __CPROVER_return_value == EINVAL || __CPROVER_return_value == -1)
__CPROVER_ensures(__CPROVER_return_value == 0 ==> VF_PTR_INSIDE(*next_line, buf, buf_size))
__CPROVER_ensures(__CPROVER_return_value == 0 ==> VF_INSIDE(*next_line, *next_line_size, buf, buf_size))
/* progress: the next line starts at or after the end of the previous one */
__CPROVER_ensures((__CPROVER_return_value == 0 && have_line) ==>
    VF_OFF(*next_line) - VF_OFF(buf) >= line_off + line_size)
;
#endif
#endif
