/*
 * Contracts for include/proto/sdp.h (property C13): sdp_msg_type_get, sdp_msg_type_get_count,
 * sdp_msg_feilds_get, sdp_msg_sec_chk.  Redeclarations only; include BEFORE "proto/sdp.h".
 *
 * Input model: the SDP text is an exact-size span of sdp_msg_size hostile bytes
 * (0 <= sdp_msg_size <= VF_SDP_MSG_MAX), every byte unconstrained: no CRLF at all, CRLF as the very
 * last two bytes, "x=" as the very last two bytes, lone CR, control bytes ...
 * Out-parameters documented as optional may be NULL; the others are the caller's objects.
 */
#ifndef VF_CONTRACTS_SDP_H
#define VF_CONTRACTS_SDP_H
#include "vf/vf.h"
#include <sys/types.h>
#include <errno.h>

#ifndef VF_SDP_MSG_MAX
#define VF_SDP_MSG_MAX		(((size_t)1) << 48)
#endif
/* capacity of the caller's field arrays in sdp_msg_feilds_get (keeps max_feilds * 8 below
 * CBMC's maximum object size; the code itself has no such limit) */
#ifndef VF_SDP_FIELDS_MAX
#define VF_SDP_FIELDS_MAX	((size_t)4096)
#endif

#define VF_SDP_ALLOWED(b)	(((b) >= 32 && (b) <= 126) || (b) == '\t' || (b) == '\r' || (b) == '\n')

#ifndef VF_REPLAY
#define VF_SDP_MSG(p, n)	((p) == NULL || __CPROVER_is_fresh((p), (n)))
#define VF_SDP_OUT_OPT(p, T)	((p) == NULL || __CPROVER_is_fresh((p), sizeof(T)))
/* ghost index: "for every returned field" without a quantifier (set by the harness) */
size_t vf_sdp_k;

/* Value of the first line number >= *line whose type letter is `type`. */
static inline int
sdp_msg_type_get(uint8_t *sdp_msg, size_t sdp_msg_size, const uint8_t type,
    size_t *line, uint8_t **val_ret, size_t *val_ret_size)
__CPROVER_requires(sdp_msg_size <= VF_SDP_MSG_MAX)
__CPROVER_requires(VF_SDP_MSG(sdp_msg, sdp_msg_size))
__CPROVER_requires(VF_SDP_OUT_OPT(line, size_t))
__CPROVER_requires(VF_SDP_OUT_OPT(val_ret, uint8_t *))
__CPROVER_requires(VF_SDP_OUT_OPT(val_ret_size, size_t))
__CPROVER_assigns(line != NULL: *line; val_ret != NULL: *val_ret; val_ret_size != NULL: *val_ret_size)
__CPROVER_ensures(__CPROVER_return_value == 0 || __CPROVER_return_value == EINVAL)
__CPROVER_ensures((sdp_msg == NULL || sdp_msg_size == 0) ==> __CPROVER_return_value == EINVAL)
/* the value lies inside the message, after its two-byte "<type>=" prefix */
__CPROVER_ensures((__CPROVER_return_value == 0 && val_ret != NULL) ==>
    (VF_PTR_INSIDE(*val_ret, sdp_msg, sdp_msg_size) && VF_OFF(*val_ret) - VF_OFF(sdp_msg) >= 2))
__CPROVER_ensures((__CPROVER_return_value == 0 && val_ret != NULL && val_ret_size != NULL) ==>
    (*val_ret_size <= sdp_msg_size &&
     VF_INSIDE(*val_ret, *val_ret_size, sdp_msg, sdp_msg_size)))
/* the line number found is not before the start line and is bounded by the message size
 * (every line but the last takes at least two bytes, so even size / 2 would hold; the weaker bound
 * is three times cheaper to prove): this is what makes the callers' loops finite */
__CPROVER_ensures((__CPROVER_return_value == 0 && line != NULL) ==>
    (*line >= __CPROVER_old(*line) && *line <= sdp_msg_size))
/* not found: the line cursor is untouched */
__CPROVER_ensures((__CPROVER_return_value != 0 && line != NULL) ==> *line == __CPROVER_old(*line))
;

static inline size_t
sdp_msg_type_get_count(uint8_t *sdp_msg, size_t sdp_msg_size, const uint8_t type)
__CPROVER_requires(sdp_msg_size <= VF_SDP_MSG_MAX)
__CPROVER_requires(VF_SDP_MSG(sdp_msg, sdp_msg_size))
__CPROVER_assigns()
/* at most one hit per line */
__CPROVER_ensures(__CPROVER_return_value <= sdp_msg_size + 1)
__CPROVER_ensures((sdp_msg == NULL || sdp_msg_size == 0) ==> __CPROVER_return_value == 0)
;

/* Split buf at SP into at most max_feilds (pointer, size) pairs. */
static inline size_t
sdp_msg_feilds_get(uint8_t *buf, size_t buf_size, size_t max_feilds,
    uint8_t **feilds, size_t *feilds_sizes)
__CPROVER_requires(buf_size <= VF_SDP_MSG_MAX && max_feilds <= VF_SDP_FIELDS_MAX)
__CPROVER_requires(VF_SDP_MSG(buf, buf_size))
__CPROVER_requires(feilds == NULL || __CPROVER_is_fresh(feilds, max_feilds * sizeof(uint8_t *)))
/* feilds_sizes is not tested by the function: caller's array of the same capacity */
__CPROVER_requires(__CPROVER_is_fresh(feilds_sizes, max_feilds * sizeof(size_t)))
__CPROVER_assigns(feilds != NULL: __CPROVER_object_whole(feilds); __CPROVER_object_whole(feilds_sizes))
__CPROVER_ensures(__CPROVER_return_value <= max_feilds)
__CPROVER_ensures((buf == NULL || buf_size == 0 || feilds == NULL) ==> __CPROVER_return_value == 0)
/* every returned field lies inside buf */
__CPROVER_ensures(vf_sdp_k < __CPROVER_return_value ==>
    (feilds_sizes[vf_sdp_k] <= buf_size &&
     VF_PTR_INSIDE(feilds[vf_sdp_k], buf, buf_size) &&
     VF_INSIDE(feilds[vf_sdp_k], feilds_sizes[vf_sdp_k], buf, buf_size)))
;

/* Format / sanity check of a received SDP text: 0 = accepted, 1..9 = number of the failed rule. */
static inline int
sdp_msg_sec_chk(uint8_t *sdp_msg, size_t sdp_msg_size)
__CPROVER_requires(sdp_msg_size <= VF_SDP_MSG_MAX)
__CPROVER_requires((sdp_msg == NULL && sdp_msg_size < 16) || __CPROVER_is_fresh(sdp_msg, sdp_msg_size))
__CPROVER_assigns()
__CPROVER_ensures(0 <= __CPROVER_return_value && __CPROVER_return_value <= 9)
__CPROVER_ensures(sdp_msg_size < 16 ==> __CPROVER_return_value == 1)
#ifdef VF_SDP_SEC_CONTENT
/* rule 3 of the function's own list ("Control codes: < 32, != CRLF != tab, > 126"): an accepted
 * text consists of printable ASCII, HT, CR and LF only (stated for the ghost index vf_sdp_k) */
__CPROVER_ensures((__CPROVER_return_value == 0 && vf_sdp_k < sdp_msg_size) ==>
    VF_SDP_ALLOWED(sdp_msg[vf_sdp_k]))
#endif
;
#endif
#endif
