/*
 * Contracts for include/crypto/hash/sha2.h (C04: SHA-224/256/384/512 == FIPS 180-4;
 * C07: HMAC-SHA-2 == RFC 2104).  Redeclarations only; the header is compiled unmodified, with
 * the SIMD macros removed exactly as tests/hash/main.c does (no SHA-NI path).
 * Ghost vocabulary: stubs/hash_ghost.h, clause macros: stubs/hash_clauses.h.
 *
 * Every job fixes the variant:  -DVF_BITS=224|256|384|512  (U, F, I, C07)  or
 * -DVF_BLK=64|128 (T).  Build modes as in contracts/sha1.h:
 *   (none)             sha2_transform_block<VF_BLK>_generic and sha2_transform carry contract T
 *   VF_TRANSFORM_LOG   sha2_transform carries the block-logging contract (replaced in U, F)
 *   VF_HASH_STREAM     sha2_init/_update/_final carry the byte-stream contracts (C07)
 */
#ifndef VF_CONTRACTS_SHA2_H
#define VF_CONTRACTS_SHA2_H
#include "vf/vf.h"
#include "stubs/hash_ghost.h"
#include "stubs/hash_clauses.h"
#include "specs/sha2_spec.h"
#undef __SSE2__
#undef __SHA__
#include "crypto/hash/sha2.h"
#include "stubs/hash_libc.h"

#ifndef VF_REPLAY

#if defined(VF_BITS) && !defined(VF_BLK)
#if VF_BITS <= 256
#define VF_BLK 64
#else
#define VF_BLK 128
#endif
#endif
#ifdef VF_BITS
#define VF_HS	((size_t)(VF_BITS / 8))
#endif
#ifndef VF_T_NBLK
#define VF_T_NBLK 1
#endif
/* digest size in bytes / block size selected by a valid "bits" argument (bits or bytes) */
#define VF_SHA2_BITS_OK(b)	((b) == 224 || (b) == 28 || (b) == 256 || (b) == 32 || \
				 (b) == 384 || (b) == 48 || (b) == 512 || (b) == 64)
#define VF_SHA2_HS(b)	(((b) == 224 || (b) == 28) ? (size_t)28 : ((b) == 256 || (b) == 32) ? (size_t)32 : \
			 ((b) == 384 || (b) == 48) ? (size_t)48 : (size_t)64)
#define VF_SHA2_B(b)	((VF_SHA2_HS(b) <= 32) ? (size_t)64 : (size_t)128)

/* the chaining value as the transform sees it: 8 x 32 bit in the first half of ctx->hash
 * (SHA-224/256) or 8 x 64 bit (SHA-384/512) */
#if VF_BLK == 64
#define VF_SHA2_W(ctx, i)	(((const uint32_t *)(ctx)->hash)[i])
#define VF_SHA2_WG(i)		((uint32_t)vf_blk_h[i])
#define VF_SHA2_LENBYTES	8
#else
#define VF_SHA2_W(ctx, i)	((ctx)->hash[i])
#define VF_SHA2_WG(i)		(vf_blk_h[i])
#define VF_SHA2_LENBYTES	16
#endif
#define VF_SHA2_HASH_GHOST(ctx)								\
    (VF_SHA2_W(ctx, 0) == VF_SHA2_WG(0) && VF_SHA2_W(ctx, 1) == VF_SHA2_WG(1) &&	\
     VF_SHA2_W(ctx, 2) == VF_SHA2_WG(2) && VF_SHA2_W(ctx, 3) == VF_SHA2_WG(3) &&	\
     VF_SHA2_W(ctx, 4) == VF_SHA2_WG(4) && VF_SHA2_W(ctx, 5) == VF_SHA2_WG(5) &&	\
     VF_SHA2_W(ctx, 6) == VF_SHA2_WG(6) && VF_SHA2_W(ctx, 7) == VF_SHA2_WG(7))
#define VF_SHA2_HASH_OLD(ctx)								\
    (VF_SHA2_W(ctx, 0) == __CPROVER_old(VF_SHA2_W(ctx, 0)) && VF_SHA2_W(ctx, 1) == __CPROVER_old(VF_SHA2_W(ctx, 1)) && \
     VF_SHA2_W(ctx, 2) == __CPROVER_old(VF_SHA2_W(ctx, 2)) && VF_SHA2_W(ctx, 3) == __CPROVER_old(VF_SHA2_W(ctx, 3)) && \
     VF_SHA2_W(ctx, 4) == __CPROVER_old(VF_SHA2_W(ctx, 4)) && VF_SHA2_W(ctx, 5) == __CPROVER_old(VF_SHA2_W(ctx, 5)) && \
     VF_SHA2_W(ctx, 6) == __CPROVER_old(VF_SHA2_W(ctx, 6)) && VF_SHA2_W(ctx, 7) == __CPROVER_old(VF_SHA2_W(ctx, 7)))

/* ------------------------------------------------------------------ T / LOG ---- */
#ifndef VF_TRANSFORM_LOG
#ifdef VF_BLK
#if VF_BLK == 64
static inline _Bool
vf_sha2_T_post(uint32_t h0, uint32_t h1, uint32_t h2, uint32_t h3, uint32_t h4, uint32_t h5,
    uint32_t h6, uint32_t h7, const uint8_t *blocks, const uint32_t *now) {
	uint32_t e[8];
	e[0] = h0; e[1] = h1; e[2] = h2; e[3] = h3; e[4] = h4; e[5] = h5; e[6] = h6; e[7] = h7;
	for (unsigned b = 0; b < VF_T_NBLK; b++)
		vf_sha256_compress(e, blocks + 64 * b);
	return (now[0] == e[0] && now[1] == e[1] && now[2] == e[2] && now[3] == e[3] &&
	    now[4] == e[4] && now[5] == e[5] && now[6] == e[6] && now[7] == e[7]);
}
#define VF_SHA2_T_NOW(ctx)	((const uint32_t *)(ctx)->hash)
#define VF_SHA2_T_HASHBYTES	32
#define VF_SHA2_T_WBYTES	(64 * sizeof(uint32_t))
#else
static inline _Bool
vf_sha2_T_post(uint64_t h0, uint64_t h1, uint64_t h2, uint64_t h3, uint64_t h4, uint64_t h5,
    uint64_t h6, uint64_t h7, const uint8_t *blocks, const uint64_t *now) {
	uint64_t e[8];
	e[0] = h0; e[1] = h1; e[2] = h2; e[3] = h3; e[4] = h4; e[5] = h5; e[6] = h6; e[7] = h7;
	for (unsigned b = 0; b < VF_T_NBLK; b++)
		vf_sha512_compress(e, blocks + 128 * b);
	return (now[0] == e[0] && now[1] == e[1] && now[2] == e[2] && now[3] == e[3] &&
	    now[4] == e[4] && now[5] == e[5] && now[6] == e[6] && now[7] == e[7]);
}
#define VF_SHA2_T_NOW(ctx)	((const uint64_t *)(ctx)->hash)
#define VF_SHA2_T_HASHBYTES	64
#define VF_SHA2_T_WBYTES	(80 * sizeof(uint64_t))
#endif

#ifdef VF_T_ALIAS
/* the harness owns the context and passes ctx->buffer itself (concrete pointers) */
#define VF_SHA2_T_CTX_REQ(ctx)	__CPROVER_requires(__CPROVER_w_ok(ctx, sizeof(sha2_ctx_t)))
#define VF_SHA2_T_BLOCKS_REQ(ctx, blocks, blocks_max)					\
__CPROVER_requires(blocks == (const uint8_t *)ctx->buffer && blocks_max == blocks + VF_BLK)
#else
#define VF_SHA2_T_CTX_REQ(ctx)	__CPROVER_requires(__CPROVER_is_fresh(ctx, sizeof(sha2_ctx_t)))
#define VF_SHA2_T_BLOCKS_REQ(ctx, blocks, blocks_max)					\
__CPROVER_requires(__CPROVER_r_ok(blocks, VF_T_NBLK * VF_BLK) && blocks_max == blocks + VF_T_NBLK * VF_BLK)
#endif
/* T: chaining value afterwards == FIPS 180-4 6.2.2 / 6.4.2 applied to the blocks in order;
 * only the chaining words and the schedule scratch ctx->W are written */
#define VF_SHA2_T_CONTRACT(fn, EXTRA_REQ)						\
static inline void									\
fn(sha2_ctx_p ctx, const uint8_t *blocks, const uint8_t *blocks_max)			\
VF_SHA2_T_CTX_REQ(ctx)									\
EXTRA_REQ										\
VF_SHA2_T_BLOCKS_REQ(ctx, blocks, blocks_max)						\
__CPROVER_assigns(__CPROVER_object_upto((uint8_t *)ctx->hash, VF_SHA2_T_HASHBYTES),	\
    __CPROVER_object_upto((uint8_t *)ctx->W, VF_SHA2_T_WBYTES))				\
__CPROVER_ensures(vf_sha2_T_post(__CPROVER_old(VF_SHA2_W(ctx, 0)), __CPROVER_old(VF_SHA2_W(ctx, 1)),	\
    __CPROVER_old(VF_SHA2_W(ctx, 2)), __CPROVER_old(VF_SHA2_W(ctx, 3)),			\
    __CPROVER_old(VF_SHA2_W(ctx, 4)), __CPROVER_old(VF_SHA2_W(ctx, 5)),			\
    __CPROVER_old(VF_SHA2_W(ctx, 6)), __CPROVER_old(VF_SHA2_W(ctx, 7)), blocks, VF_SHA2_T_NOW(ctx)))	\
;
#if VF_BLK == 64
VF_SHA2_T_CONTRACT(sha2_transform_block64_generic, )
#else
VF_SHA2_T_CONTRACT(sha2_transform_block128_generic, )
#endif
/* the dispatcher selects by ctx->block_size; in the portable build it must be the generic one */
VF_SHA2_T_CONTRACT(sha2_transform, __CPROVER_requires(ctx->block_size == VF_BLK))
#endif /* VF_BLK */

#else /* VF_TRANSFORM_LOG */
static inline void
sha2_transform(sha2_ctx_p ctx, const uint8_t *blocks, const uint8_t *blocks_max)
__CPROVER_requires(__CPROVER_w_ok(ctx, sizeof(sha2_ctx_t)))
__CPROVER_requires(ctx->block_size == VF_BLK)
VF_LOG_REQUIRES(blocks, blocks_max, VF_BLK)
__CPROVER_assigns(__CPROVER_object_upto(ctx->hash, sizeof(ctx->hash)),
    __CPROVER_object_upto(ctx->W, sizeof(ctx->W)))
__CPROVER_assigns(vf_blk_len, vf_blk_at, __CPROVER_object_whole(vf_blk_h))
VF_LOG_ENSURES(blocks, blocks_max)
__CPROVER_ensures(VF_SHA2_HASH_GHOST(ctx))
;
#endif

/* ------------------------------------------------------------------ I / U / F -- */
#if !defined(VF_HASH_STREAM) && defined(VF_BLK)
#ifdef VF_BITS

#if VF_BITS == 224
#define VF_SHA2_IV(i)	vf_sha224_H0[i]
#elif VF_BITS == 256
#define VF_SHA2_IV(i)	vf_sha256_H0[i]
#elif VF_BITS == 384
#define VF_SHA2_IV(i)	vf_sha384_H0[i]
#else
#define VF_SHA2_IV(i)	vf_sha512_H0[i]
#endif

/* I: FIPS 180-4 5.3.2-5.3.5 initial hash value of the selected variant, sizes, nothing absorbed */
static inline void
sha2_init(const size_t bits, sha2_ctx_p ctx)
__CPROVER_requires(__CPROVER_is_fresh(ctx, sizeof(sha2_ctx_t)))
__CPROVER_requires(bits == VF_BITS || bits == VF_BITS / 8)
__CPROVER_assigns(ctx->count, ctx->count_hi, ctx->hash_size, ctx->block_size,
    __CPROVER_object_upto(ctx->hash, sizeof(ctx->hash)))
__CPROVER_ensures(ctx->hash_size == VF_HS && ctx->block_size == VF_BLK && ctx->count == 0 && ctx->count_hi == 0)
__CPROVER_ensures(VF_SHA2_W(ctx, 0) == VF_SHA2_IV(0) && VF_SHA2_W(ctx, 1) == VF_SHA2_IV(1) &&
    VF_SHA2_W(ctx, 2) == VF_SHA2_IV(2) && VF_SHA2_W(ctx, 3) == VF_SHA2_IV(3) &&
    VF_SHA2_W(ctx, 4) == VF_SHA2_IV(4) && VF_SHA2_W(ctx, 5) == VF_SHA2_IV(5) &&
    VF_SHA2_W(ctx, 6) == VF_SHA2_IV(6) && VF_SHA2_W(ctx, 7) == VF_SHA2_IV(7))
;
#endif /* VF_BITS */

/* U depends on the block size only (the digest size is not read by sha2_update) */
#define VF_SHA2_T0(ctx)		((size_t)(__CPROVER_old((ctx)->count) & (VF_BLK - 1)))

static inline void
sha2_update(sha2_ctx_p ctx, const uint8_t *data, size_t data_size)
__CPROVER_requires(__CPROVER_is_fresh(ctx, sizeof(sha2_ctx_t)))
__CPROVER_requires(ctx->block_size == VF_BLK)
#ifdef VF_TAIL
__CPROVER_requires((ctx->count & (VF_BLK - 1)) == VF_TAIL)
#endif
#ifdef VF_U_NMAX
__CPROVER_requires(data_size <= VF_U_NMAX && __CPROVER_is_fresh(data, VF_U_NMAX))
#elif defined(VF_U_NSAFE)	/* exact span, bounded length */
__CPROVER_requires(data_size <= VF_U_NSAFE && (data_size == 0 || __CPROVER_is_fresh(data, data_size)))
#else
__CPROVER_requires(data_size == 0 || __CPROVER_is_fresh(data, data_size))
#endif
__CPROVER_assigns(ctx->count, ctx->count_hi, __CPROVER_object_upto(ctx->hash, sizeof(ctx->hash)),
    __CPROVER_object_upto(ctx->buffer, sizeof(ctx->buffer)), __CPROVER_object_upto(ctx->W, sizeof(ctx->W)))
__CPROVER_assigns(vf_blk_len, vf_blk_at, __CPROVER_object_whole(vf_blk_h))
/* 128-bit byte count */
__CPROVER_ensures(ctx->count == __CPROVER_old(ctx->count) + data_size)
__CPROVER_ensures(ctx->count_hi == __CPROVER_old(ctx->count_hi) +
    (((uint64_t)(__CPROVER_old(ctx->count) + data_size) < (uint64_t)data_size) ? 1 : 0))
VF_U_POST_LEN(VF_SHA2_T0(ctx), data_size, VF_BLK)
#ifndef VF_U_NOCONTENT
VF_U_POST_CONTENT(VF_SHA2_T0(ctx), data_size, VF_BLK, ctx->buffer, data)
#endif
__CPROVER_ensures(VF_FED(VF_SHA2_T0(ctx), data_size, VF_BLK) == 0 ==> VF_SHA2_HASH_OLD(ctx))
__CPROVER_ensures(VF_FED(VF_SHA2_T0(ctx), data_size, VF_BLK) != 0 ==> VF_SHA2_HASH_GHOST(ctx))
;

#ifdef VF_BITS
/* F: FIPS 180-4 5.1.1 / 5.1.2 padding (64-bit / 128-bit big-endian bit length), output
 * truncated to the variant's size (6.3, 6.5), wipe */
#define VF_SHA2_FFED(ctx)	((VF_SHA2_T0(ctx) > VF_BLK - 1 - VF_SHA2_LENBYTES) ? (size_t)(2 * VF_BLK) : (size_t)VF_BLK)
/* byte i (0 = most significant) of the big-endian bit length; byte count = count_hi:count */
#if VF_BLK == 64
#define VF_SHA2_LENBYTE(ctx, i)	VF_BYTE_BE64(__CPROVER_old((ctx)->count) << 3, i)
#else
#define VF_SHA2_LENBYTE(ctx, i)	(((i) < 8) ?						\
    VF_BYTE_BE64((__CPROVER_old((ctx)->count_hi) << 3) | (__CPROVER_old((ctx)->count) >> 61), i) :	\
    VF_BYTE_BE64(__CPROVER_old((ctx)->count) << 3, (i) - 8))
#endif
static inline void
sha2_final(sha2_ctx_p ctx, uint8_t *digest)
__CPROVER_requires(__CPROVER_is_fresh(ctx, sizeof(sha2_ctx_t)))
__CPROVER_requires(ctx->block_size == VF_BLK && ctx->hash_size == VF_HS)
#ifdef VF_TAIL
__CPROVER_requires((ctx->count & (VF_BLK - 1)) == VF_TAIL)
#endif
__CPROVER_requires(__CPROVER_is_fresh(digest, VF_HS))
__CPROVER_assigns(__CPROVER_object_whole(ctx), __CPROVER_object_upto(digest, VF_HS))
__CPROVER_assigns(vf_blk_len, vf_blk_at, __CPROVER_object_whole(vf_blk_h))
__CPROVER_ensures(vf_blk_len == __CPROVER_old(vf_blk_len) + VF_SHA2_FFED(ctx))
__CPROVER_ensures(VF_BLK_IN(VF_SHA2_FFED(ctx)) ==> vf_blk_at == (
    (VF_BLK_J < VF_SHA2_T0(ctx)) ? VF_OLDBUF_K(ctx->buffer, VF_BLK) :
    (VF_BLK_J == VF_SHA2_T0(ctx)) ? (uint8_t)0x80 :
    (VF_BLK_J < VF_SHA2_FFED(ctx) - VF_SHA2_LENBYTES) ? (uint8_t)0x00 :
    VF_SHA2_LENBYTE(ctx, VF_BLK_J - (VF_SHA2_FFED(ctx) - VF_SHA2_LENBYTES))))
__CPROVER_ensures(!VF_BLK_IN(VF_SHA2_FFED(ctx)) ==> vf_blk_at == __CPROVER_old(vf_blk_at))
#if VF_BLK == 64
__CPROVER_ensures(vf_d_k < VF_HS ==> digest[vf_d_k] == VF_BYTE_BE32(vf_blk_h[vf_d_k >> 2], vf_d_k & 3))
#else
__CPROVER_ensures(vf_d_k < VF_HS ==> digest[vf_d_k] == VF_BYTE_BE64(vf_blk_h[vf_d_k >> 3], vf_d_k & 7))
#endif
__CPROVER_ensures(vf_c_k < sizeof(sha2_ctx_t) ==> ((const uint8_t *)ctx)[vf_c_k] == 0)
;
#endif /* VF_BITS */
#endif /* I/U/F */

#if defined(VF_HASH_STREAM) && defined(VF_BITS) /* ------------------------ STREAM -- */
/* byte-stream abstraction (see contracts/md5.h); the size fields, which the HMAC code reads
 * directly, are part of the abstraction */
static inline void
sha2_init(const size_t bits, sha2_ctx_p ctx)
__CPROVER_requires(__CPROVER_w_ok(ctx, sizeof(sha2_ctx_t)))
__CPROVER_requires(VF_SHA2_BITS_OK(bits))
__CPROVER_assigns(__CPROVER_object_upto(ctx, sizeof(sha2_ctx_t)))
__CPROVER_assigns(vf_s_len, vf_s_open, vf_s_ctx, vf_s_bits)
__CPROVER_ensures(vf_s_len == 0 && vf_s_open == 1 && vf_s_ctx == ctx && vf_s_bits == VF_SHA2_HS(bits))
__CPROVER_ensures(ctx->hash_size == VF_SHA2_HS(bits) && ctx->block_size == VF_SHA2_B(bits))
;
static inline void
sha2_update(sha2_ctx_p ctx, const uint8_t *data, size_t data_size)
__CPROVER_requires(__CPROVER_w_ok(ctx, sizeof(sha2_ctx_t)))
__CPROVER_requires(vf_s_open == 1 && vf_s_ctx == ctx)
__CPROVER_requires(data_size == 0 || __CPROVER_r_ok(data, data_size))
__CPROVER_assigns(__CPROVER_object_upto(ctx, sizeof(sha2_ctx_t)))
__CPROVER_assigns(vf_s_len, vf_s_at)
__CPROVER_ensures(vf_s_len == __CPROVER_old(vf_s_len) + data_size)
__CPROVER_ensures(vf_s_at ==
    ((vf_s_k >= __CPROVER_old(vf_s_len) && vf_s_k - __CPROVER_old(vf_s_len) < data_size) ?
	data[vf_s_k - __CPROVER_old(vf_s_len)] : __CPROVER_old(vf_s_at)))
__CPROVER_ensures(ctx->hash_size == __CPROVER_old(ctx->hash_size) && ctx->block_size == __CPROVER_old(ctx->block_size))
;
static inline void
sha2_final(sha2_ctx_p ctx, uint8_t *digest)
__CPROVER_requires(__CPROVER_w_ok(ctx, sizeof(sha2_ctx_t)))
__CPROVER_requires(vf_s_open == 1 && vf_s_ctx == ctx && ctx->hash_size == vf_s_bits)
__CPROVER_requires(__CPROVER_w_ok(digest, vf_s_bits))
__CPROVER_requires(vf_d_n < VF_D_MAX)
__CPROVER_assigns(__CPROVER_object_upto(ctx, sizeof(sha2_ctx_t)), __CPROVER_object_upto(digest, vf_s_bits))
__CPROVER_assigns(vf_s_open, vf_d_n, vf_d_len[vf_d_n], vf_d_at[vf_d_n], vf_d_size[vf_d_n], vf_d_dig[vf_d_n])
__CPROVER_ensures(vf_s_open == 0 && vf_d_n == __CPROVER_old(vf_d_n) + 1)
__CPROVER_ensures(vf_d_len[__CPROVER_old(vf_d_n)] == vf_s_len && vf_d_at[__CPROVER_old(vf_d_n)] == vf_s_at &&
    vf_d_size[__CPROVER_old(vf_d_n)] == vf_s_bits)
__CPROVER_ensures(vf_d_k < vf_s_bits ==> digest[vf_d_k] == vf_d_dig[__CPROVER_old(vf_d_n)])
__CPROVER_ensures(vf_c_k < sizeof(sha2_ctx_t) ==> ((const uint8_t *)ctx)[vf_c_k] == 0)
;

#define VF_BITS_REQ(bits)	__CPROVER_requires((bits) == VF_BITS || (bits) == VF_BITS / 8)
#define VF_SIZE_RET_REQ(p)	__CPROVER_requires((p) == NULL || __CPROVER_is_fresh((p), sizeof(size_t)))
#define VF_SIZE_RET_POST(p, v)	__CPROVER_ensures((p) != NULL ==> *(p) == (v))

/* ---- C07: HMAC-SHA-2; B = 64 (224/256) or 128 (384/512) ---- */
static inline void
hmac_sha2_init(const size_t bits, const uint8_t *key, const size_t key_len, hmac_sha2_ctx_p hctx)
__CPROVER_requires(__CPROVER_is_fresh(hctx, sizeof(hmac_sha2_ctx_t)))
VF_BITS_REQ(bits)
__CPROVER_requires(VF_KEY_FRESH(key, key_len))
__CPROVER_requires(vf_d_n == 0)
__CPROVER_assigns(__CPROVER_object_whole(hctx))
VF_STREAM_GHOST_ASSIGNS
VF_HMAC_INIT_POST(key, key_len, hctx, VF_BLK, VF_HS)
__CPROVER_ensures(hctx->ctx.hash_size == VF_HS && hctx->ctx.block_size == VF_BLK && vf_s_bits == VF_HS)
;
static inline void
hmac_sha2_update(hmac_sha2_ctx_p hctx, const uint8_t *data, const size_t data_size)
__CPROVER_requires(__CPROVER_is_fresh(hctx, sizeof(hmac_sha2_ctx_t)))
__CPROVER_requires(data_size == 0 || __CPROVER_is_fresh(data, data_size))
__CPROVER_requires(vf_s_open == 1 && vf_s_ctx == &hctx->ctx)
__CPROVER_assigns(__CPROVER_object_upto(&hctx->ctx, sizeof(sha2_ctx_t)), vf_s_len, vf_s_at)
__CPROVER_ensures(vf_s_open == 1 && vf_s_len == __CPROVER_old(vf_s_len) + data_size)
__CPROVER_ensures(vf_s_at ==
    ((vf_s_k >= __CPROVER_old(vf_s_len) && vf_s_k - __CPROVER_old(vf_s_len) < data_size) ?
	data[vf_s_k - __CPROVER_old(vf_s_len)] : __CPROVER_old(vf_s_at)))
__CPROVER_ensures(hctx->ctx.hash_size == __CPROVER_old(hctx->ctx.hash_size) &&
    hctx->ctx.block_size == __CPROVER_old(hctx->ctx.block_size))
;
static inline void
hmac_sha2_final(hmac_sha2_ctx_p hctx, uint8_t *digest, size_t *digest_size)
__CPROVER_requires(__CPROVER_is_fresh(hctx, sizeof(hmac_sha2_ctx_t)))
__CPROVER_requires(__CPROVER_is_fresh(digest, VF_HS))
VF_SIZE_RET_REQ(digest_size)
__CPROVER_requires(vf_s_open == 1 && vf_s_ctx == &hctx->ctx && vf_d_n <= 1)
__CPROVER_requires(hctx->ctx.hash_size == VF_HS && hctx->ctx.block_size == VF_BLK && vf_s_bits == VF_HS)
__CPROVER_assigns(__CPROVER_object_whole(hctx), __CPROVER_object_upto(digest, VF_HS))
__CPROVER_assigns(digest_size != NULL: *digest_size)
VF_STREAM_GHOST_ASSIGNS
VF_HMAC_FINAL_POST(hctx, hmac_sha2_ctx_t, digest, VF_BLK, VF_HS)
VF_SIZE_RET_POST(digest_size, VF_HS)
;
static inline void
hmac_sha2(const size_t bits, const uint8_t *key, const size_t key_len,
    const uint8_t *data, const size_t data_size, uint8_t *digest, size_t *digest_size)
VF_BITS_REQ(bits)
__CPROVER_requires(VF_KEY_FRESH(key, key_len))
__CPROVER_requires(data_size == 0 || __CPROVER_is_fresh(data, data_size))
__CPROVER_requires(__CPROVER_is_fresh(digest, VF_HS))
VF_SIZE_RET_REQ(digest_size)
__CPROVER_requires(vf_d_n == 0)
__CPROVER_assigns(__CPROVER_object_upto(digest, VF_HS))
__CPROVER_assigns(digest_size != NULL: *digest_size)
VF_STREAM_GHOST_ASSIGNS
VF_HMAC_ONESHOT_POST(key, key_len, data, data_size, digest, VF_BLK, VF_HS)
VF_SIZE_RET_POST(digest_size, VF_HS)
;
static inline void
sha2_hmac_get_digest(const size_t bits, const void *key, const size_t key_size,
    const void *data, const size_t data_size, uint8_t *digest, size_t *digest_size)
VF_BITS_REQ(bits)
__CPROVER_requires(VF_KEY_FRESH(key, key_size))
__CPROVER_requires(data_size == 0 || __CPROVER_is_fresh(data, data_size))
__CPROVER_requires(__CPROVER_is_fresh(digest, VF_HS))
VF_SIZE_RET_REQ(digest_size)
__CPROVER_requires(vf_d_n == 0)
__CPROVER_assigns(__CPROVER_object_upto(digest, VF_HS))
__CPROVER_assigns(digest_size != NULL: *digest_size)
VF_STREAM_GHOST_ASSIGNS
VF_HMAC_ONESHOT_POST(key, key_size, data, data_size, digest, VF_BLK, VF_HS)
VF_SIZE_RET_POST(digest_size, VF_HS)
;
static inline void
sha2_hmac_get_digest_str(const size_t bits, const char *key, const size_t key_size,
    const char *data, const size_t data_size, char *digest_str, size_t *digest_str_size)
VF_BITS_REQ(bits)
__CPROVER_requires(VF_KEY_FRESH(key, key_size))
__CPROVER_requires(data_size == 0 || __CPROVER_is_fresh(data, data_size))
__CPROVER_requires(__CPROVER_is_fresh(digest_str, 2 * VF_HS + 1))
VF_SIZE_RET_REQ(digest_str_size)
__CPROVER_requires(vf_d_n == 0)
__CPROVER_assigns(__CPROVER_object_upto(digest_str, 2 * VF_HS + 1))
__CPROVER_assigns(digest_str_size != NULL: *digest_str_size)
VF_STREAM_GHOST_ASSIGNS
__CPROVER_ensures(vf_d_n == VF_HMAC_NK(key_size, VF_BLK) + 2)
VF_HEXSTR_POST(digest_str, VF_HS, vf_d_dig[VF_HMAC_NK(key_size, VF_BLK) + 1])
VF_SIZE_RET_POST(digest_str_size, 2 * VF_HS)
;

/* ---- C04: one-shot and hex-string entry points ---- */
static inline void
sha2_cvt_hex(const uint8_t *bin, const size_t bin_size, uint8_t *hex)
__CPROVER_requires(bin_size <= SHA2_HASH_MAX_SIZE)
__CPROVER_requires((bin_size == 0 || __CPROVER_r_ok(bin, bin_size)) && __CPROVER_w_ok(hex, 2 * bin_size + 1))
__CPROVER_assigns(__CPROVER_object_upto(hex, 2 * bin_size + 1))
VF_HEXSTR_POST(hex, bin_size, bin[vf_d_k])
;
static inline void
sha2_get_digest(const size_t bits, const void *data, const size_t data_size,
    uint8_t *digest, size_t *digest_size)
VF_BITS_REQ(bits)
__CPROVER_requires(data_size == 0 || __CPROVER_is_fresh(data, data_size))
__CPROVER_requires(__CPROVER_is_fresh(digest, VF_HS))
VF_SIZE_RET_REQ(digest_size)
__CPROVER_requires(vf_d_n == 0)
__CPROVER_assigns(__CPROVER_object_upto(digest, VF_HS))
__CPROVER_assigns(digest_size != NULL: *digest_size)
VF_STREAM_GHOST_ASSIGNS
VF_HASH_ONESHOT_POST(data, data_size, VF_HS)
__CPROVER_ensures(vf_d_k < VF_HS ==> digest[vf_d_k] == vf_d_dig[0])
VF_SIZE_RET_POST(digest_size, VF_HS)
;
static inline void
sha2_get_digest_str(const size_t bits, const char *data, const size_t data_size,
    char *digest_str, size_t *digest_str_size)
VF_BITS_REQ(bits)
__CPROVER_requires(data_size == 0 || __CPROVER_is_fresh(data, data_size))
__CPROVER_requires(__CPROVER_is_fresh(digest_str, 2 * VF_HS + 1))
VF_SIZE_RET_REQ(digest_str_size)
__CPROVER_requires(vf_d_n == 0)
__CPROVER_assigns(__CPROVER_object_upto(digest_str, 2 * VF_HS + 1))
__CPROVER_assigns(digest_str_size != NULL: *digest_str_size)
VF_STREAM_GHOST_ASSIGNS
VF_HASH_ONESHOT_POST(data, data_size, VF_HS)
VF_HEXSTR_POST(digest_str, VF_HS, vf_d_dig[0])
VF_SIZE_RET_POST(digest_str_size, 2 * VF_HS)
;
#endif /* VF_HASH_STREAM */

#endif /* !VF_REPLAY */
#endif
