/*
 * Contracts for src/utils/ini.c (C17; INI part of C12).  Redeclarations only: ini.c is
 * not edited.
 *
 * ORDER OF INCLUSION.  The store types (struct ini_s, struct ini_line_s) are private to
 * ini.c, so clauses that speak about the store cannot be written before the file has been
 * read.  Harness translation units therefore do
 *	#include "src/utils/ini.c"	(+ "src/utils/buf_str.c" for the parser)
 *	#include "specs/ini_spec.h"
 *	#include "contracts/ini.h"
 * CBMC 6.11 attaches the contract of a later redeclaration to the already defined function
 * (measured: a deliberately false ensures clause placed here fails).
 *
 * Domain of names (API as coded, stated as assumption in obligations/C17.json):
 * a section name is (NULL, 0) [the empty name] or >= 1 bytes; a value name is >= 1 bytes.
 * (non-NULL, 0) means "NUL terminated, take strlen" in ini_val_get/vali_get/val_set only.
 */
#ifndef VF_CONTRACTS_INI_H
#define VF_CONTRACTS_INI_H
#include "vf/vf.h"
#include <errno.h>

#ifndef VF_REPLAY
/* errno as CBMC's library models it (errno == *__errno_location() == __CPROVER_errno) */
extern __CPROVER_thread_local int __CPROVER_errno;

#define VF_INI_NAME_SPAN(p, n)	(((p) == NULL && (n) == 0) || ((n) != 0 && __CPROVER_r_ok((p), (n))))
#define VF_INI_VNAME_SPAN(p, n)	((n) != 0 && __CPROVER_r_ok((p), (n)))
/* out-parameters are harness-owned heap objects (separate from the store by construction) */
#define VF_INI_OUT(p)		((p) == NULL || __CPROVER_w_ok((p), sizeof(*(p))))

/* ---------------------------------------------------------------- enumeration ---- */
int
ini_sect_enum(const ini_p ini, size_t *sect_off,
    const uint8_t **sect_name, size_t *sect_name_size)
__CPROVER_requires(ini == NULL || vf_ini_wf(ini))
__CPROVER_requires(VF_INI_OUT(sect_off))
__CPROVER_requires(VF_INI_OUT(sect_name))
__CPROVER_requires(VF_INI_OUT(sect_name_size))
__CPROVER_assigns(sect_off != NULL: *sect_off)
__CPROVER_assigns(sect_name != NULL: *sect_name)
__CPROVER_assigns(sect_name_size != NULL: *sect_name_size)
/* yields the next section line in file order, ENOENT iff there is none, EINVAL iff NULL */
__CPROVER_ensures(vf_ini_post_sect_enum(ini, __CPROVER_old(*sect_off),
    __CPROVER_return_value, sect_off, sect_name, sect_name_size))
;

int
ini_sect_val_enum(const ini_p ini, const size_t sect_off, size_t *val_off,
    const uint8_t **val_name, size_t *val_name_size,
    const uint8_t **val, size_t *val_size)
__CPROVER_requires(ini == NULL || vf_ini_wf(ini))
__CPROVER_requires(VF_INI_OUT(val_off))
__CPROVER_requires(VF_INI_OUT(val_name))
__CPROVER_requires(VF_INI_OUT(val_name_size))
__CPROVER_requires(VF_INI_OUT(val))
__CPROVER_requires(VF_INI_OUT(val_size))
__CPROVER_assigns(val_off != NULL: *val_off)
__CPROVER_assigns(val_name != NULL: *val_name)
__CPROVER_assigns(val_name_size != NULL: *val_name_size)
__CPROVER_assigns(val != NULL: *val)
__CPROVER_assigns(val_size != NULL: *val_size)
/* next value line of the section in file order, never beyond the next section line */
__CPROVER_ensures(vf_ini_post_val_enum(ini, sect_off, __CPROVER_old(*val_off),
    __CPROVER_return_value, val_off, val_name, val_name_size, val, val_size))
;

/* --------------------------------------------------------------------- lookup ---- */
#define VF_INI_SECT_FIND_CONTRACT(fn, icase)					\
size_t fn(const ini_p ini, const uint8_t *sect_name, const size_t sect_name_size) \
__CPROVER_requires(ini == NULL || vf_ini_wf(ini))				\
__CPROVER_requires(VF_INI_NAME_SPAN(sect_name, sect_name_size))			\
__CPROVER_assigns()								\
/* the FIRST section line with that name; INI_OFFSET_INVALID iff there is none */ \
__CPROVER_ensures(__CPROVER_return_value == (ini == NULL ? INI_OFFSET_INVALID :	\
    vf_ini_spec_sect_find(ini, sect_name, sect_name_size, (icase))))		\
;
VF_INI_SECT_FIND_CONTRACT(ini_sect_find, 0)
VF_INI_SECT_FIND_CONTRACT(ini_sect_findi, 1)

#define VF_INI_VAL_FIND_CONTRACT(fn, icase)					\
size_t fn(const ini_p ini, const size_t sect_off,				\
    const uint8_t *val_name, const size_t val_name_size)			\
__CPROVER_requires(ini == NULL || vf_ini_wf(ini))				\
__CPROVER_requires(val_name == NULL || val_name_size == 0 ||			\
    VF_INI_VNAME_SPAN(val_name, val_name_size))					\
__CPROVER_assigns()								\
/* the FIRST value line of that section with that name, not beyond the next section */ \
__CPROVER_ensures(__CPROVER_return_value ==					\
    ((ini == NULL || val_name == NULL || val_name_size == 0) ? INI_OFFSET_INVALID : \
     vf_ini_spec_val_find(ini, sect_off, val_name, val_name_size, (icase))))	\
;
VF_INI_VAL_FIND_CONTRACT(ini_sect_val_find, 0)
VF_INI_VAL_FIND_CONTRACT(ini_sect_val_findi, 1)

#define VF_INI_VAL_GET_CONTRACT(fn, icase)					\
int fn(const ini_p ini,								\
    const uint8_t *sect_name, const size_t sect_name_size,			\
    const uint8_t *val_name, const size_t val_name_size,			\
    const uint8_t **val, size_t *val_size)					\
__CPROVER_requires(ini == NULL || vf_ini_wf(ini))				\
__CPROVER_requires(VF_INI_NAME_SPAN(sect_name, sect_name_size))			\
__CPROVER_requires(VF_INI_VNAME_SPAN(val_name, val_name_size))			\
__CPROVER_requires(VF_INI_OUT(val))						\
__CPROVER_requires(VF_INI_OUT(val_size))					\
__CPROVER_assigns(val != NULL: *val)						\
__CPROVER_assigns(val_size != NULL: *val_size)					\
/* ordered map: the value of the first matching line of the first matching section; \
 * ENOENT iff there is none; EINVAL iff a NULL argument */			\
__CPROVER_ensures(vf_ini_post_val_get(ini, sect_name, sect_name_size,		\
    val_name, val_name_size, (icase), __CPROVER_return_value, val, val_size))	\
;
VF_INI_VAL_GET_CONTRACT(ini_val_get, 0)
VF_INI_VAL_GET_CONTRACT(ini_vali_get, 1)

/* -------------------------------------------------------------- serialisation ---- */
int
ini_buf_calc_size(const ini_p ini, size_t *file_size)
__CPROVER_requires(ini == NULL || vf_ini_wf(ini))
__CPROVER_requires(VF_INI_OUT(file_size))
__CPROVER_assigns(file_size != NULL: *file_size)
/* equals the number of bytes generation writes */
__CPROVER_ensures(vf_ini_post_calc_size(ini, __CPROVER_return_value, file_size))
;

int
ini_buf_gen(const ini_p ini, uint8_t *buf, const size_t buf_size, size_t *buf_size_ret)
__CPROVER_requires(ini == NULL || vf_ini_wf(ini))
/* destination: exactly buf_size bytes */
__CPROVER_requires(buf == NULL || (__CPROVER_w_ok(buf, buf_size) &&
    __CPROVER_POINTER_OFFSET(buf) == 0 && __CPROVER_OBJECT_SIZE(buf) == buf_size))
__CPROVER_requires(VF_INI_OUT(buf_size_ret))
__CPROVER_assigns(buf != NULL && buf_size != 0: __CPROVER_object_upto(buf, buf_size))
__CPROVER_assigns(buf_size_ret != NULL: *buf_size_ret)
/* ghost position vf_ini_gk/gj (specs/ini_spec.h) stands for every byte of the text */
__CPROVER_ensures(vf_ini_post_gen(ini, buf, buf_size, __CPROVER_return_value,
    buf_size_ret))
;

/* ----------------------------------------------------------------- allocation ---- */
#ifdef VF_STUBS_INI_H	/* only in translation units that model the allocator (stubs/ini.h) */
/* a new record: header + size + 16 bytes requested, the capacity recorded in the record is
 * exactly the data area of that request (never the whole allocation), everything zero */
static ini_line_p
ini_line_alloc__int(const size_t size)
__CPROVER_requires(size <= VF_INI_FLDCAP)
__CPROVER_assigns(__CPROVER_object_whole(vf_ini_req), __CPROVER_errno)
__CPROVER_ensures(__CPROVER_return_value == NULL ||
    (__CPROVER_rw_ok(__CPROVER_return_value, sizeof(ini_line_t)) &&
     __CPROVER_POINTER_OFFSET(__CPROVER_return_value) == 0 &&
     __CPROVER_return_value->data == (uint8_t *)(__CPROVER_return_value + 1) &&
     VF_INI_REQ(__CPROVER_return_value) <= __CPROVER_OBJECT_SIZE(__CPROVER_return_value) &&
     VF_INI_REQ(__CPROVER_return_value) == sizeof(ini_line_t) + size + INI_LINE_ALLOC_PADDING &&
     __CPROVER_return_value->data_size == size &&
     __CPROVER_return_value->data_allocated_size ==
	VF_INI_REQ(__CPROVER_return_value) - sizeof(ini_line_t) &&
     __CPROVER_return_value->type == INI_LINE_TYPE_EMPTY_LINE &&
     __CPROVER_return_value->name == NULL && __CPROVER_return_value->val == NULL &&
     __CPROVER_return_value->name_size == 0 && __CPROVER_return_value->val_size == 0))
;
#endif

/* -------------------------------------------------------------------- parsing ---- */
int
ini_buf_parse(const ini_p ini, const uint8_t *buf, const size_t buf_size)
__CPROVER_requires(ini != NULL && vf_ini_wf(ini))
/* text: exactly buf_size bytes */
__CPROVER_requires(buf == NULL || (__CPROVER_r_ok(buf, buf_size) &&
    __CPROVER_POINTER_OFFSET(buf) == 0 && __CPROVER_OBJECT_SIZE(buf) == buf_size))
__CPROVER_assigns(ini->lines, ini->lines_count, ini->lines_allocated)
__CPROVER_assigns(ini->lines != NULL: __CPROVER_object_whole(ini->lines))
__CPROVER_assigns(__CPROVER_object_whole(vf_ini_req), __CPROVER_errno) /* allocator stubs: ghost table, errno */
__CPROVER_frees(ini->lines)
__CPROVER_ensures(vf_ini_post_parse(ini, __CPROVER_old(ini->lines_count), buf, buf_size,
    __CPROVER_return_value))
;

/* --------------------------------------------------------------------- update ---- */
#define VF_INI_LINE_TGT(i)	((i) < ini->lines_count && ini->lines[(i)] != NULL)
int
ini_val_set(const ini_p ini,
    const uint8_t *sect_name, const size_t sect_name_size,
    const uint8_t *val_name, const size_t val_name_size,
    const uint8_t *val, size_t val_size)
__CPROVER_requires(ini != NULL && vf_ini_wf(ini) && ini->lines_count <= VF_INI_MAXL)
__CPROVER_requires(VF_INI_NAME_SPAN(sect_name, sect_name_size))
__CPROVER_requires(VF_INI_VNAME_SPAN(val_name, val_name_size))
__CPROVER_requires(val_size == 0 || __CPROVER_r_ok(val, val_size))
/* frame: the store header, the line table, the (at most VF_INI_MAXL) existing records */
__CPROVER_assigns(ini->lines, ini->lines_count, ini->lines_allocated)
__CPROVER_assigns(ini->lines != NULL: __CPROVER_object_whole(ini->lines))
__CPROVER_assigns(ini->lines != NULL && VF_INI_LINE_TGT(0): __CPROVER_object_whole(ini->lines[0]))
__CPROVER_assigns(ini->lines != NULL && VF_INI_LINE_TGT(1): __CPROVER_object_whole(ini->lines[1]))
__CPROVER_assigns(ini->lines != NULL && VF_INI_LINE_TGT(2): __CPROVER_object_whole(ini->lines[2]))
__CPROVER_assigns(ini->lines != NULL && VF_INI_LINE_TGT(3): __CPROVER_object_whole(ini->lines[3]))
__CPROVER_assigns(__CPROVER_object_whole(vf_ini_req), __CPROVER_errno) /* allocator stubs: ghost table, errno */
__CPROVER_frees(ini->lines)
__CPROVER_frees(ini->lines != NULL && VF_INI_LINE_TGT(0): ini->lines[0])
__CPROVER_frees(ini->lines != NULL && VF_INI_LINE_TGT(1): ini->lines[1])
__CPROVER_frees(ini->lines != NULL && VF_INI_LINE_TGT(2): ini->lines[2])
__CPROVER_frees(ini->lines != NULL && VF_INI_LINE_TGT(3): ini->lines[3])
__CPROVER_ensures(vf_ini_post_val_set(ini, sect_name, sect_name_size, val_name,
    val_name_size, val, val_size, __CPROVER_return_value))
;

#endif /* !VF_REPLAY */
#endif
