/*
 * Contracts for src/utils/ini.c (C17; INI part of C12).  Redeclarations only: ini.c is
 * not edited.
 *
 * ORDER OF INCLUSION.  The store types (struct ini_s, struct ini_line_s) are private to
 * ini.c, so clauses that speak about the store cannot be written before the file has been
 * read.  Harness translation units therefore do
 *	#include "src/utils/ini.c"	(+ "src/utils/buf_str.c" for the parser)
 *	#include "specs/ini_spec.h"
 *	#include "contracts/ini.h"
 * CBMC 6.11 attaches the contract of a later redeclaration to the already defined function
 * (measured: a deliberately false ensures clause placed here fails).
 *
 * Domain of names (API as coded, stated as assumption in obligations/C17.json):
 * a section name is (NULL, 0) [the empty name] or >= 1 bytes; a value name is >= 1 bytes.
 * (non-NULL, 0) means "NUL terminated, take strlen" in ini_val_get/vali_get/val_set only.
 */
#ifndef VF_CONTRACTS_INI_H
#define VF_CONTRACTS_INI_H
#include "vf/vf.h"
#include <errno.h>

#ifndef VF_REPLAY

#define VF_INI_NAME_SPAN(p, n)	(((p) == NULL && (n) == 0) || ((n) != 0 && __CPROVER_r_ok((p), (n))))
#define VF_INI_VNAME_SPAN(p, n)	((n) != 0 && __CPROVER_r_ok((p), (n)))
/* out-parameters are harness-owned heap objects (separate from the store by construction) */
#define VF_INI_OUT(p)		((p) == NULL || __CPROVER_w_ok((p), sizeof(*(p))))

/* ---------------------------------------------------------------- enumeration ---- */
int
ini_sect_enum(const ini_p ini, size_t *sect_off,
    const uint8_t **sect_name, size_t *sect_name_size)
__CPROVER_requires(ini == NULL || vf_ini_wf(ini))
__CPROVER_requires(VF_INI_OUT(sect_off))
__CPROVER_requires(VF_INI_OUT(sect_name))
__CPROVER_requires(VF_INI_OUT(sect_name_size))
__CPROVER_assigns(sect_off != NULL: *sect_off)
__CPROVER_assigns(sect_name != NULL: *sect_name)
__CPROVER_assigns(sect_name_size != NULL: *sect_name_size)
__CPROVER_ensures(__CPROVER_return_value == 0 || __CPROVER_return_value == EINVAL ||
    __CPROVER_return_value == ENOENT)
__CPROVER_ensures((ini == NULL || sect_off == NULL) == (__CPROVER_return_value == EINVAL))
/* yields the next section line in file order, ENOENT iff there is none */
__CPROVER_ensures((ini != NULL && sect_off != NULL) ==>
    ((__CPROVER_return_value == 0) ==
     (vf_ini_spec_sect_next(ini, VF_INI_NORM(ini, __CPROVER_old(*sect_off))) != INI_OFFSET_INVALID)))
__CPROVER_ensures(__CPROVER_return_value == 0 ==>
    *sect_off == vf_ini_spec_sect_next(ini, VF_INI_NORM(ini, __CPROVER_old(*sect_off))))
__CPROVER_ensures((__CPROVER_return_value == 0 && sect_name != NULL) ==>
    *sect_name == ini->lines[*sect_off]->name)
__CPROVER_ensures((__CPROVER_return_value == 0 && sect_name_size != NULL) ==>
    *sect_name_size == ini->lines[*sect_off]->name_size)
;

int
ini_sect_val_enum(const ini_p ini, const size_t sect_off, size_t *val_off,
    const uint8_t **val_name, size_t *val_name_size,
    const uint8_t **val, size_t *val_size)
__CPROVER_requires(ini == NULL || vf_ini_wf(ini))
__CPROVER_requires(VF_INI_OUT(val_off))
__CPROVER_requires(VF_INI_OUT(val_name))
__CPROVER_requires(VF_INI_OUT(val_name_size))
__CPROVER_requires(VF_INI_OUT(val))
__CPROVER_requires(VF_INI_OUT(val_size))
__CPROVER_assigns(val_off != NULL: *val_off)
__CPROVER_assigns(val_name != NULL: *val_name)
__CPROVER_assigns(val_name_size != NULL: *val_name_size)
__CPROVER_assigns(val != NULL: *val)
__CPROVER_assigns(val_size != NULL: *val_size)
__CPROVER_ensures(__CPROVER_return_value == 0 || __CPROVER_return_value == EINVAL ||
    __CPROVER_return_value == ENOENT)
__CPROVER_ensures((ini == NULL || val_off == NULL) == (__CPROVER_return_value == EINVAL))
/* next value line of the section in file order, never beyond the next section line */
__CPROVER_ensures((ini != NULL && val_off != NULL) ==>
    ((__CPROVER_return_value == 0) ==
     (vf_ini_spec_val_next(ini, sect_off, __CPROVER_old(*val_off)) != INI_OFFSET_INVALID)))
__CPROVER_ensures(__CPROVER_return_value == 0 ==>
    *val_off == vf_ini_spec_val_next(ini, sect_off, __CPROVER_old(*val_off)))
__CPROVER_ensures((__CPROVER_return_value == 0 && val_name != NULL) ==>
    *val_name == ini->lines[*val_off]->name)
__CPROVER_ensures((__CPROVER_return_value == 0 && val_name_size != NULL) ==>
    *val_name_size == ini->lines[*val_off]->name_size)
__CPROVER_ensures((__CPROVER_return_value == 0 && val != NULL) ==>
    *val == ini->lines[*val_off]->val)
__CPROVER_ensures((__CPROVER_return_value == 0 && val_size != NULL) ==>
    *val_size == ini->lines[*val_off]->val_size)
;

/* --------------------------------------------------------------------- lookup ---- */
#define VF_INI_SECT_FIND_CONTRACT(fn, icase)					\
size_t fn(const ini_p ini, const uint8_t *sect_name, const size_t sect_name_size) \
__CPROVER_requires(ini == NULL || vf_ini_wf(ini))				\
__CPROVER_requires(VF_INI_NAME_SPAN(sect_name, sect_name_size))			\
__CPROVER_assigns()								\
/* the FIRST section line with that name; INI_OFFSET_INVALID iff there is none */ \
__CPROVER_ensures(ini == NULL ==> __CPROVER_return_value == INI_OFFSET_INVALID)	\
__CPROVER_ensures(ini != NULL ==> __CPROVER_return_value ==			\
    vf_ini_spec_sect_find(ini, sect_name, sect_name_size, (icase)))		\
;
VF_INI_SECT_FIND_CONTRACT(ini_sect_find, 0)
VF_INI_SECT_FIND_CONTRACT(ini_sect_findi, 1)

#define VF_INI_VAL_FIND_CONTRACT(fn, icase)					\
size_t fn(const ini_p ini, const size_t sect_off,				\
    const uint8_t *val_name, const size_t val_name_size)			\
__CPROVER_requires(ini == NULL || vf_ini_wf(ini))				\
__CPROVER_requires(val_name == NULL || val_name_size == 0 ||			\
    VF_INI_VNAME_SPAN(val_name, val_name_size))					\
__CPROVER_assigns()								\
__CPROVER_ensures((ini == NULL || val_name == NULL || val_name_size == 0) ==>	\
    __CPROVER_return_value == INI_OFFSET_INVALID)				\
/* the FIRST value line of that section with that name, not beyond the next section */ \
__CPROVER_ensures((ini != NULL && val_name != NULL && val_name_size != 0) ==>	\
    __CPROVER_return_value ==							\
    vf_ini_spec_val_find(ini, sect_off, val_name, val_name_size, (icase)))	\
;
VF_INI_VAL_FIND_CONTRACT(ini_sect_val_find, 0)
VF_INI_VAL_FIND_CONTRACT(ini_sect_val_findi, 1)

#define VF_INI_VAL_GET_CONTRACT(fn, icase)					\
int fn(const ini_p ini,								\
    const uint8_t *sect_name, const size_t sect_name_size,			\
    const uint8_t *val_name, const size_t val_name_size,			\
    const uint8_t **val, size_t *val_size)					\
__CPROVER_requires(ini == NULL || vf_ini_wf(ini))				\
__CPROVER_requires(VF_INI_NAME_SPAN(sect_name, sect_name_size))			\
__CPROVER_requires(VF_INI_VNAME_SPAN(val_name, val_name_size))			\
__CPROVER_requires(VF_INI_OUT(val))						\
__CPROVER_requires(VF_INI_OUT(val_size))					\
__CPROVER_assigns(val != NULL: *val)						\
__CPROVER_assigns(val_size != NULL: *val_size)					\
__CPROVER_ensures(__CPROVER_return_value == 0 || __CPROVER_return_value == EINVAL || \
    __CPROVER_return_value == ENOENT)						\
__CPROVER_ensures((ini == NULL || val == NULL || val_size == NULL) ==		\
    (__CPROVER_return_value == EINVAL))						\
/* ordered map: the value of the first matching line of the first matching section */ \
__CPROVER_ensures((ini != NULL && val != NULL && val_size != NULL) ==>		\
    ((__CPROVER_return_value == ENOENT) ==					\
     (vf_ini_spec_lookup(ini, sect_name, sect_name_size, val_name, val_name_size, \
      (icase)) == INI_OFFSET_INVALID)))						\
__CPROVER_ensures(__CPROVER_return_value == 0 ==>				\
    (*val == ini->lines[vf_ini_spec_lookup(ini, sect_name, sect_name_size,	\
	val_name, val_name_size, (icase))]->val &&				\
     *val_size == ini->lines[vf_ini_spec_lookup(ini, sect_name, sect_name_size,	\
	val_name, val_name_size, (icase))]->val_size))				\
;
VF_INI_VAL_GET_CONTRACT(ini_val_get, 0)
VF_INI_VAL_GET_CONTRACT(ini_vali_get, 1)

#endif /* !VF_REPLAY */
#endif
