/*
 * Contracts for include/proto/radius.h.
 *
 * Part 1 (C13): validation of a received packet and the attribute accessors.
 * Part 2 (C15, construction / signing side) is to be appended below the marker at the end;
 * it can reuse VF_RAD_PKT / vf_rad_span and the accessor contracts of part 1.
 *
 * Redeclarations only: the header itself is not edited.  Include BEFORE "proto/radius.h".
 *
 * Input model (property C13).
 *  - radius_pkt_chk(pkt, pkt_size) is the entry point for received bytes: `pkt` is an exact-size
 *    span of pkt_size hostile bytes, 0 <= pkt_size <= VF_RAD_PKT_MAX (65535, UDP), nothing else
 *    assumed.  Its postcondition establishes the "validated header" fact
 *            20 <= ntohs(pkt->len) <= pkt_size.
 *  - Every other function takes no size argument and trusts pkt->len ("Call after
 *    radius_pkt_chk() !!!" in the header).  Their precondition VF_RAD_PKT(pkt) is exactly that
 *    fact and nothing more: the span holds vf_rad_span bytes (ghost, set by the harness),
 *    20 <= ntohs(pkt->len) <= vf_rad_span; code, id, authenticator and ALL attribute bytes stay
 *    hostile (attribute lengths of 0 and 1, lengths running past the packet, garbage after the
 *    last attribute ...).  With -DVF_RAD_EXACT the span is exactly ntohs(pkt->len) bytes, so a
 *    read behind the packet is a failed pointer check even if a larger receive buffer would hide it.
 */
#ifndef VF_CONTRACTS_RADIUS_H
#define VF_CONTRACTS_RADIUS_H
#include "vf/vf.h"
#include <sys/types.h>
#include <errno.h>
#include <netinet/in.h>

#ifndef VF_RAD_PKT_MAX
#define VF_RAD_PKT_MAX		((size_t)65535)
#endif
#define VF_RAD_HDR_SIZE		((size_t)20)	/* sizeof(rad_pkt_hdr_t) */
#define VF_RAD_RFC_MAX		((size_t)4096)	/* RADIUS_PKT_MAX_SIZE */
#ifndef ENOATTR
#define VF_RAD_ENOATTR		ENODATA
#else
#define VF_RAD_ENOATTR		ENOATTR
#endif

/* byte k of the packet / the length field in host order (spec side, no ntohs call) */
#define VF_RAD_B(pkt, k)	(((const uint8_t *)(pkt))[(k)])
#define VF_RAD_LEN(pkt)		((size_t)((VF_RAD_B(pkt, 2) << 8) | VF_RAD_B(pkt, 3)))
/* packet codes accepted by radius_pkt_chk */
#define VF_RAD_CODE_OK(c)	(((c) >= 1 && (c) <= 5) || ((c) >= 11 && (c) <= 13) || ((c) >= 40 && (c) <= 45))

/* ---- RFC 2865 5 / RFC 2869 5.14: value lengths of the core attributes (specification) ---- */
#define VF_RAD_T_INT(t)	((t) == 5 || (t) == 6 || (t) == 7 || (t) == 10 || (t) == 12 || (t) == 13 ||	\
	(t) == 15 || (t) == 16 || (t) == 23 || (t) == 27 || (t) == 28 || (t) == 29 || (t) == 37 ||	\
	(t) == 38 || (t) == 61 || (t) == 62)
#define VF_RAD_T_ADDR(t)	((t) == 4 || (t) == 8 || (t) == 9 || (t) == 14)
#define VF_RAD_T_TEXT(t)	((t) == 1 || (t) == 11 || (t) == 18 || (t) == 19 || (t) == 20 || (t) == 22 ||	\
	(t) == 24 || (t) == 25 || (t) == 30 || (t) == 31 || (t) == 32 || (t) == 33 || (t) == 34 ||	\
	(t) == 35 || (t) == 39 || (t) == 63)
#define VF_RAD_T_KNOWN(t)	(VF_RAD_T_INT(t) || VF_RAD_T_ADDR(t) || VF_RAD_T_TEXT(t) || (t) == 2 ||	\
	(t) == 3 || (t) == 26 || (t) == 36 || (t) == 60 || (t) == 80)
#define VF_RAD_RFC_LEN_OK(t, l)	(							\
	(VF_RAD_T_INT(t) || VF_RAD_T_ADDR(t)) ? ((l) == 4) :				\
	VF_RAD_T_TEXT(t) ? ((l) >= 1) :							\
	(t) == 2 ? ((l) >= 16 && (l) <= 128) :	/* User-Password */			\
	(t) == 3 ? ((l) == 17) :		/* CHAP-Password: ident + 16 */		\
	(t) == 26 ? ((l) >= 5) :		/* Vendor-Specific: id + >= 1 */		\
	(t) == 36 ? ((l) == 32) :		/* Login-LAT-Group */			\
	(t) == 60 ? ((l) >= 5) :		/* CHAP-Challenge */			\
	(t) == 80 ? ((l) == 16) : 1)		/* Message-Authenticator */

/* ghost: number of bytes of the object `pkt` points to, for the functions without a size argument */
extern size_t vf_rad_span;

#ifndef VF_REPLAY
#define VF_RV			__CPROVER_return_value
#define VF_OUT_OPT(p, T)	((p) == NULL || __CPROVER_is_fresh((p), sizeof(T)))
#ifdef VF_RAD_EXACT
#define VF_RAD_SPAN_REL(pkt)	(VF_RAD_LEN(pkt) == vf_rad_span)
#else
#define VF_RAD_SPAN_REL(pkt)	(VF_RAD_LEN(pkt) <= vf_rad_span)
#endif
/* "validated header": what radius_pkt_chk's first test establishes, nothing about attributes */
#define VF_RAD_PKT(pkt)								\
	((pkt) == NULL || (vf_rad_span >= VF_RAD_HDR_SIZE && vf_rad_span <= VF_RAD_PKT_MAX &&	\
	    __CPROVER_is_fresh((pkt), vf_rad_span) &&				\
	    VF_RAD_HDR_SIZE <= VF_RAD_LEN(pkt) && VF_RAD_SPAN_REL(pkt)))

struct radius_pkt_hdr_s;
typedef struct radius_pkt_hdr_s *rad_pkt_hdr_p;
struct radius_pkt_attr_s;
typedef struct radius_pkt_attr_s *rad_pkt_attr_p;

/* attribute at byte offset `off` of pkt: header and value inside the packet length */
#define VF_RAD_ATTR_AT(pkt, off)						\
	(VF_RAD_HDR_SIZE <= (off) && (off) <= VF_RAD_LEN(pkt) && 2 <= VF_RAD_LEN(pkt) - (off) &&	\
	    2 <= VF_RAD_B(pkt, (off) + 1) && VF_RAD_B(pkt, (off) + 1) <= VF_RAD_LEN(pkt) - (off))
#define VF_RAD_PTR_AT(q, pkt, off)						\
	(__CPROVER_same_object((q), (pkt)) && VF_OFF(q) - VF_OFF(pkt) == (off))
/* returned pointer into the packet: in a replaced contract the pointer must be CONSTRUCTED inside
 * the packet object (pointer_in_range assigns base + nondet offset when assumed); a merely
 * havocked-and-constrained pointer is not followed by CBMC's dereferencing */
#define VF_RAD_RET_PTR(q, T, pkt)							\
	__CPROVER_pointer_in_range_dfcc((T)(pkt), (q), (T)((uint8_t *)(pkt) + VF_RAD_LEN(pkt)))
#define VF_RAD_KEEP(p)		((p) == NULL || *(p) == __CPROVER_old(*(p)))

/* ------------------------------------------------------------------------------
 * Whole packet
 * ---------------------------------------------------------------------------- */
static inline int
radius_pkt_chk(rad_pkt_hdr_p pkt, size_t pkt_size)
__CPROVER_requires(pkt_size <= VF_RAD_PKT_MAX)
__CPROVER_requires(pkt == NULL || __CPROVER_is_fresh(pkt, pkt_size))
__CPROVER_assigns()
__CPROVER_ensures(VF_RV == 0 || VF_RV == EINVAL || VF_RV == EBADMSG)
__CPROVER_ensures((VF_RV == EINVAL) == (pkt == NULL))
/* accepted => the length field describes bytes that were received */
__CPROVER_ensures(VF_RV == 0 ==> (VF_RAD_HDR_SIZE <= VF_RAD_LEN(pkt) && VF_RAD_LEN(pkt) <= pkt_size &&
    VF_RAD_LEN(pkt) <= VF_RAD_RFC_MAX && VF_RAD_CODE_OK(VF_RAD_B(pkt, 0))))
;

/* one attribute header (type, len) */
static inline int
radius_pkt_attr_chk(rad_pkt_attr_p attr)
__CPROVER_requires(attr == NULL || __CPROVER_is_fresh(attr, 2))
__CPROVER_assigns()
__CPROVER_ensures(VF_RV == 0 || VF_RV == EINVAL || VF_RV == EBADMSG)
__CPROVER_ensures((VF_RV == EINVAL) == (attr == NULL))
__CPROVER_ensures(VF_RV == 0 ==> (VF_RAD_B(attr, 0) != 0 && VF_RAD_B(attr, 1) >= 2))
;

/* ------------------------------------------------------------------------------
 * Attribute accessors (validated header, hostile attributes)
 * ---------------------------------------------------------------------------- */
static inline int
radius_pkt_attr_get_from_offset(rad_pkt_hdr_p pkt, size_t offset, rad_pkt_attr_p *attr_ret)
__CPROVER_requires(VF_RAD_PKT(pkt))
__CPROVER_requires(VF_OUT_OPT(attr_ret, rad_pkt_attr_p))
__CPROVER_assigns(attr_ret != NULL: *attr_ret)
__CPROVER_ensures(VF_RV == 0 || VF_RV == EINVAL || VF_RV == EBADMSG)
__CPROVER_ensures((VF_RV == EINVAL) == (pkt == NULL || attr_ret == NULL ||
    offset < VF_RAD_HDR_SIZE || offset > VF_RAD_LEN(pkt)))
/* the returned attribute, header and value, lies inside the packet */
__CPROVER_ensures(VF_RV == 0 ==> VF_RAD_ATTR_AT(pkt, offset))
__CPROVER_ensures(VF_RV == 0 ==> (VF_RAD_RET_PTR(*attr_ret, rad_pkt_attr_p, pkt) &&
    VF_RAD_PTR_AT(*attr_ret, pkt, offset)))
__CPROVER_ensures(VF_RV != 0 ==> VF_RAD_KEEP(attr_ret))
;

static inline int
radius_pkt_attr_find_raw(rad_pkt_hdr_p pkt, size_t offset, uint8_t attr_type,
    rad_pkt_attr_p *attr_ret, size_t *offset_ret)
__CPROVER_requires(VF_RAD_PKT(pkt))
__CPROVER_requires(VF_OUT_OPT(attr_ret, rad_pkt_attr_p))
__CPROVER_requires(VF_OUT_OPT(offset_ret, size_t))
__CPROVER_assigns(attr_ret != NULL: *attr_ret)
__CPROVER_assigns(offset_ret != NULL: *offset_ret)
__CPROVER_ensures(VF_RV == 0 || VF_RV == EINVAL || VF_RV == EBADMSG || VF_RV == VF_RAD_ENOATTR)
__CPROVER_ensures(pkt == NULL ==> VF_RV == EINVAL)
/* found: an attribute of the requested type, at or after the start offset, inside the packet */
__CPROVER_ensures((VF_RV == 0 && offset_ret != NULL) ==> VF_RAD_ATTR_AT(pkt, *offset_ret))
__CPROVER_ensures((VF_RV == 0 && offset_ret != NULL) ==> *offset_ret >= offset)
__CPROVER_ensures((VF_RV == 0 && offset_ret != NULL) ==> VF_RAD_B(pkt, *offset_ret) == attr_type)
__CPROVER_ensures((VF_RV == 0 && attr_ret != NULL) ==> VF_RAD_RET_PTR(*attr_ret, rad_pkt_attr_p, pkt))
__CPROVER_ensures((VF_RV == 0 && attr_ret != NULL) ==> VF_RAD_ATTR_AT(pkt, VF_OFF(*attr_ret) - VF_OFF(pkt)))
__CPROVER_ensures((VF_RV == 0 && attr_ret != NULL) ==> (VF_OFF(*attr_ret) - VF_OFF(pkt) >= offset &&
    VF_RAD_B(*attr_ret, 0) == attr_type))
__CPROVER_ensures((VF_RV == 0 && attr_ret != NULL && offset_ret != NULL) ==>
    VF_RAD_PTR_AT(*attr_ret, pkt, *offset_ret))
/* not found / malformed: the outputs are untouched */
__CPROVER_ensures(VF_RV != 0 ==> (VF_RAD_KEEP(attr_ret) && VF_RAD_KEEP(offset_ret)))
;

static inline int
radius_pkt_attr_find(rad_pkt_hdr_p pkt, size_t offset, uint8_t attr_type, size_t *offset_ret)
__CPROVER_requires(VF_RAD_PKT(pkt))
__CPROVER_requires(VF_OUT_OPT(offset_ret, size_t))
__CPROVER_assigns(offset_ret != NULL: *offset_ret)
__CPROVER_ensures(VF_RV == 0 || VF_RV == EINVAL || VF_RV == EBADMSG || VF_RV == VF_RAD_ENOATTR)
__CPROVER_ensures(pkt == NULL ==> VF_RV == EINVAL)
__CPROVER_ensures((VF_RV == 0 && offset_ret != NULL) ==> VF_RAD_ATTR_AT(pkt, *offset_ret))
__CPROVER_ensures((VF_RV == 0 && offset_ret != NULL) ==> *offset_ret >= offset)
__CPROVER_ensures((VF_RV == 0 && offset_ret != NULL) ==> VF_RAD_B(pkt, *offset_ret) == attr_type)
__CPROVER_ensures(VF_RV != 0 ==> VF_RAD_KEEP(offset_ret))
;

#define VF_RAD_DATA_OUT_PRE(type, data, len)					\
	__CPROVER_requires(VF_OUT_OPT(type, uint8_t))				\
	__CPROVER_requires(VF_OUT_OPT(data, uint8_t *))				\
	__CPROVER_requires(VF_OUT_OPT(len, size_t))				\
	__CPROVER_assigns(type != NULL: *type)					\
	__CPROVER_assigns(data != NULL: *data)					\
	__CPROVER_assigns(len != NULL: *len)

/* value of the attribute at `offset` as pointer / length */
static inline int
radius_pkt_attr_get_data_ptr_raw(rad_pkt_hdr_p pkt, size_t offset,
    uint8_t *type, uint8_t **data, size_t *len)
__CPROVER_requires(VF_RAD_PKT(pkt))
VF_RAD_DATA_OUT_PRE(type, data, len)
__CPROVER_ensures(VF_RV == 0 || VF_RV == EINVAL || VF_RV == EBADMSG)
__CPROVER_ensures((VF_RV == EINVAL) == (pkt == NULL || offset < VF_RAD_HDR_SIZE || offset > VF_RAD_LEN(pkt)))
__CPROVER_ensures(VF_RV == 0 ==> VF_RAD_ATTR_AT(pkt, offset))
__CPROVER_ensures((VF_RV == 0 && type != NULL) ==> *type == VF_RAD_B(pkt, offset))
__CPROVER_ensures((VF_RV == 0 && data != NULL) ==> (VF_RAD_RET_PTR(*data, uint8_t *, pkt) &&
    VF_RAD_PTR_AT(*data, pkt, offset + 2)))
__CPROVER_ensures((VF_RV == 0 && len != NULL) ==> *len == (size_t)VF_RAD_B(pkt, offset + 1) - 2)
/* the pointer / length pair lies inside the packet */
__CPROVER_ensures((VF_RV == 0 && data != NULL && len != NULL) ==> VF_INSIDE(*data, *len, pkt, VF_RAD_LEN(pkt)))
__CPROVER_ensures(VF_RV != 0 ==> (VF_RAD_KEEP(type) && VF_RAD_KEEP(data) && VF_RAD_KEEP(len)))
;

/* same; a User-Password value is cut at its first NUL */
static inline int
radius_pkt_attr_get_data_ptr(rad_pkt_hdr_p pkt, size_t offset,
    uint8_t *type, uint8_t **data, size_t *len)
__CPROVER_requires(VF_RAD_PKT(pkt))
VF_RAD_DATA_OUT_PRE(type, data, len)
__CPROVER_ensures(VF_RV == 0 || VF_RV == EINVAL || VF_RV == EBADMSG)
__CPROVER_ensures((VF_RV == EINVAL) == (pkt == NULL || offset < VF_RAD_HDR_SIZE || offset > VF_RAD_LEN(pkt)))
__CPROVER_ensures(VF_RV == 0 ==> VF_RAD_ATTR_AT(pkt, offset))
__CPROVER_ensures((VF_RV == 0 && type != NULL) ==> *type == VF_RAD_B(pkt, offset))
__CPROVER_ensures((VF_RV == 0 && data != NULL) ==> (VF_RAD_RET_PTR(*data, uint8_t *, pkt) &&
    VF_RAD_PTR_AT(*data, pkt, offset + 2)))
__CPROVER_ensures((VF_RV == 0 && len != NULL) ==> *len <= (size_t)VF_RAD_B(pkt, offset + 1) - 2)
__CPROVER_ensures((VF_RV == 0 && len != NULL && VF_RAD_B(pkt, offset) != 2) ==>
    *len == (size_t)VF_RAD_B(pkt, offset + 1) - 2)
__CPROVER_ensures((VF_RV == 0 && data != NULL && len != NULL) ==> VF_INSIDE(*data, *len, pkt, VF_RAD_LEN(pkt)))
__CPROVER_ensures(VF_RV != 0 ==> (VF_RAD_KEEP(type) && VF_RAD_KEEP(data) && VF_RAD_KEEP(len)))
;

/* concatenate the values of up to `count` attributes of `type` into buf */
static inline int
radius_pkt_attr_get_data_to_buf(rad_pkt_hdr_p pkt, size_t offset, size_t count,
    uint8_t type, uint8_t *buf, size_t buf_size, size_t *buf_size_ret)
__CPROVER_requires(VF_RAD_PKT(pkt))
__CPROVER_requires(buf_size <= VF_RAD_PKT_MAX)
__CPROVER_requires(__CPROVER_is_fresh(buf, buf_size))
__CPROVER_requires(VF_OUT_OPT(buf_size_ret, size_t))
__CPROVER_assigns(__CPROVER_object_upto(buf, buf_size))
__CPROVER_assigns(buf_size_ret != NULL: *buf_size_ret)
__CPROVER_ensures(VF_RV == 0 || VF_RV == EINVAL || VF_RV == EBADMSG || VF_RV == VF_RAD_ENOATTR)
/* never more than the caller's buffer holds */
__CPROVER_ensures(buf_size_ret != NULL ==> *buf_size_ret <= buf_size)
;

/* ------------------------------------------------------------------------------
 * Part 2 (C15): construction side.
 *
 * Input model: the packet lives in an exact-size fresh buffer of pkt_buf_size bytes
 * (vf_rad_span == pkt_buf_size, symbolic 0..VF_RAD_PKT_MAX: EVERY capacity), its header length
 * field says how much of it is used (20 <= ntohs(len) <= pkt_buf_size, VF_RAD_PKT without
 * VF_RAD_EXACT), everything already in the buffer is arbitrary.  Content is stated at the ghost
 * index vf_rad_k; the entry value of byte vf_rad_k of the buffer and the entry length are the
 * ghosts vf_rad_old / vf_rad_len_old (tied by VF_RAD_SNAP; __CPROVER_old cannot be guarded).
 * ---------------------------------------------------------------------------- */
extern size_t vf_rad_k;
extern size_t vf_rad_z;	/* second ghost index: position inside a zero padding */
extern size_t vf_rad_blk, vf_rad_m;	/* ghost: a 16-byte block of a hidden password, a byte of it */
extern uint8_t vf_rad_old;
extern size_t vf_rad_len_old;
#define VF_RAD_SNAP(pkt)							\
	__CPROVER_requires((pkt) == NULL || (vf_rad_len_old == VF_RAD_LEN(pkt) &&	\
	    (vf_rad_k >= vf_rad_span || vf_rad_old == VF_RAD_B(pkt, vf_rad_k))))
/* no byte below `lim` changes, except the two bytes of the length field */
#define VF_RAD_PREFIX_KEPT(pkt, lim)						\
	(vf_rad_k >= (lim) || vf_rad_k >= vf_rad_span || vf_rad_k == 2 || vf_rad_k == 3 ||	\
	    VF_RAD_B(pkt, vf_rad_k) == vf_rad_old)
#define VF_RAD_LEN_KEPT(pkt)	(VF_RAD_LEN(pkt) == vf_rad_len_old)
#define VF_RAD_DATA_MAX		((size_t)253)	/* RADIUS_ATTR_DATA_SIZE_MAX */

static inline int
radius_attr_len_chk(const uint8_t type, const uint8_t len)
__CPROVER_assigns()
__CPROVER_ensures(VF_RV == 0 || VF_RV == EINVAL)
__CPROVER_ensures((type == 0 || len == 0) ==> VF_RV == EINVAL)
/* the table agrees with the RFC for every attribute of RFC 2865 (and Message-Authenticator) */
__CPROVER_ensures((VF_RAD_T_KNOWN(type) && len != 0) ==> ((VF_RV == 0) == VF_RAD_RFC_LEN_OK(type, len)))
;

static inline int
radius_pkt_init(rad_pkt_hdr_p pkt, size_t pkt_buf_size, size_t *pkt_size_ret,
    uint8_t code, uint8_t id, uint8_t *authenticator)
__CPROVER_requires(pkt_buf_size <= VF_RAD_PKT_MAX)
__CPROVER_requires(pkt == NULL || __CPROVER_is_fresh(pkt, pkt_buf_size))
__CPROVER_requires(VF_OUT_OPT(pkt_size_ret, size_t))
__CPROVER_requires(authenticator == NULL || __CPROVER_is_fresh(authenticator, 16))
__CPROVER_assigns(pkt != NULL && pkt_buf_size >= VF_RAD_HDR_SIZE: __CPROVER_object_upto((uint8_t *)pkt, VF_RAD_HDR_SIZE))
__CPROVER_assigns(pkt_size_ret != NULL: *pkt_size_ret)
__CPROVER_ensures(VF_RV == 0 || VF_RV == EINVAL || VF_RV == EOVERFLOW)
__CPROVER_ensures(pkt == NULL ==> VF_RV == EINVAL)
__CPROVER_ensures((pkt != NULL && pkt_buf_size < VF_RAD_HDR_SIZE) ==> VF_RV == EOVERFLOW)
__CPROVER_ensures((pkt != NULL && pkt_size_ret != NULL) ==> *pkt_size_ret == VF_RAD_HDR_SIZE)
__CPROVER_ensures(VF_RV == 0 ==> VF_RAD_CODE_OK(code))
/* RFC 2865 3: code, identifier, length = 20, authenticator */
__CPROVER_ensures(VF_RV == 0 ==> (VF_RAD_B(pkt, 0) == code && VF_RAD_B(pkt, 1) == id &&
    VF_RAD_LEN(pkt) == VF_RAD_HDR_SIZE))
/* request authenticator: zero placeholder for the requests whose authenticator is computed over the
 * packet (Accounting-, Disconnect-, CoA-Request; RFC 2866 3, RFC 5176 2.3), else the given value */
#define VF_RAD_INIT_ZERO(code, a)	((code) == 4 || (code) == 40 || (code) == 43 || ((code) == 5 && (a) == NULL))
__CPROVER_ensures((VF_RV == 0 && !VF_RAD_INIT_ZERO(code, authenticator)) ==> authenticator != NULL)
__CPROVER_ensures((VF_RV == 0 && !VF_RAD_INIT_ZERO(code, authenticator) && vf_rad_k < 16) ==>
    VF_RAD_B(pkt, 4 + vf_rad_k) == authenticator[vf_rad_k])
__CPROVER_ensures((VF_RV == 0 && VF_RAD_INIT_ZERO(code, authenticator) && vf_rad_z < 16) ==> VF_RAD_B(pkt, 4 + vf_rad_z) == 0)
;

/* packet under construction: header length inside the buffer (and >= 20) */
#define VF_RAD_BUILD_PRE(pkt, pkt_buf_size)					\
	__CPROVER_requires(pkt_buf_size == vf_rad_span)				\
	__CPROVER_requires(VF_RAD_PKT(pkt))					\
	VF_RAD_SNAP(pkt)

/* reserve an attribute of `len` value bytes at the end of the packet */
static inline int
radius_pkt_attr_alloc_raw(rad_pkt_hdr_p pkt, size_t pkt_buf_size, size_t *pkt_size_ret,
    uint8_t type, uint8_t len, rad_pkt_attr_p *attr_ret, size_t *offset_ret)
VF_RAD_BUILD_PRE(pkt, pkt_buf_size)
__CPROVER_requires(VF_OUT_OPT(pkt_size_ret, size_t))
__CPROVER_requires(VF_OUT_OPT(attr_ret, rad_pkt_attr_p))
__CPROVER_requires(VF_OUT_OPT(offset_ret, size_t))
__CPROVER_assigns(pkt != NULL: __CPROVER_object_whole(pkt))
__CPROVER_assigns(pkt_size_ret != NULL: *pkt_size_ret)
__CPROVER_assigns(attr_ret != NULL: *attr_ret)
__CPROVER_assigns(offset_ret != NULL: *offset_ret)
__CPROVER_ensures(VF_RV == 0 || VF_RV == EINVAL || VF_RV == EOVERFLOW)
__CPROVER_ensures((VF_RV == EINVAL) == (pkt == NULL || len > VF_RAD_DATA_MAX))
/* size pre-check: EOVERFLOW iff it does not fit, the needed size is reported, nothing is written */
__CPROVER_ensures((pkt != NULL && len <= VF_RAD_DATA_MAX) ==>
    ((VF_RV == EOVERFLOW) == (vf_rad_len_old + 2 + len > pkt_buf_size)))
__CPROVER_ensures((VF_RV == 0 || VF_RV == EOVERFLOW) ==> (pkt_size_ret == NULL || *pkt_size_ret == vf_rad_len_old + 2 + len))
__CPROVER_ensures((pkt != NULL && VF_RV != 0) ==> (VF_RAD_LEN_KEPT(pkt) && (vf_rad_k >= vf_rad_span || VF_RAD_B(pkt, vf_rad_k) == vf_rad_old)))
/* success: pkt_len' == pkt_len + 2 + len <= buffer, attribute header written at the old end */
__CPROVER_ensures(VF_RV == 0 ==> (VF_RAD_LEN(pkt) == vf_rad_len_old + 2 + len && VF_RAD_LEN(pkt) <= pkt_buf_size &&
    VF_RAD_B(pkt, vf_rad_len_old) == type && VF_RAD_B(pkt, vf_rad_len_old + 1) == (uint8_t)(2 + len)))
__CPROVER_ensures(VF_RV == 0 ==> VF_RAD_PREFIX_KEPT(pkt, vf_rad_len_old))
__CPROVER_ensures((VF_RV == 0 && offset_ret != NULL) ==> *offset_ret == vf_rad_len_old)
__CPROVER_ensures((VF_RV == 0 && attr_ret != NULL) ==> (VF_RAD_RET_PTR(*attr_ret, rad_pkt_attr_p, pkt) &&
    VF_RAD_PTR_AT(*attr_ret, pkt, vf_rad_len_old)))
;

/* the same plus the value bytes */
static inline int
radius_pkt_attr_add_raw(rad_pkt_hdr_p pkt, size_t pkt_buf_size, size_t *pkt_size_ret,
    uint8_t type, uint8_t len, uint8_t *data, rad_pkt_attr_p *attr_ret, size_t *offset_ret)
VF_RAD_BUILD_PRE(pkt, pkt_buf_size)
__CPROVER_requires(data == NULL || __CPROVER_is_fresh(data, len == 0 ? 1 : len))
__CPROVER_requires(VF_OUT_OPT(pkt_size_ret, size_t))
__CPROVER_requires(VF_OUT_OPT(attr_ret, rad_pkt_attr_p))
__CPROVER_requires(VF_OUT_OPT(offset_ret, size_t))
__CPROVER_assigns(pkt != NULL: __CPROVER_object_whole(pkt))
__CPROVER_assigns(pkt_size_ret != NULL: *pkt_size_ret)
__CPROVER_assigns(attr_ret != NULL: *attr_ret)
__CPROVER_assigns(offset_ret != NULL: *offset_ret)
__CPROVER_ensures(VF_RV == 0 || VF_RV == EINVAL || VF_RV == EOVERFLOW)
__CPROVER_ensures((VF_RV == EINVAL) == (pkt == NULL || len > VF_RAD_DATA_MAX || (data == NULL && len != 0)))
__CPROVER_ensures((pkt != NULL && len <= VF_RAD_DATA_MAX && !(data == NULL && len != 0)) ==>
    ((VF_RV == EOVERFLOW) == (vf_rad_len_old + 2 + len > pkt_buf_size)))
__CPROVER_ensures((pkt != NULL && VF_RV != 0) ==> (VF_RAD_LEN_KEPT(pkt) && (vf_rad_k >= vf_rad_span || VF_RAD_B(pkt, vf_rad_k) == vf_rad_old)))
__CPROVER_ensures(VF_RV == 0 ==> (VF_RAD_LEN(pkt) == vf_rad_len_old + 2 + len && VF_RAD_LEN(pkt) <= pkt_buf_size &&
    VF_RAD_B(pkt, vf_rad_len_old) == type && VF_RAD_B(pkt, vf_rad_len_old + 1) == (uint8_t)(2 + len)))
__CPROVER_ensures((VF_RV == 0 && vf_rad_k < len) ==> VF_RAD_B(pkt, vf_rad_len_old + 2 + vf_rad_k) == data[vf_rad_k])
__CPROVER_ensures(VF_RV == 0 ==> VF_RAD_PREFIX_KEPT(pkt, vf_rad_len_old))
__CPROVER_ensures((VF_RV == 0 && offset_ret != NULL) ==> *offset_ret == vf_rad_len_old)
;

/* ---- User-Password hiding (RFC 2865 5.2): sizes and frame; the MD5 chain itself is stated in
 * harness/C15/radius_passwd.c with md5_* replaced by the ghost-stream stubs of stubs/radius_md5.h ---- */
#define VF_RAD_PW_MAX		((size_t)128)
#define VF_RAD_PW_ALIGNED(n)	((n) == 0 ? (size_t)16 : (((size_t)(n) + 15) & ~(size_t)15))
static inline int
radius_pkt_attr_password_encode(uint8_t *authenticator,
    uint8_t *password, size_t password_len, uint8_t *key, size_t key_len,
    uint8_t *buf, size_t buf_size, size_t *buf_size_ret)
__CPROVER_requires(key_len <= VF_RAD_PKT_MAX && buf_size <= VF_RAD_PKT_MAX)
__CPROVER_requires(authenticator == NULL || __CPROVER_r_ok(authenticator, 16))
__CPROVER_requires(password == NULL || password_len > VF_RAD_PW_MAX || password_len == 0 || __CPROVER_r_ok(password, password_len))
__CPROVER_requires(key == NULL || key_len == 0 || __CPROVER_r_ok(key, key_len))
__CPROVER_requires(buf == NULL || buf_size == 0 || __CPROVER_w_ok(buf, buf_size))
__CPROVER_requires(buf_size_ret == NULL || __CPROVER_w_ok(buf_size_ret, sizeof(size_t)))
__CPROVER_assigns(buf != NULL && buf_size != 0: __CPROVER_object_upto(buf, buf_size))
__CPROVER_assigns(buf_size_ret != NULL: *buf_size_ret)
__CPROVER_ensures(VF_RV == 0 || VF_RV == EINVAL || VF_RV == EOVERFLOW)
__CPROVER_ensures(password_len > VF_RAD_PW_MAX ==> VF_RV == EINVAL)
/* the padded size is reported for every acceptable length; too small a buffer is EOVERFLOW */
__CPROVER_ensures((password_len <= VF_RAD_PW_MAX && buf_size_ret != NULL) ==> *buf_size_ret == VF_RAD_PW_ALIGNED(password_len))
__CPROVER_ensures((password_len <= VF_RAD_PW_MAX && VF_RAD_PW_ALIGNED(password_len) > buf_size) ==> VF_RV == EOVERFLOW)
__CPROVER_ensures(VF_RV == EOVERFLOW ==> VF_RAD_PW_ALIGNED(password_len) > buf_size)
#ifdef VF_RAD_MD5_CHAIN
/* RFC 2865 5.2 with md5_* replaced by the ghost-stream contracts of stubs/radius_md5.h; block
 * vf_rad_blk, byte vf_rad_m of a block and stream position vf_md5_k are ghost indices:
 *   b_i = MD5(S || c_(i-1)),  c_0 = Request Authenticator,  c_i = p_i xor b_i,  p padded with zeros
 * (password and buf are distinct objects here; the in-place use by radius_pkt_sign is a separate job) */
__CPROVER_requires(vf_md5_n == 0)
__CPROVER_assigns(VF_MD5_GHOST_ASSIGNS)
__CPROVER_ensures(VF_RV == 0 ==> vf_md5_n == VF_RAD_PW_ALIGNED(password_len) / 16)
#define VF_RAD_CHAIN_BLK	(VF_RV == 0 && vf_rad_blk < VF_RAD_PW_ALIGNED(password_len) / 16)
__CPROVER_ensures(VF_RAD_CHAIN_BLK ==> vf_md5_len[vf_rad_blk] == key_len + 16)
__CPROVER_ensures((VF_RAD_CHAIN_BLK && vf_md5_k < key_len) ==> vf_md5_at[vf_rad_blk] == key[vf_md5_k])
__CPROVER_ensures((VF_RAD_CHAIN_BLK && vf_md5_k >= key_len && vf_md5_k - key_len < 16) ==>
    vf_md5_at[vf_rad_blk] == ((vf_rad_blk == 0) ? authenticator[vf_md5_k - key_len] :
	buf[16 * (vf_rad_blk - 1) + (vf_md5_k - key_len)]))
__CPROVER_ensures((VF_RAD_CHAIN_BLK && vf_rad_m < 16) ==> buf[16 * vf_rad_blk + vf_rad_m] ==
    (uint8_t)(((16 * vf_rad_blk + vf_rad_m < password_len) ? password[16 * vf_rad_blk + vf_rad_m] : 0) ^
	vf_md5_dig[vf_rad_blk][vf_rad_m]))
#endif
;

/* ---- Request / Response Authenticator (RFC 2865 3, RFC 2866 3, RFC 5176 2.3) ----
 * With md5_* replaced by the ghost-stream contracts of stubs/radius_md5.h (-DVF_RAD_MD5_CHAIN):
 * the input of the one MD5 computation, observed at the ghost position vf_md5_k, is
 *     Code || Identifier || Length || A || Attributes || Secret
 * A = the packet's own field (pkt_authenticator_inside: the field already holds the request
 * authenticator / zeros), 16 zero bytes (Accounting-, Disconnect-, CoA-Request), or the
 * authenticator of the request (responses).  Access-Request, Status-Server/-Client carry a random
 * authenticator: returned as is, nothing hashed. */
#ifdef VF_RAD_MD5_CHAIN
#define VF_RAD_CODE_RANDOM(c)	((c) == 1 || (c) == 12 || (c) == 13)
#define VF_RAD_CODE_ZEROAUTH(c)	((c) == 4 || (c) == 40 || (c) == 43)
#define VF_RAD_CODE_REPLY(c)	((c) == 2 || (c) == 3 || (c) == 11 || (c) == 5 || (c) == 41 || (c) == 42 || (c) == 44 || (c) == 45)
/* byte k of Code||Id||Len||A||Attrs||Secret */
#define VF_RAD_AUTH_INPUT(k, pkt, inside, pkt_req, key)				\
	(((k) < 4 || ((k) >= 20 && (k) < VF_RAD_LEN(pkt))) ? VF_RAD_B(pkt, k) :	\
	 ((k) < 20) ? ((inside) ? VF_RAD_B(pkt, k) : VF_RAD_CODE_ZEROAUTH(VF_RAD_B(pkt, 0)) ? (uint8_t)0 : VF_RAD_B(pkt_req, k)) : \
	 (key)[(k) - VF_RAD_LEN(pkt)])
static inline int
radius_pkt_authenticator_calc(rad_pkt_hdr_p pkt, uint8_t *key, size_t key_len,
    int pkt_authenticator_inside, rad_pkt_hdr_p pkt_req, uint8_t *authenticator)
__CPROVER_requires(key_len <= VF_RAD_PKT_MAX)
__CPROVER_requires(VF_RAD_PKT(pkt))
__CPROVER_requires(key == NULL || key_len == 0 || __CPROVER_is_fresh(key, key_len))
__CPROVER_requires(pkt_req == NULL || __CPROVER_is_fresh(pkt_req, VF_RAD_HDR_SIZE))
__CPROVER_requires(__CPROVER_is_fresh(authenticator, 16))
__CPROVER_requires(vf_md5_n == 0)
__CPROVER_assigns(__CPROVER_object_upto(authenticator, 16))
__CPROVER_assigns(VF_MD5_GHOST_ASSIGNS)
__CPROVER_ensures(VF_RV == 0 || VF_RV == EINVAL)
__CPROVER_ensures((pkt == NULL || (key == NULL && key_len != 0)) ==> VF_RV == EINVAL)
__CPROVER_ensures((pkt != NULL && !(key == NULL && key_len != 0) && VF_RAD_CODE_RANDOM(VF_RAD_B(pkt, 0))) ==>
    (VF_RV == 0 && vf_md5_n == 0 && (vf_rad_m >= 16 || authenticator[vf_rad_m] == VF_RAD_B(pkt, 4 + vf_rad_m))))
#define VF_RAD_AUTH_HASHED(pkt)	(VF_RV == 0 && !VF_RAD_CODE_RANDOM(VF_RAD_B(pkt, 0)))
__CPROVER_ensures(VF_RAD_AUTH_HASHED(pkt) ==> (vf_md5_n == 1 && vf_md5_len[0] == VF_RAD_LEN(pkt) + key_len &&
    VF_MD5_DIG_IS(authenticator, 0)))
__CPROVER_ensures((VF_RAD_AUTH_HASHED(pkt) && pkt_authenticator_inside == 0) ==>
    (VF_RAD_CODE_ZEROAUTH(VF_RAD_B(pkt, 0)) || (VF_RAD_CODE_REPLY(VF_RAD_B(pkt, 0)) && pkt_req != NULL)))
__CPROVER_ensures((VF_RAD_AUTH_HASHED(pkt) && vf_md5_k < VF_RAD_LEN(pkt) + key_len) ==>
    vf_md5_at[0] == VF_RAD_AUTH_INPUT(vf_md5_k, pkt, pkt_authenticator_inside != 0, pkt_req, key))
;

/* verification compares ALL 16 bytes of the packet's authenticator with the computed value */
static inline int
radius_pkt_authenticator_chk(rad_pkt_hdr_p pkt, uint8_t *key, size_t key_len,
    int pkt_authenticator_inside, rad_pkt_hdr_p pkt_req)
__CPROVER_requires(key_len <= VF_RAD_PKT_MAX)
__CPROVER_requires(VF_RAD_PKT(pkt))
__CPROVER_requires(key == NULL || key_len == 0 || __CPROVER_is_fresh(key, key_len))
__CPROVER_requires(pkt_req == NULL || __CPROVER_is_fresh(pkt_req, VF_RAD_HDR_SIZE))
__CPROVER_requires(vf_md5_n == 0)
__CPROVER_assigns(VF_MD5_GHOST_ASSIGNS)
__CPROVER_ensures(VF_RV == 0 || VF_RV == EINVAL || VF_RV == EBADMSG)
__CPROVER_ensures(pkt == NULL ==> VF_RV == EINVAL)
__CPROVER_ensures((pkt != NULL && VF_RAD_CODE_RANDOM(VF_RAD_B(pkt, 0))) ==> (VF_RV == 0 && vf_md5_n == 0))
/* accepted <=> the field equals the digest of Code||Id||Len||A||Attrs||Secret, byte for byte */
__CPROVER_ensures((pkt != NULL && !VF_RAD_CODE_RANDOM(VF_RAD_B(pkt, 0)) && VF_RV != EINVAL) ==>
    (vf_md5_n == 1 && vf_md5_len[0] == VF_RAD_LEN(pkt) + key_len &&
     ((VF_RV == 0) == VF_MD5_DIG_IS(&VF_RAD_B(pkt, 4), 0))))
__CPROVER_ensures((pkt != NULL && !VF_RAD_CODE_RANDOM(VF_RAD_B(pkt, 0)) && VF_RV != EINVAL &&
    vf_md5_k < VF_RAD_LEN(pkt) + key_len) ==>
    vf_md5_at[0] == VF_RAD_AUTH_INPUT(vf_md5_k, pkt, pkt_authenticator_inside != 0, pkt_req, key))
;

/* ---- Message-Authenticator (RFC 2869 5.14 / RFC 3579 3.2): HMAC-MD5, keyed with the secret, over
 *     Code || Id || Length || A || attributes with the 16 value bytes of the Message-Authenticator
 *     attribute taken as zero -- the WHOLE packet, the attributes after that attribute included.
 * hmac_md5_* replaced by the ghost contracts of stubs/radius_md5.h.  `attr` is the
 * Message-Authenticator attribute inside the packet, as radius_pkt_attr_find_raw /
 * radius_pkt_attr_get_from_offset return it (header and, if len == 18, value inside the packet).
 * A: as for the authenticator, except that an Accounting-Response answering a Status-Server uses the
 * request's authenticator (the rule FreeRADIUS implements). */
#define VF_RAD_MA_OFF(pkt, attr)	(VF_OFF(attr) - VF_OFF(pkt))
#define VF_RAD_MA_A_PKT(pkt, inside)	((inside) || VF_RAD_CODE_RANDOM(VF_RAD_B(pkt, 0)))
#define VF_RAD_MA_A_REQ(pkt, pkt_req)	(VF_RAD_B(pkt, 0) == 5 ? ((pkt_req) != NULL && VF_RAD_B(pkt_req, 0) == 12) : \
	(VF_RAD_CODE_REPLY(VF_RAD_B(pkt, 0))))
#define VF_RAD_MA_INPUT(k, pkt, o, inside, pkt_req)					\
	(((k) < 4) ? VF_RAD_B(pkt, k) :							\
	 ((k) < 20) ? (VF_RAD_MA_A_PKT(pkt, inside) ? VF_RAD_B(pkt, k) :			\
		       VF_RAD_MA_A_REQ(pkt, pkt_req) ? VF_RAD_B(pkt_req, k) : (uint8_t)0) :	\
	 ((k) >= (o) + 2 && (k) < (o) + 18) ? (uint8_t)0 : VF_RAD_B(pkt, k))
static inline int
radius_pkt_attr_msg_authenticator_calc(rad_pkt_hdr_p pkt, rad_pkt_attr_p attr,
    uint8_t *key, size_t key_len, int pkt_authenticator_inside, rad_pkt_hdr_p pkt_req,
    uint8_t *msg_authenticator)
__CPROVER_requires(key_len <= VF_RAD_PKT_MAX)
__CPROVER_requires(pkt != NULL && VF_RAD_PKT(pkt))
__CPROVER_requires(VF_RAD_RET_PTR(attr, rad_pkt_attr_p, pkt))
__CPROVER_requires(VF_RAD_MA_OFF(pkt, attr) >= VF_RAD_HDR_SIZE && VF_RAD_LEN(pkt) - VF_RAD_MA_OFF(pkt, attr) >= 2 &&
    VF_RAD_B(attr, 1) >= 2 && VF_RAD_B(attr, 1) <= VF_RAD_LEN(pkt) - VF_RAD_MA_OFF(pkt, attr))
__CPROVER_requires(key == NULL || key_len == 0 || __CPROVER_is_fresh(key, key_len))
__CPROVER_requires(pkt_req == NULL || __CPROVER_is_fresh(pkt_req, VF_RAD_HDR_SIZE))
__CPROVER_requires(__CPROVER_is_fresh(msg_authenticator, 16))
__CPROVER_requires(vf_hm_n == 0)
__CPROVER_assigns(__CPROVER_object_upto(msg_authenticator, 16))
__CPROVER_assigns(VF_HM_GHOST_ASSIGNS)
__CPROVER_ensures(VF_RV == 0 || VF_RV == EINVAL || VF_RV == EBADMSG)
__CPROVER_ensures((key == NULL && key_len != 0) ==> VF_RV == EINVAL)
__CPROVER_ensures((!(key == NULL && key_len != 0) && VF_RAD_B(attr, 1) != 18) ==> VF_RV == EBADMSG)
__CPROVER_ensures(VF_RV == 0 ==> (vf_hm_n == 1 && vf_hm_key[0] == key && vf_hm_key_len[0] == key_len &&
    vf_hm_len[0] == VF_RAD_LEN(pkt) && VF_HM_DIG_IS(msg_authenticator, 0)))
__CPROVER_ensures((VF_RV == 0 && vf_md5_k < VF_RAD_LEN(pkt)) ==> vf_hm_at[0] ==
    VF_RAD_MA_INPUT(vf_md5_k, pkt, VF_RAD_MA_OFF(pkt, attr), pkt_authenticator_inside != 0, pkt_req))
;

/* ---- in-place forms: the output lies INSIDE the packet (exact spans) -------------------------------
 * Pure contracts (no function of that name in radius.h): enforce / replace with
 *   radius_pkt_attr_msg_authenticator_calc/radius_pkt_attr_msg_authenticator_calc_inplace
 *   radius_pkt_authenticator_calc/radius_pkt_authenticator_calc_inplace
 * The hashed strings are stated over the packet AFTER the call: only the 16 output bytes change, and the
 * strings take those positions as zero (Message-Authenticator) / as the field's value at entry
 * (authenticator with pkt_authenticator_inside; ghost vf_rad_auth_old = byte vf_md5_k of the packet at
 * entry, tied by the SNAP_AUTH precondition). */
extern uint8_t vf_rad_auth_old;
#define VF_RAD_SNAP_AUTH(pkt)							\
	__CPROVER_requires((pkt) == NULL || vf_md5_k < 4 || vf_md5_k >= 20 || vf_rad_auth_old == VF_RAD_B(pkt, vf_md5_k))

int
radius_pkt_attr_msg_authenticator_calc_inplace(rad_pkt_hdr_p pkt, rad_pkt_attr_p attr,
    uint8_t *key, size_t key_len, int pkt_authenticator_inside, rad_pkt_hdr_p pkt_req,
    uint8_t *msg_authenticator)
__CPROVER_requires(key_len <= VF_RAD_PKT_MAX)
__CPROVER_requires(pkt != NULL && VF_RAD_PKT(pkt))
__CPROVER_requires(VF_RAD_RET_PTR(attr, rad_pkt_attr_p, pkt))
__CPROVER_requires(VF_RAD_MA_OFF(pkt, attr) >= VF_RAD_HDR_SIZE && VF_RAD_LEN(pkt) - VF_RAD_MA_OFF(pkt, attr) >= 2 &&
    VF_RAD_B(attr, 1) >= 2 && VF_RAD_B(attr, 1) <= VF_RAD_LEN(pkt) - VF_RAD_MA_OFF(pkt, attr))
__CPROVER_requires(key == NULL || key_len == 0 || __CPROVER_is_fresh(key, key_len))
__CPROVER_requires(pkt_req == NULL || __CPROVER_is_fresh(pkt_req, VF_RAD_HDR_SIZE))
/* the output IS the attribute's value */
__CPROVER_requires(VF_RAD_RET_PTR(msg_authenticator, uint8_t *, pkt) &&
    VF_OFF(msg_authenticator) == VF_OFF(attr) + 2)
__CPROVER_requires(vf_hm_n == 0)
__CPROVER_assigns(VF_RAD_B(attr, 1) == 18: __CPROVER_object_upto(msg_authenticator, 16))
__CPROVER_assigns(VF_HM_GHOST_ASSIGNS)
__CPROVER_ensures(VF_RV == 0 || VF_RV == EINVAL || VF_RV == EBADMSG)
__CPROVER_ensures((key == NULL && key_len != 0) ==> VF_RV == EINVAL)
__CPROVER_ensures((!(key == NULL && key_len != 0) && VF_RAD_B(attr, 1) != 18) ==> VF_RV == EBADMSG)
__CPROVER_ensures(VF_RV == 0 ==> (vf_hm_n == 1 && vf_hm_key[0] == key && vf_hm_key_len[0] == key_len &&
    vf_hm_len[0] == VF_RAD_LEN(pkt) && VF_HM_DIG_IS(msg_authenticator, 0)))
__CPROVER_ensures((VF_RV == 0 && vf_md5_k < VF_RAD_LEN(pkt)) ==> vf_hm_at[0] ==
    VF_RAD_MA_INPUT(vf_md5_k, pkt, VF_RAD_MA_OFF(pkt, attr), pkt_authenticator_inside != 0, pkt_req))
;

/* byte k of Code||Id||Len||A||Attrs||Secret when the result replaces the packet's own field */
#define VF_RAD_AUTH_INPUT_INPLACE(k, pkt, inside, pkt_req, key)			\
	(((k) < 4 || ((k) >= 20 && (k) < VF_RAD_LEN(pkt))) ? VF_RAD_B(pkt, k) :	\
	 ((k) < 20) ? ((inside) ? vf_rad_auth_old : VF_RAD_CODE_ZEROAUTH(VF_RAD_B(pkt, 0)) ? (uint8_t)0 : VF_RAD_B(pkt_req, k)) : \
	 (key)[(k) - VF_RAD_LEN(pkt)])
int
radius_pkt_authenticator_calc_inplace(rad_pkt_hdr_p pkt, uint8_t *key, size_t key_len,
    int pkt_authenticator_inside, rad_pkt_hdr_p pkt_req, uint8_t *authenticator)
__CPROVER_requires(key_len <= VF_RAD_PKT_MAX)
__CPROVER_requires(pkt != NULL && VF_RAD_PKT(pkt))
VF_RAD_SNAP_AUTH(pkt)
__CPROVER_requires(key == NULL || key_len == 0 || __CPROVER_is_fresh(key, key_len))
__CPROVER_requires(pkt_req == NULL || __CPROVER_is_fresh(pkt_req, VF_RAD_HDR_SIZE))
/* the output IS the packet's authenticator field */
__CPROVER_requires(VF_RAD_RET_PTR(authenticator, uint8_t *, pkt) && VF_OFF(authenticator) == VF_OFF(pkt) + 4)
__CPROVER_requires(vf_md5_n == 0)
__CPROVER_assigns(__CPROVER_object_upto(authenticator, 16))
__CPROVER_assigns(VF_MD5_GHOST_ASSIGNS)
__CPROVER_ensures(VF_RV == 0 || VF_RV == EINVAL)
__CPROVER_ensures((key == NULL && key_len != 0) ==> VF_RV == EINVAL)
/* random authenticators: the field is copied onto itself, i.e. unchanged */
__CPROVER_ensures((!(key == NULL && key_len != 0) && VF_RAD_CODE_RANDOM(VF_RAD_B(pkt, 0))) ==>
    (VF_RV == 0 && vf_md5_n == 0 && (vf_md5_k < 4 || vf_md5_k >= 20 || VF_RAD_B(pkt, vf_md5_k) == vf_rad_auth_old)))
__CPROVER_ensures(VF_RAD_AUTH_HASHED(pkt) ==> (vf_md5_n == 1 && vf_md5_len[0] == VF_RAD_LEN(pkt) + key_len &&
    VF_MD5_DIG_IS(authenticator, 0)))
__CPROVER_ensures((VF_RAD_AUTH_HASHED(pkt) && pkt_authenticator_inside == 0) ==>
    (VF_RAD_CODE_ZEROAUTH(VF_RAD_B(pkt, 0)) || (VF_RAD_CODE_REPLY(VF_RAD_B(pkt, 0)) && pkt_req != NULL)))
__CPROVER_ensures((VF_RAD_AUTH_HASHED(pkt) && vf_md5_k < VF_RAD_LEN(pkt) + key_len) ==>
    vf_md5_at[0] == VF_RAD_AUTH_INPUT_INPLACE(vf_md5_k, pkt, pkt_authenticator_inside != 0, pkt_req, key))
;

/* ---- drivers ------------------------------------------------------------------------------------ */
/* offset of the Message-Authenticator the two functions below worked on, when it can be named */
#define VF_RAD_MA_O(offset, offset_ret)	((offset) != 0 ? (offset) : *(offset_ret))
#define VF_RAD_MA_O_KNOWN(offset, offset_ret)	((offset) != 0 || (offset_ret) != NULL)
#define VF_RAD_MA_DRIVER_PRE(pkt, key, key_len, pkt_req, offset_ret)		\
	__CPROVER_requires(key_len <= VF_RAD_PKT_MAX)				\
	__CPROVER_requires(VF_RAD_PKT(pkt))					\
	__CPROVER_requires(key == NULL || key_len == 0 || __CPROVER_is_fresh(key, key_len))	\
	__CPROVER_requires(pkt_req == NULL || __CPROVER_is_fresh(pkt_req, VF_RAD_HDR_SIZE))	\
	__CPROVER_requires(VF_OUT_OPT(offset_ret, size_t))			\
	__CPROVER_requires(vf_hm_n == 0)

/* verify the Message-Authenticator at `offset` (0 = find it): accepted <=> its 16 value bytes equal
 * HMAC-MD5(secret, packet with those 16 bytes zeroed), byte for byte; -1 = there is none */
static inline int
radius_pkt_attr_msg_authenticator_chk(rad_pkt_hdr_p pkt, size_t offset,
    uint8_t *key, size_t key_len, int pkt_authenticator_inside, rad_pkt_hdr_p pkt_req,
    size_t *offset_ret)
VF_RAD_MA_DRIVER_PRE(pkt, key, key_len, pkt_req, offset_ret)
__CPROVER_assigns(offset_ret != NULL: *offset_ret)
__CPROVER_assigns(VF_HM_GHOST_ASSIGNS)
__CPROVER_ensures(VF_RV == 0 || VF_RV == -1 || VF_RV == EINVAL || VF_RV == EBADMSG)
__CPROVER_ensures(pkt == NULL ==> VF_RV == EINVAL)
__CPROVER_ensures((VF_RV == 0 || VF_RV == EBADMSG) ==> (offset_ret == NULL || offset == 0 || *offset_ret == offset))
/* accepted: a well-formed Message-Authenticator attribute at o whose value is the HMAC of the packet */
__CPROVER_ensures((VF_RV == 0 && VF_RAD_MA_O_KNOWN(offset, offset_ret)) ==>
    (VF_RAD_ATTR_AT(pkt, VF_RAD_MA_O(offset, offset_ret)) && VF_RAD_B(pkt, VF_RAD_MA_O(offset, offset_ret)) == 80 &&
     VF_RAD_B(pkt, VF_RAD_MA_O(offset, offset_ret) + 1) == 18))
__CPROVER_ensures(VF_RV == 0 ==> (vf_hm_n == 1 && vf_hm_key[0] == key && vf_hm_key_len[0] == key_len &&
    vf_hm_len[0] == VF_RAD_LEN(pkt)))
__CPROVER_ensures((VF_RV == 0 && VF_RAD_MA_O_KNOWN(offset, offset_ret)) ==>
    VF_HM_DIG_IS(&VF_RAD_B(pkt, VF_RAD_MA_O(offset, offset_ret) + 2), 0))
__CPROVER_ensures((VF_RV == 0 && VF_RAD_MA_O_KNOWN(offset, offset_ret) && vf_md5_k < VF_RAD_LEN(pkt)) ==> vf_hm_at[0] ==
    VF_RAD_MA_INPUT(vf_md5_k, pkt, VF_RAD_MA_O(offset, offset_ret), pkt_authenticator_inside != 0, pkt_req))
/* rejected with EBADMSG after a completed HMAC: some value byte differs from the digest (any mismatch rejects) */
__CPROVER_ensures((VF_RV == EBADMSG && vf_hm_n == 1 && VF_RAD_MA_O_KNOWN(offset, offset_ret) &&
    VF_RAD_ATTR_AT(pkt, VF_RAD_MA_O(offset, offset_ret)) && VF_RAD_B(pkt, VF_RAD_MA_O(offset, offset_ret) + 1) == 18) ==>
    !VF_HM_DIG_IS(&VF_RAD_B(pkt, VF_RAD_MA_O(offset, offset_ret) + 2), 0))
;

/* (re)compute the Message-Authenticator at `offset` (0 = find it) and store it in place */
static inline int
radius_pkt_attr_msg_authenticator_update(rad_pkt_hdr_p pkt, size_t offset,
    uint8_t *key, size_t key_len, int pkt_authenticator_inside, rad_pkt_hdr_p pkt_req,
    size_t *offset_ret)
VF_RAD_MA_DRIVER_PRE(pkt, key, key_len, pkt_req, offset_ret)
__CPROVER_assigns(pkt != NULL: __CPROVER_object_whole(pkt))
__CPROVER_assigns(offset_ret != NULL: *offset_ret)
__CPROVER_assigns(VF_HM_GHOST_ASSIGNS)
VF_RAD_SNAP(pkt)
__CPROVER_ensures(VF_RV == 0 || VF_RV == -1 || VF_RV == EINVAL || VF_RV == EBADMSG)
__CPROVER_ensures(pkt == NULL ==> VF_RV == EINVAL)
__CPROVER_ensures((VF_RV == 0 && VF_RAD_MA_O_KNOWN(offset, offset_ret)) ==>
    (VF_RAD_ATTR_AT(pkt, VF_RAD_MA_O(offset, offset_ret)) && VF_RAD_B(pkt, VF_RAD_MA_O(offset, offset_ret)) == 80 &&
     VF_RAD_B(pkt, VF_RAD_MA_O(offset, offset_ret) + 1) == 18))
/* the stored value is the HMAC of the packet as it now stands (value bytes taken as zero) */
__CPROVER_ensures(VF_RV == 0 ==> (vf_hm_n == 1 && vf_hm_key[0] == key && vf_hm_key_len[0] == key_len &&
    vf_hm_len[0] == VF_RAD_LEN(pkt)))
__CPROVER_ensures((VF_RV == 0 && VF_RAD_MA_O_KNOWN(offset, offset_ret)) ==>
    VF_HM_DIG_IS(&VF_RAD_B(pkt, VF_RAD_MA_O(offset, offset_ret) + 2), 0))
__CPROVER_ensures((VF_RV == 0 && VF_RAD_MA_O_KNOWN(offset, offset_ret) && vf_md5_k < VF_RAD_LEN(pkt)) ==> vf_hm_at[0] ==
    VF_RAD_MA_INPUT(vf_md5_k, pkt, VF_RAD_MA_O(offset, offset_ret), pkt_authenticator_inside != 0, pkt_req))
/* frame: only the 16 value bytes change */
__CPROVER_ensures((pkt != NULL && VF_RAD_MA_O_KNOWN(offset, offset_ret) && VF_RV == 0 && vf_rad_k < vf_rad_span &&
    !(vf_rad_k >= VF_RAD_MA_O(offset, offset_ret) + 2 && vf_rad_k < VF_RAD_MA_O(offset, offset_ret) + 18)) ==>
    VF_RAD_B(pkt, vf_rad_k) == vf_rad_old)
__CPROVER_ensures((pkt != NULL && (VF_RV == -1 || (VF_RV == EINVAL && vf_hm_n == 0)) && vf_rad_k < vf_rad_span) ==> VF_RAD_B(pkt, vf_rad_k) == vf_rad_old)
;

/* store the Response / Accounting-Request authenticator in the packet's field */
static inline int
radius_pkt_authenticator_update(rad_pkt_hdr_p pkt, uint8_t *key, size_t key_len,
    int pkt_authenticator_inside, rad_pkt_hdr_p pkt_req)
__CPROVER_requires(key_len <= VF_RAD_PKT_MAX)
__CPROVER_requires(VF_RAD_PKT(pkt))
VF_RAD_SNAP_AUTH(pkt)
VF_RAD_SNAP(pkt)
__CPROVER_requires(key == NULL || key_len == 0 || __CPROVER_is_fresh(key, key_len))
__CPROVER_requires(pkt_req == NULL || __CPROVER_is_fresh(pkt_req, VF_RAD_HDR_SIZE))
__CPROVER_requires(vf_md5_n == 0)
__CPROVER_assigns(pkt != NULL: __CPROVER_object_upto((uint8_t *)pkt + 4, 16))
__CPROVER_assigns(VF_MD5_GHOST_ASSIGNS)
__CPROVER_ensures(VF_RV == 0 || VF_RV == EINVAL)
__CPROVER_ensures(pkt == NULL ==> VF_RV == EINVAL)
__CPROVER_ensures((pkt != NULL && VF_RAD_CODE_RANDOM(VF_RAD_B(pkt, 0))) ==> (VF_RV == 0 && vf_md5_n == 0 &&
    (vf_md5_k < 4 || vf_md5_k >= 20 || VF_RAD_B(pkt, vf_md5_k) == vf_rad_auth_old)))
/* the field now holds MD5(Code||Id||Len||A||Attrs||Secret) of the packet as it stands */
__CPROVER_ensures((pkt != NULL && VF_RAD_AUTH_HASHED(pkt)) ==> (vf_md5_n == 1 && vf_md5_len[0] == VF_RAD_LEN(pkt) + key_len &&
    VF_MD5_DIG_IS(&VF_RAD_B(pkt, 4), 0)))
__CPROVER_ensures((pkt != NULL && VF_RAD_AUTH_HASHED(pkt) && vf_md5_k < VF_RAD_LEN(pkt) + key_len) ==>
    vf_md5_at[0] == VF_RAD_AUTH_INPUT_INPLACE(vf_md5_k, pkt, pkt_authenticator_inside != 0, pkt_req, key))
/* frame: nothing outside the field */
__CPROVER_ensures((pkt != NULL && vf_rad_k < vf_rad_span && (vf_rad_k < 4 || vf_rad_k >= 20)) ==> VF_RAD_B(pkt, vf_rad_k) == vf_rad_old)
;
#endif /* VF_RAD_MD5_CHAIN */

/* value bytes the attribute occupies: User-Password is padded to 16 (RFC 2865 5.2), a
 * Message-Authenticator placeholder is 16 zero bytes, everything else as given */
#define VF_RAD_ADD_VLEN(type, len)						\
	((type) == 2 ? ((len) == 0 ? (size_t)16 : (((size_t)(len) + 15) & ~(size_t)15)) :	\
	 (type) == 80 ? (size_t)16 : (size_t)(len))

/* type-checked append (RFC length rules, single User-Password / CHAP-Password / Message-Authenticator) */
static inline int
radius_pkt_attr_add(rad_pkt_hdr_p pkt, size_t pkt_buf_size, size_t *pkt_size_ret,
    uint8_t type, uint8_t len, uint8_t *data, size_t *offset_ret)
VF_RAD_BUILD_PRE(pkt, pkt_buf_size)
__CPROVER_requires(data == NULL || __CPROVER_is_fresh(data, len == 0 ? 1 : len))
__CPROVER_requires(type == 80 || data != NULL)	/* every in-tree caller passes the value; 80 = placeholder */
__CPROVER_requires(VF_OUT_OPT(pkt_size_ret, size_t))
__CPROVER_requires(VF_OUT_OPT(offset_ret, size_t))
__CPROVER_assigns(pkt != NULL: __CPROVER_object_whole(pkt))
__CPROVER_assigns(pkt_size_ret != NULL: *pkt_size_ret)
__CPROVER_assigns(offset_ret != NULL: *offset_ret)
__CPROVER_ensures(VF_RV == 0 || VF_RV == EINVAL || VF_RV == EOVERFLOW || VF_RV == EEXIST || VF_RV == EBADMSG)
__CPROVER_ensures((pkt == NULL || type == 0) ==> VF_RV == EINVAL)
/* success: the attribute sits at the old end, new length = old + 2 + value bytes <= buffer */
__CPROVER_ensures(VF_RV == 0 ==> (VF_RAD_LEN(pkt) == vf_rad_len_old + 2 + VF_RAD_ADD_VLEN(type, len) &&
    VF_RAD_LEN(pkt) <= pkt_buf_size && VF_RAD_B(pkt, vf_rad_len_old) == type &&
    VF_RAD_B(pkt, vf_rad_len_old + 1) == (uint8_t)(2 + VF_RAD_ADD_VLEN(type, len))))
__CPROVER_ensures((VF_RV == 0 && type != 80 && vf_rad_k < len) ==>
    VF_RAD_B(pkt, vf_rad_len_old + 2 + vf_rad_k) == data[vf_rad_k])
__CPROVER_ensures((VF_RV == 0 && type == 2 && vf_rad_z < VF_RAD_ADD_VLEN(type, len) - len) ==>
    VF_RAD_B(pkt, vf_rad_len_old + 2 + len + vf_rad_z) == 0)
__CPROVER_ensures((VF_RV == 0 && type == 80 && vf_rad_z < 16) ==> VF_RAD_B(pkt, vf_rad_len_old + 2 + vf_rad_z) == 0)
/* a well-formed value that fits IS accepted (User-Password included) */
__CPROVER_ensures((pkt != NULL && VF_RAD_T_KNOWN(type) && type != 2 && type != 3 && type != 80 && len != 0 &&
    VF_RAD_RFC_LEN_OK(type, len) && vf_rad_len_old + 2 + len <= pkt_buf_size) ==> VF_RV == 0)
__CPROVER_ensures((VF_RV == EOVERFLOW) ==> vf_rad_len_old + 2 + VF_RAD_ADD_VLEN(type, len) > pkt_buf_size)
__CPROVER_ensures(VF_RV == 0 ==> VF_RAD_PREFIX_KEPT(pkt, vf_rad_len_old))
__CPROVER_ensures((pkt != NULL && VF_RV != 0) ==> (VF_RAD_LEN_KEPT(pkt) && (vf_rad_k >= vf_rad_span || VF_RAD_B(pkt, vf_rad_k) == vf_rad_old)))
__CPROVER_ensures((VF_RV == 0 && offset_ret != NULL) ==> *offset_ret == vf_rad_len_old)
;

#endif /* !VF_REPLAY */
#endif /* VF_CONTRACTS_RADIUS_H */
