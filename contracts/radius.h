/*
 * Contracts for include/proto/radius.h.
 *
 * Part 1 (C13): validation of a received packet and the attribute accessors.
 * Part 2 (C15, construction / signing side) is to be appended below the marker at the end;
 * it can reuse VF_RAD_PKT / vf_rad_span and the accessor contracts of part 1.
 *
 * Redeclarations only: the header itself is not edited.  Include BEFORE "proto/radius.h".
 *
 * Input model (property C13).
 *  - radius_pkt_chk(pkt, pkt_size) is the entry point for received bytes: `pkt` is an exact-size
 *    span of pkt_size hostile bytes, 0 <= pkt_size <= VF_RAD_PKT_MAX (65535, UDP), nothing else
 *    assumed.  Its postcondition establishes the "validated header" fact
 *            20 <= ntohs(pkt->len) <= pkt_size.
 *  - Every other function takes no size argument and trusts pkt->len ("Call after
 *    radius_pkt_chk() !!!" in the header).  Their precondition VF_RAD_PKT(pkt) is exactly that
 *    fact and nothing more: the span holds vf_rad_span bytes (ghost, set by the harness),
 *    20 <= ntohs(pkt->len) <= vf_rad_span; code, id, authenticator and ALL attribute bytes stay
 *    hostile (attribute lengths of 0 and 1, lengths running past the packet, garbage after the
 *    last attribute ...).  With -DVF_RAD_EXACT the span is exactly ntohs(pkt->len) bytes, so a
 *    read behind the packet is a failed pointer check even if a larger receive buffer would hide it.
 */
#ifndef VF_CONTRACTS_RADIUS_H
#define VF_CONTRACTS_RADIUS_H
#include "vf/vf.h"
#include <sys/types.h>
#include <errno.h>
#include <netinet/in.h>

#ifndef VF_RAD_PKT_MAX
#define VF_RAD_PKT_MAX		((size_t)65535)
#endif
#define VF_RAD_HDR_SIZE		((size_t)20)	/* sizeof(rad_pkt_hdr_t) */
#define VF_RAD_RFC_MAX		((size_t)4096)	/* RADIUS_PKT_MAX_SIZE */
#ifndef ENOATTR
#define VF_RAD_ENOATTR		ENODATA
#else
#define VF_RAD_ENOATTR		ENOATTR
#endif

/* byte k of the packet / the length field in host order (spec side, no ntohs call) */
#define VF_RAD_B(pkt, k)	(((const uint8_t *)(pkt))[(k)])
#define VF_RAD_LEN(pkt)		((size_t)((VF_RAD_B(pkt, 2) << 8) | VF_RAD_B(pkt, 3)))
/* packet codes accepted by radius_pkt_chk */
#define VF_RAD_CODE_OK(c)	(((c) >= 1 && (c) <= 5) || ((c) >= 11 && (c) <= 13) || ((c) >= 40 && (c) <= 45))

/* ghost: number of bytes of the object `pkt` points to, for the functions without a size argument */
extern size_t vf_rad_span;

#ifndef VF_REPLAY
#define VF_RV			__CPROVER_return_value
#define VF_OUT_OPT(p, T)	((p) == NULL || __CPROVER_is_fresh((p), sizeof(T)))
#ifdef VF_RAD_EXACT
#define VF_RAD_SPAN_REL(pkt)	(VF_RAD_LEN(pkt) == vf_rad_span)
#else
#define VF_RAD_SPAN_REL(pkt)	(VF_RAD_LEN(pkt) <= vf_rad_span)
#endif
/* "validated header": what radius_pkt_chk's first test establishes, nothing about attributes */
#define VF_RAD_PKT(pkt)								\
	((pkt) == NULL || (vf_rad_span >= VF_RAD_HDR_SIZE && vf_rad_span <= VF_RAD_PKT_MAX &&	\
	    __CPROVER_is_fresh((pkt), vf_rad_span) &&				\
	    VF_RAD_HDR_SIZE <= VF_RAD_LEN(pkt) && VF_RAD_SPAN_REL(pkt)))

struct radius_pkt_hdr_s;
typedef struct radius_pkt_hdr_s *rad_pkt_hdr_p;
struct radius_pkt_attr_s;
typedef struct radius_pkt_attr_s *rad_pkt_attr_p;

/* attribute at byte offset `off` of pkt: header and value inside the packet length */
#define VF_RAD_ATTR_AT(pkt, off)						\
	(VF_RAD_HDR_SIZE <= (off) && (off) <= VF_RAD_LEN(pkt) && 2 <= VF_RAD_LEN(pkt) - (off) &&	\
	    2 <= VF_RAD_B(pkt, (off) + 1) && VF_RAD_B(pkt, (off) + 1) <= VF_RAD_LEN(pkt) - (off))
#define VF_RAD_PTR_AT(q, pkt, off)						\
	(__CPROVER_same_object((q), (pkt)) && VF_OFF(q) - VF_OFF(pkt) == (off))
/* returned pointer into the packet: in a replaced contract the pointer must be CONSTRUCTED inside
 * the packet object (pointer_in_range assigns base + nondet offset when assumed); a merely
 * havocked-and-constrained pointer is not followed by CBMC's dereferencing */
#define VF_RAD_RET_PTR(q, T, pkt)							\
	__CPROVER_pointer_in_range_dfcc((T)(pkt), (q), (T)((uint8_t *)(pkt) + VF_RAD_LEN(pkt)))
#define VF_RAD_KEEP(p)		((p) == NULL || *(p) == __CPROVER_old(*(p)))

/* ------------------------------------------------------------------------------
 * Whole packet
 * ---------------------------------------------------------------------------- */
static inline int
radius_pkt_chk(rad_pkt_hdr_p pkt, size_t pkt_size)
__CPROVER_requires(pkt_size <= VF_RAD_PKT_MAX)
__CPROVER_requires(pkt == NULL || __CPROVER_is_fresh(pkt, pkt_size))
__CPROVER_assigns()
__CPROVER_ensures(VF_RV == 0 || VF_RV == EINVAL || VF_RV == EBADMSG)
__CPROVER_ensures((VF_RV == EINVAL) == (pkt == NULL))
/* accepted => the length field describes bytes that were received */
__CPROVER_ensures(VF_RV == 0 ==> (VF_RAD_HDR_SIZE <= VF_RAD_LEN(pkt) && VF_RAD_LEN(pkt) <= pkt_size &&
    VF_RAD_LEN(pkt) <= VF_RAD_RFC_MAX && VF_RAD_CODE_OK(VF_RAD_B(pkt, 0))))
;

/* one attribute header (type, len) */
static inline int
radius_pkt_attr_chk(rad_pkt_attr_p attr)
__CPROVER_requires(attr == NULL || __CPROVER_is_fresh(attr, 2))
__CPROVER_assigns()
__CPROVER_ensures(VF_RV == 0 || VF_RV == EINVAL || VF_RV == EBADMSG)
__CPROVER_ensures((VF_RV == EINVAL) == (attr == NULL))
__CPROVER_ensures(VF_RV == 0 ==> (VF_RAD_B(attr, 0) != 0 && VF_RAD_B(attr, 1) >= 2))
;

/* ------------------------------------------------------------------------------
 * Attribute accessors (validated header, hostile attributes)
 * ---------------------------------------------------------------------------- */
static inline int
radius_pkt_attr_get_from_offset(rad_pkt_hdr_p pkt, size_t offset, rad_pkt_attr_p *attr_ret)
__CPROVER_requires(VF_RAD_PKT(pkt))
__CPROVER_requires(VF_OUT_OPT(attr_ret, rad_pkt_attr_p))
__CPROVER_assigns(attr_ret != NULL: *attr_ret)
__CPROVER_ensures(VF_RV == 0 || VF_RV == EINVAL || VF_RV == EBADMSG)
__CPROVER_ensures((VF_RV == EINVAL) == (pkt == NULL || attr_ret == NULL ||
    offset < VF_RAD_HDR_SIZE || offset > VF_RAD_LEN(pkt)))
/* the returned attribute, header and value, lies inside the packet */
__CPROVER_ensures(VF_RV == 0 ==> VF_RAD_ATTR_AT(pkt, offset))
__CPROVER_ensures(VF_RV == 0 ==> (VF_RAD_RET_PTR(*attr_ret, rad_pkt_attr_p, pkt) &&
    VF_RAD_PTR_AT(*attr_ret, pkt, offset)))
__CPROVER_ensures(VF_RV != 0 ==> VF_RAD_KEEP(attr_ret))
;

static inline int
radius_pkt_attr_find_raw(rad_pkt_hdr_p pkt, size_t offset, uint8_t attr_type,
    rad_pkt_attr_p *attr_ret, size_t *offset_ret)
__CPROVER_requires(VF_RAD_PKT(pkt))
__CPROVER_requires(VF_OUT_OPT(attr_ret, rad_pkt_attr_p))
__CPROVER_requires(VF_OUT_OPT(offset_ret, size_t))
__CPROVER_assigns(attr_ret != NULL: *attr_ret)
__CPROVER_assigns(offset_ret != NULL: *offset_ret)
__CPROVER_ensures(VF_RV == 0 || VF_RV == EINVAL || VF_RV == EBADMSG || VF_RV == VF_RAD_ENOATTR)
__CPROVER_ensures(pkt == NULL ==> VF_RV == EINVAL)
/* found: an attribute of the requested type, at or after the start offset, inside the packet */
__CPROVER_ensures((VF_RV == 0 && offset_ret != NULL) ==> VF_RAD_ATTR_AT(pkt, *offset_ret))
__CPROVER_ensures((VF_RV == 0 && offset_ret != NULL) ==> *offset_ret >= offset)
__CPROVER_ensures((VF_RV == 0 && offset_ret != NULL) ==> VF_RAD_B(pkt, *offset_ret) == attr_type)
__CPROVER_ensures((VF_RV == 0 && attr_ret != NULL) ==> VF_RAD_RET_PTR(*attr_ret, rad_pkt_attr_p, pkt))
__CPROVER_ensures((VF_RV == 0 && attr_ret != NULL) ==> VF_RAD_ATTR_AT(pkt, VF_OFF(*attr_ret) - VF_OFF(pkt)))
__CPROVER_ensures((VF_RV == 0 && attr_ret != NULL) ==> (VF_OFF(*attr_ret) - VF_OFF(pkt) >= offset &&
    VF_RAD_B(*attr_ret, 0) == attr_type))
__CPROVER_ensures((VF_RV == 0 && attr_ret != NULL && offset_ret != NULL) ==>
    VF_RAD_PTR_AT(*attr_ret, pkt, *offset_ret))
;

static inline int
radius_pkt_attr_find(rad_pkt_hdr_p pkt, size_t offset, uint8_t attr_type, size_t *offset_ret)
__CPROVER_requires(VF_RAD_PKT(pkt))
__CPROVER_requires(VF_OUT_OPT(offset_ret, size_t))
__CPROVER_assigns(offset_ret != NULL: *offset_ret)
__CPROVER_ensures(VF_RV == 0 || VF_RV == EINVAL || VF_RV == EBADMSG || VF_RV == VF_RAD_ENOATTR)
__CPROVER_ensures(pkt == NULL ==> VF_RV == EINVAL)
__CPROVER_ensures((VF_RV == 0 && offset_ret != NULL) ==> VF_RAD_ATTR_AT(pkt, *offset_ret))
__CPROVER_ensures((VF_RV == 0 && offset_ret != NULL) ==> *offset_ret >= offset)
__CPROVER_ensures((VF_RV == 0 && offset_ret != NULL) ==> VF_RAD_B(pkt, *offset_ret) == attr_type)
;

#define VF_RAD_DATA_OUT_PRE(type, data, len)					\
	__CPROVER_requires(VF_OUT_OPT(type, uint8_t))				\
	__CPROVER_requires(VF_OUT_OPT(data, uint8_t *))				\
	__CPROVER_requires(VF_OUT_OPT(len, size_t))				\
	__CPROVER_assigns(type != NULL: *type)					\
	__CPROVER_assigns(data != NULL: *data)					\
	__CPROVER_assigns(len != NULL: *len)

/* value of the attribute at `offset` as pointer / length */
static inline int
radius_pkt_attr_get_data_ptr_raw(rad_pkt_hdr_p pkt, size_t offset,
    uint8_t *type, uint8_t **data, size_t *len)
__CPROVER_requires(VF_RAD_PKT(pkt))
VF_RAD_DATA_OUT_PRE(type, data, len)
__CPROVER_ensures(VF_RV == 0 || VF_RV == EINVAL || VF_RV == EBADMSG)
__CPROVER_ensures((VF_RV == EINVAL) == (pkt == NULL || offset < VF_RAD_HDR_SIZE || offset > VF_RAD_LEN(pkt)))
__CPROVER_ensures(VF_RV == 0 ==> VF_RAD_ATTR_AT(pkt, offset))
__CPROVER_ensures((VF_RV == 0 && type != NULL) ==> *type == VF_RAD_B(pkt, offset))
__CPROVER_ensures((VF_RV == 0 && data != NULL) ==> (VF_RAD_RET_PTR(*data, uint8_t *, pkt) &&
    VF_RAD_PTR_AT(*data, pkt, offset + 2)))
__CPROVER_ensures((VF_RV == 0 && len != NULL) ==> *len == (size_t)VF_RAD_B(pkt, offset + 1) - 2)
/* the pointer / length pair lies inside the packet */
__CPROVER_ensures((VF_RV == 0 && data != NULL && len != NULL) ==> VF_INSIDE(*data, *len, pkt, VF_RAD_LEN(pkt)))
__CPROVER_ensures(VF_RV != 0 ==> (VF_RAD_KEEP(type) && VF_RAD_KEEP(data) && VF_RAD_KEEP(len)))
;

/* same; a User-Password value is cut at its first NUL */
static inline int
radius_pkt_attr_get_data_ptr(rad_pkt_hdr_p pkt, size_t offset,
    uint8_t *type, uint8_t **data, size_t *len)
__CPROVER_requires(VF_RAD_PKT(pkt))
VF_RAD_DATA_OUT_PRE(type, data, len)
__CPROVER_ensures(VF_RV == 0 || VF_RV == EINVAL || VF_RV == EBADMSG)
__CPROVER_ensures((VF_RV == EINVAL) == (pkt == NULL || offset < VF_RAD_HDR_SIZE || offset > VF_RAD_LEN(pkt)))
__CPROVER_ensures(VF_RV == 0 ==> VF_RAD_ATTR_AT(pkt, offset))
__CPROVER_ensures((VF_RV == 0 && type != NULL) ==> *type == VF_RAD_B(pkt, offset))
__CPROVER_ensures((VF_RV == 0 && data != NULL) ==> (VF_RAD_RET_PTR(*data, uint8_t *, pkt) &&
    VF_RAD_PTR_AT(*data, pkt, offset + 2)))
__CPROVER_ensures((VF_RV == 0 && len != NULL) ==> *len <= (size_t)VF_RAD_B(pkt, offset + 1) - 2)
__CPROVER_ensures((VF_RV == 0 && len != NULL && VF_RAD_B(pkt, offset) != 2) ==>
    *len == (size_t)VF_RAD_B(pkt, offset + 1) - 2)
__CPROVER_ensures((VF_RV == 0 && data != NULL && len != NULL) ==> VF_INSIDE(*data, *len, pkt, VF_RAD_LEN(pkt)))
__CPROVER_ensures(VF_RV != 0 ==> (VF_RAD_KEEP(type) && VF_RAD_KEEP(data) && VF_RAD_KEEP(len)))
;

/* concatenate the values of up to `count` attributes of `type` into buf */
static inline int
radius_pkt_attr_get_data_to_buf(rad_pkt_hdr_p pkt, size_t offset, size_t count,
    uint8_t type, uint8_t *buf, size_t buf_size, size_t *buf_size_ret)
__CPROVER_requires(VF_RAD_PKT(pkt))
__CPROVER_requires(buf_size <= VF_RAD_PKT_MAX)
__CPROVER_requires(__CPROVER_is_fresh(buf, buf_size))
__CPROVER_requires(VF_OUT_OPT(buf_size_ret, size_t))
__CPROVER_assigns(__CPROVER_object_upto(buf, buf_size))
__CPROVER_assigns(buf_size_ret != NULL: *buf_size_ret)
__CPROVER_ensures(VF_RV == 0 || VF_RV == EINVAL || VF_RV == EBADMSG || VF_RV == VF_RAD_ENOATTR)
/* never more than the caller's buffer holds */
__CPROVER_ensures(buf_size_ret != NULL ==> *buf_size_ret <= buf_size)
;

/* ------------------------------------------------------------------------------
 * Part 2 (C15): construction / signing contracts go below this line.
 * ---------------------------------------------------------------------------- */

#endif /* !VF_REPLAY */
#endif /* VF_CONTRACTS_RADIUS_H */
