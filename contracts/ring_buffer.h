/*
 * Contracts for src/utils/ring_buffer.c (property C19).  Redeclarations only.
 * Include BEFORE `#include "src/utils/ring_buffer.c"` (the static functions are declared
 * here with their contracts; r_buf_t is public, so nothing else is needed).
 *
 * All contracts take a non-NULL ring (every API function starts with `NULL == r_buf`
 * -> 0 / EINVAL, a one-line path that is not under contract) that satisfies the
 * representation invariant vf_rb_wf() of specs/ring_spec.h.
 */
#ifndef VF_CONTRACTS_RING_BUFFER_H
#define VF_CONTRACTS_RING_BUFFER_H
#include "vf/vf.h"
#include <errno.h>
#include "utils/ring_buffer.h"
#include "specs/ring_spec.h"

/* ------------------------------------------------- postcondition predicates ---- */
/* (plain C: also used as native replay oracles) */

#define VF_RB_MAXI(a, b)	(((a) > (b)) ? (a) : (b))

/* r_buf_wbuf_get */
static inline int
vf_rb_post_wbuf_get(const r_buf_t *r, size_t old_wpos, size_t old_round, size_t old_index,
    size_t old_curlen, size_t old_max, uint32_t old_flags, size_t min_buf_size, size_t ret,
    const uint8_t *buf) {
	const size_t adv = old_index + ((old_curlen != 0) ? 1 : 0);
	const size_t room = r->size - old_wpos;
	const int wrap = (room < min_buf_size || room < r->min_block_size);

	if (r->size < min_buf_size) /* refused, nothing touched */
		return (ret == 0 && r->wpos == old_wpos && r->round_num == old_round &&
		    r->iov_index == old_index && r->iov_index_max == old_max &&
		    r->flags == old_flags);
	/* invariant preserved (in particular iov_index + 1 < iov_count), slot open at wpos */
	if (!vf_rb_wf(r) || !vf_rb_open(r))
		return (0);
	/* the region handed out: [buf + wpos, buf + size), large enough, inside the ring and
	 * behind every block committed in this round (wf: they end at or before wpos) */
	if (buf != r->buf + r->wpos || ret != r->size - r->wpos ||
	    ret < min_buf_size || ret < r->min_block_size)
		return (0);
	if (!wrap)
		return (r->round_num == old_round && r->wpos == old_wpos &&
		    r->iov_index == adv && r->iov_index_max == old_max &&
		    r->flags == old_flags);
	/* wrap: next round (SIZE_MAX -> 0 included), table restarts, last valid index kept */
	return (r->round_num == (size_t)(old_round + 1) && r->wpos == 0 &&
	    r->iov_index == 0 && r->iov_index_max == adv - 1 &&
	    r->flags == (old_flags | RBUF_F_FULL));
}

/* r_buf_wbuf_set: the WHOLE written area offset + data has to fit behind wpos */
static inline int
vf_rb_post_wbuf_set(const r_buf_t *r, size_t old_wpos, size_t old_index, size_t old_max,
    uint32_t old_flags, size_t old_round, size_t offset, size_t buf_size, int ret) {
	const int ok = (offset < buf_size && buf_size - offset >= r->min_block_size &&
	    buf_size <= r->size - old_wpos);

	if (!ok)
		return (ret == EINVAL && r->wpos == old_wpos && r->iov_index == old_index &&
		    r->iov_index_max == old_max && r->flags == old_flags &&
		    r->round_num == old_round && vf_rb_wf(r));
	return (ret == 0 && vf_rb_wf(r) && r->wpos == old_wpos + buf_size &&
	    r->iov_index == old_index && r->round_num == old_round &&
	    r->iov[old_index].iov_base == r->buf + old_wpos + offset &&
	    r->iov[old_index].iov_len == buf_size - offset &&
	    r->iov_index_max == VF_RB_MAXI(old_max, old_index) &&
	    r->flags == (old_flags | ((offset != 0) ? RBUF_F_FRAG : 0)));
}

/* r_buf_wbuf_set2 */
static inline int
vf_rb_post_wbuf_set2(const r_buf_t *r, size_t old_wpos, size_t old_index, size_t old_max,
    uint32_t old_flags, size_t old_round, const uint8_t *buf, size_t buf_size,
    const r_buf_rpos_t *rpos, int ret) {
	const int ok = (buf_size >= r->min_block_size && VF_RB_OFF(r, buf) >= old_wpos);

	if (!ok)
		return (ret == EINVAL && r->wpos == old_wpos && r->iov_index == old_index &&
		    r->iov_index_max == old_max && r->flags == old_flags &&
		    r->round_num == old_round && vf_rb_wf(r));
	return (ret == 0 && vf_rb_wf(r) && vf_rb_open(r) &&
	    r->wpos == VF_RB_OFF(r, buf) + buf_size &&
	    r->iov_index == old_index + 1 && r->round_num == old_round &&
	    r->iov[old_index].iov_base == buf && r->iov[old_index].iov_len == buf_size &&
	    r->iov_index_max == VF_RB_MAXI(old_max, old_index) &&
	    r->flags == (old_flags | ((VF_RB_OFF(r, buf) != old_wpos) ? RBUF_F_FRAG : 0)) &&
	    (rpos == NULL || (rpos->iov_index == old_index && rpos->iov_off == 0 &&
	      rpos->round_num == old_round)));
}

/* what a lagging reader is told it lost (the accounting the library documents in code:
 * one round behind and already reused in the table: size + new blocks index..current;
 * two or more rounds behind: size * rounds; claims to be ahead of the writer: 0;
 * still in the table but overwritten in the storage: exactly the blocks it skips) */
static inline size_t
vf_rb_spec_drop(const r_buf_t *r, size_t index, size_t off, size_t round) {
	const size_t diff = r->round_num - round; /* modulo 2^64: survives SIZE_MAX -> 0 */

	if (diff == 0 || diff > (((size_t)~0) >> 1))
		return (0); /* same round but beyond the writer / later round than the writer */
	if (diff == 1) {
		if (index <= r->iov_index)
			return (r->size + vf_rb_run(r, index, 1 + r->iov_index - index));
		return (vf_rb_run(r, index, 1 + r->iov_index_max - index) - off +
		    vf_rb_run(r, 0, 1 + r->iov_index));
	}
	return (r->size * diff);
}

/* r_buf_rpos_check: a usable cursor is kept (normalised), a lagging one is resynchronised
 * to the writer and the loss is reported */
static inline int
vf_rb_post_rpos_check(const r_buf_t *r, size_t old_index, size_t old_off, size_t old_round,
    int ret, const r_buf_rpos_t *rp, const size_t *drop, size_t old_drop) {
	r_buf_rpos_t old;
	size_t off1;

	old.iov_index = old_index;
	old.iov_off = old_off;
	old.round_num = old_round;
	off1 = (r->iov[old_index].iov_len <= old_off) ? 0 : old_off; /* stale offset dropped */
	if (vf_rb_rpos_valid(r, &old)) {
		if (ret != 1 || (drop != NULL && (*drop) != old_drop))
			return (0);
		if (old_round != r->round_num && old_index > r->iov_index_max)
			return (rp->iov_index == 0 && rp->iov_off == 0 &&
			    rp->round_num == r->round_num);
		return (rp->iov_index == old_index && rp->iov_off == off1 &&
		    rp->round_num == old_round);
	}
	return (ret == 0 && rp->iov_index == r->iov_index + 1 && rp->iov_off == 0 &&
	    rp->round_num == r->round_num &&
	    (drop == NULL || (*drop) == vf_rb_spec_drop(r, old_index, off1, old_round)));
}

/* the writer has asked for a buffer at least once (a freshly allocated ring has a NULL
 * base in slot 0; the reader-side size arithmetic is specified for started rings only) */
static inline int
vf_rb_started(const r_buf_t *r) {
	return (r->iov[r->iov_index].iov_base != NULL);
}

/* a cursor r_buf_rpos_check has accepted */
static inline int
vf_rb_rpos_norm(const r_buf_t *r, const r_buf_rpos_t *rp) {
	if (rp->round_num == r->round_num)
		return (rp->iov_index <= r->iov_index + 1 &&
		    (rp->iov_off == 0 || rp->iov_off < r->iov[rp->iov_index].iov_len));
	return ((size_t)(rp->round_num + 1) == r->round_num &&
	    rp->iov_index > r->iov_index && rp->iov_index <= r->iov_index_max &&
	    VF_RB_OFF(r, r->iov[rp->iov_index].iov_base) >= r->wpos &&
	    (rp->iov_off == 0 || rp->iov_off < r->iov[rp->iov_index].iov_len));
}

/* n is the total length of the first m blocks of the stream from the cursor, for some m
 * (the cursor's block counts from its offset): what "in order, without skipping" means for
 * a total of whole blocks */
static inline int
vf_rb_is_prefix(const r_buf_t *r, const r_buf_rpos_t *rp, size_t n) {
	size_t i, acc = 0;
	const int prev = (rp->round_num != r->round_num);
	const size_t last = prev ? r->iov_index_max : r->iov_index;

	if (n == 0)
		return (1);
	for (i = 0; i < VF_RB_IOVN; i ++) { /* blocks of the cursor's round */
		if (i < rp->iov_index || i > last)
			continue;
		acc += r->iov[i].iov_len - ((i == rp->iov_index) ? rp->iov_off : 0);
		if (acc == n)
			return (1);
	}
	if (!prev)
		return (0);
	for (i = 0; i < VF_RB_IOVN; i ++) { /* then the blocks of the current round */
		if (i > r->iov_index)
			continue;
		acc += r->iov[i].iov_len;
		if (acc == n)
			return (1);
	}
	return (0);
}

/* r_buf_data_get: iovecs inside the ring, in stream order from the cursor, sum of the
 * lengths == *data_size_ret <= min(data_size, available); everything when asked for more
 * than is available and the caller's array is long enough */
static inline int
vf_rb_post_data_get(const r_buf_t *r, const r_buf_rpos_t *rp, int was_valid,
    size_t data_size, const iovec_t *iov, size_t iov_cnt, size_t ret,
    const size_t *data_size_ret) {
	size_t i, sum = 0, avail;

	if (!was_valid || data_size == 0)
		return (ret == 0 && (data_size_ret == NULL || (*data_size_ret) == 0));
	if (ret > iov_cnt || !vf_rb_rpos_norm(r, rp))
		return (0);
	for (i = 0; i < ret; i ++) {
		if (!vf_rb_inside(r, iov[i].iov_base, iov[i].iov_len))
			return (0);
		sum += iov[i].iov_len;
	}
	avail = vf_rb_avail(r, rp);
	if (sum > avail || sum > data_size ||
	    (data_size_ret != NULL && (*data_size_ret) != sum))
		return (0);
	if (ret > 0 && iov[0].iov_base != r->iov[rp->iov_index].iov_base + rp->iov_off)
		return (0); /* starts exactly at the cursor */
	if (!vf_rb_is_prefix(r, rp, sum))
		return (0); /* whole blocks, consecutive from the cursor: none skipped */
	if (data_size > avail && iov_cnt > 2 * VF_RB_IOVN && avail != 0)
		return (sum == avail); /* a full read returns what avail_size promised */
	return (1);
}

/* r_buf_rpos_inc, one-block step: the cursor names an existing block and is advanced by at
 * most the rest of that block */
static inline int
vf_rb_inc_step_pre(const r_buf_t *r, const r_buf_rpos_t *rp, size_t data_size) {
	if (!vf_rb_rpos_norm(r, rp))
		return (0);
	if (rp->round_num == r->round_num && rp->iov_index > r->iov_index)
		return (0); /* "behind the writer" position: no block */
	return (data_size <= r->iov[rp->iov_index].iov_len - rp->iov_off);
}

/* ... then it stays inside the block, or - after exactly the rest - stands at offset 0 of
 * the NEXT block of the stream (next table entry; after the last remnant: block 0 of the
 * current round) */
static inline int
vf_rb_post_inc_step(const r_buf_t *r, size_t idx, size_t off, size_t round, size_t data_size,
    const r_buf_rpos_t *rp) {
	const size_t rest = r->iov[idx].iov_len - off;

	if (data_size == 0)
		return (rp->iov_index == idx && rp->iov_off == off && rp->round_num == round);
	if (data_size < rest)
		return (rp->iov_index == idx && rp->iov_off == off + data_size &&
		    rp->round_num == round);
	if (round == r->round_num || idx < r->iov_index_max)
		return (rp->iov_index == idx + 1 && rp->iov_off == 0 && rp->round_num == round);
	return (rp->iov_index == 0 && rp->iov_off == 0 && rp->round_num == r->round_num);
}

/* ------------------------------------------------------ iovec_aggregate_ex ---- */
/* ghost: the ring whose storage the blocks given to iovec_aggregate_ex lie in */
extern const r_buf_t *vf_rb_gring;

/* every block inside the ghost ring, the offset inside the first block */
static inline int
vf_rb_agg_pre(const iovec_t *iov, size_t iov_cnt, size_t off) {
	size_t i;

	if (iov_cnt > VF_RB_IOVN)
		return (0);
	for (i = 0; i < iov_cnt; i ++) {
		if (!vf_rb_inside(vf_rb_gring, iov[i].iov_base, iov[i].iov_len))
			return (0);
	}
	/* the first block has bytes left when more blocks follow (cursor offsets are < length) */
	return (iov_cnt == 0 || (off <= iov[0].iov_len && (iov_cnt == 1 || off < iov[0].iov_len)));
}

/*
 * iovec_aggregate_ex gathers WHOLE blocks, in order, from the first one (which counts from
 * `off`): the bytes consumed, data_size - *reminder, are the total of a prefix of m blocks;
 * the result describes exactly these bytes: starts at iov[0].iov_base + off, every entry
 * inside the ring, lengths summing up to the consumed bytes; nothing returned <=> nothing
 * consumed; asking for more than all blocks hold, with room for all of them, takes all.
 */
static inline int
vf_rb_post_agg(const iovec_t *iov, size_t iov_cnt, size_t data_size, size_t off,
    const iovec_t *ret, size_t ret_cnt, size_t n, const size_t *rem) {
	size_t i, acc, sum, consumed, total;
	int prefix;

	if ((*rem) > data_size || n > ret_cnt)
		return (0);
	consumed = data_size - (*rem);
	if ((n == 0) != (consumed == 0))
		return (0);
	acc = 0;
	prefix = (consumed == 0);
	for (i = 0; i < iov_cnt && i < VF_RB_IOVN; i ++) {
		acc += iov[i].iov_len - ((i == 0) ? off : 0);
		if (acc == consumed)
			prefix = 1;
	}
	total = acc;
	if (!prefix)
		return (0);
	sum = 0;
	for (i = 0; i < n && i < VF_RB_IOVN; i ++) {
		if (!vf_rb_inside(vf_rb_gring, ret[i].iov_base, ret[i].iov_len))
			return (0);
		sum += ret[i].iov_len;
	}
	if (n > VF_RB_IOVN || sum != consumed)
		return (0);
	if (n > 0 && ret[0].iov_base != iov[0].iov_base + off)
		return (0);
	if (iov_cnt != 0 && data_size > total && ret_cnt >= iov_cnt && total != 0 &&
	    !(iov_cnt == 1 && total == 0))
		return (consumed == total);
	return (1);
}

#ifndef VF_REPLAY
/* ------------------------------------------------------------------ contracts ---- */
#define VF_RB_FRAME_W(r)							\
	(r)->wpos, (r)->iov_index, (r)->iov_index_max, (r)->round_num, (r)->flags,	\
	__CPROVER_object_whole((r)->iov)
#define VF_RB_CURLEN(r)		((r)->iov[(r)->iov_index].iov_len)

size_t
r_buf_wbuf_get(r_buf_p r_buf, size_t min_buf_size, uint8_t **buf)
__CPROVER_requires(r_buf != NULL && vf_rb_wf(r_buf))
__CPROVER_requires(__CPROVER_w_ok(buf, sizeof(*buf)))
__CPROVER_assigns(VF_RB_FRAME_W(r_buf), *buf)
__CPROVER_ensures(vf_rb_post_wbuf_get(r_buf, __CPROVER_old(r_buf->wpos),
    __CPROVER_old(r_buf->round_num), __CPROVER_old(r_buf->iov_index),
    __CPROVER_old(VF_RB_CURLEN(r_buf)), __CPROVER_old(r_buf->iov_index_max),
    __CPROVER_old(r_buf->flags), min_buf_size, __CPROVER_return_value,
    (r_buf->size < min_buf_size) ? NULL : *buf))
;

int
r_buf_wbuf_set(r_buf_p r_buf, size_t offset, size_t buf_size)
/* protocol: a commit follows r_buf_wbuf_get (slot open at wpos) */
__CPROVER_requires(r_buf != NULL && vf_rb_wf(r_buf) && vf_rb_open(r_buf))
__CPROVER_assigns(VF_RB_FRAME_W(r_buf))
__CPROVER_ensures(vf_rb_post_wbuf_set(r_buf, __CPROVER_old(r_buf->wpos),
    __CPROVER_old(r_buf->iov_index), __CPROVER_old(r_buf->iov_index_max),
    __CPROVER_old(r_buf->flags), __CPROVER_old(r_buf->round_num), offset, buf_size,
    __CPROVER_return_value))
;

int
r_buf_wbuf_set2(r_buf_p r_buf, uint8_t *buf, size_t buf_size, r_buf_rpos_p rpos)
__CPROVER_requires(r_buf != NULL && vf_rb_wf(r_buf) && vf_rb_open(r_buf))
/* the caller names a region of the ring storage (it wrote into what wbuf_get returned) */
__CPROVER_requires(buf != NULL && vf_rb_inside(r_buf, buf, buf_size))
__CPROVER_requires(rpos == NULL || __CPROVER_w_ok(rpos, sizeof(*rpos)))
__CPROVER_assigns(VF_RB_FRAME_W(r_buf))
__CPROVER_assigns(rpos != NULL: *rpos)
__CPROVER_ensures(vf_rb_post_wbuf_set2(r_buf, __CPROVER_old(r_buf->wpos),
    __CPROVER_old(r_buf->iov_index), __CPROVER_old(r_buf->iov_index_max),
    __CPROVER_old(r_buf->flags), __CPROVER_old(r_buf->round_num), buf, buf_size, rpos,
    __CPROVER_return_value))
;

int
r_buf_rpos_check_fast(r_buf_p r_buf, r_buf_rpos_p rpos)
__CPROVER_requires(r_buf != NULL && vf_rb_wf(r_buf))
__CPROVER_requires(__CPROVER_r_ok(rpos, sizeof(*rpos)) && vf_rb_rpos_wf(r_buf, rpos))
__CPROVER_assigns()
/* 1 exactly for cursors whose block has not been overwritten */
__CPROVER_ensures(__CPROVER_return_value == vf_rb_rpos_valid(r_buf, rpos))
;

/* ghost: value of *drop_size_ret before the call (a usable cursor leaves it alone) */
extern size_t vf_rb_old_drop;

static int
r_buf_rpos_check(r_buf_p r_buf, r_buf_rpos_p rpos, size_t *drop_size_ret)
__CPROVER_requires(r_buf != NULL && vf_rb_wf(r_buf))
__CPROVER_requires(__CPROVER_w_ok(rpos, sizeof(*rpos)) && vf_rb_rpos_wf(r_buf, rpos))
__CPROVER_requires(drop_size_ret == NULL || __CPROVER_w_ok(drop_size_ret, sizeof(size_t)))
__CPROVER_requires(drop_size_ret == NULL || *drop_size_ret == vf_rb_old_drop)
__CPROVER_assigns(*rpos)
__CPROVER_assigns(drop_size_ret != NULL: *drop_size_ret)
__CPROVER_ensures(vf_rb_post_rpos_check(r_buf, __CPROVER_old(rpos->iov_index),
    __CPROVER_old(rpos->iov_off), __CPROVER_old(rpos->round_num), __CPROVER_return_value,
    rpos, drop_size_ret, vf_rb_old_drop))
;

static size_t
iovec_aggregate_ex(iovec_p iov, size_t iov_cnt, size_t data_size, size_t off,
    iovec_p ret, size_t ret_cnt, size_t *reminder_data_size_ret)
__CPROVER_requires(vf_rb_gring != NULL && vf_rb_wf(vf_rb_gring))
__CPROVER_requires(iov_cnt <= VF_RB_IOVN &&
    (iov_cnt == 0 || __CPROVER_r_ok(iov, iov_cnt * sizeof(iovec_t))))
__CPROVER_requires(vf_rb_agg_pre(iov, iov_cnt, off))
__CPROVER_requires(ret_cnt <= 2 * VF_RB_IOVN + 2 &&
    (ret_cnt == 0 || __CPROVER_w_ok(ret, ret_cnt * sizeof(iovec_t))))
__CPROVER_requires(__CPROVER_w_ok(reminder_data_size_ret, sizeof(size_t)))
__CPROVER_assigns(ret_cnt != 0: __CPROVER_object_upto(ret, ret_cnt * sizeof(iovec_t)))
__CPROVER_assigns(*reminder_data_size_ret)
__CPROVER_ensures(vf_rb_post_agg(iov, iov_cnt, data_size, off, ret, ret_cnt,
    __CPROVER_return_value, reminder_data_size_ret))
;

/* ghost: set by the harness to vf_rb_rpos_valid() of the cursor before the call */
extern int vf_rb_was_valid;

size_t
r_buf_data_avail_size(r_buf_p r_buf, r_buf_rpos_p rpos, size_t *drop_size_ret)
__CPROVER_requires(r_buf != NULL && vf_rb_wf(r_buf))
__CPROVER_requires(__CPROVER_w_ok(rpos, sizeof(*rpos)) && vf_rb_rpos_wf(r_buf, rpos))
__CPROVER_requires(drop_size_ret == NULL || __CPROVER_w_ok(drop_size_ret, sizeof(size_t)))
__CPROVER_requires(vf_rb_started(r_buf))
__CPROVER_requires(vf_rb_was_valid == vf_rb_rpos_valid(r_buf, rpos))
__CPROVER_assigns(*rpos)
__CPROVER_assigns(drop_size_ret != NULL: *drop_size_ret)
/* usable cursor: the sum of the blocks from the cursor to the writer, nothing dropped;
 * lagging cursor: 0 (and r_buf_rpos_check has resynchronised it) */
__CPROVER_ensures(vf_rb_was_valid ?
    (vf_rb_rpos_norm(r_buf, rpos) && __CPROVER_return_value == vf_rb_avail(r_buf, rpos) &&
     (drop_size_ret == NULL || *drop_size_ret == 0)) :
    (__CPROVER_return_value == 0 && vf_rb_rpos_valid(r_buf, rpos)))
;

size_t
r_buf_data_get(r_buf_p r_buf, r_buf_rpos_p rpos, size_t data_size,
    iovec_p iov, size_t iov_cnt, size_t *drop_size_ret, size_t *data_size_ret)
__CPROVER_requires(r_buf != NULL && vf_rb_wf(r_buf))
__CPROVER_requires(__CPROVER_w_ok(rpos, sizeof(*rpos)) && vf_rb_rpos_wf(r_buf, rpos))
__CPROVER_requires(iov_cnt != 0 && iov_cnt <= 2 * VF_RB_IOVN + 2 &&
    __CPROVER_w_ok(iov, iov_cnt * sizeof(iovec_t)))
__CPROVER_requires(drop_size_ret == NULL || __CPROVER_w_ok(drop_size_ret, sizeof(size_t)))
__CPROVER_requires(data_size_ret == NULL || __CPROVER_w_ok(data_size_ret, sizeof(size_t)))
__CPROVER_requires(vf_rb_started(r_buf))
__CPROVER_requires(vf_rb_was_valid == vf_rb_rpos_valid(r_buf, rpos))
__CPROVER_assigns(*rpos, __CPROVER_object_upto(iov, iov_cnt * sizeof(iovec_t)))
__CPROVER_assigns(drop_size_ret != NULL: *drop_size_ret)
__CPROVER_assigns(data_size_ret != NULL: *data_size_ret)
__CPROVER_ensures(vf_rb_post_data_get(r_buf, rpos, vf_rb_was_valid, data_size, iov, iov_cnt,
    __CPROVER_return_value, data_size_ret))
;

/* ghost: bytes available at the cursor before the call */
extern size_t vf_rb_old_avail;

#ifdef VF_RB_INC_STEP
/* one-block step (cheap): see vf_rb_inc_step_pre / vf_rb_post_inc_step */
void
r_buf_rpos_inc(r_buf_p r_buf, r_buf_rpos_p rpos, size_t data_size)
__CPROVER_requires(r_buf != NULL && vf_rb_wf(r_buf) && vf_rb_started(r_buf))
__CPROVER_requires(__CPROVER_w_ok(rpos, sizeof(*rpos)) && vf_rb_rpos_wf(r_buf, rpos))
__CPROVER_requires(vf_rb_inc_step_pre(r_buf, rpos, data_size))
__CPROVER_requires(vf_rb_old_avail == vf_rb_avail(r_buf, rpos))
__CPROVER_assigns(*rpos)
__CPROVER_ensures(vf_rb_post_inc_step(r_buf, __CPROVER_old(rpos->iov_index),
    __CPROVER_old(rpos->iov_off), __CPROVER_old(rpos->round_num), data_size, rpos))
__CPROVER_ensures(vf_rb_rpos_wf(r_buf, rpos) && vf_rb_rpos_norm(r_buf, rpos))
#ifndef VF_RB_INC_NO_AMOUNT
/* the available amount drops by exactly the advance */
__CPROVER_ensures(vf_rb_avail(r_buf, rpos) == vf_rb_old_avail - data_size)
#endif
;
#else
void
r_buf_rpos_inc(r_buf_p r_buf, r_buf_rpos_p rpos, size_t data_size)
__CPROVER_requires(r_buf != NULL && vf_rb_wf(r_buf) && vf_rb_started(r_buf))
__CPROVER_requires(__CPROVER_w_ok(rpos, sizeof(*rpos)) && vf_rb_rpos_wf(r_buf, rpos))
/* an accepted cursor, advanced by no more than what was available to it */
__CPROVER_requires(vf_rb_rpos_norm(r_buf, rpos))
__CPROVER_requires(vf_rb_old_avail == vf_rb_avail(r_buf, rpos) && data_size <= vf_rb_old_avail)
__CPROVER_assigns(*rpos)
/* stream order, one step: the cursor stays usable and has moved forward by exactly the
 * consumed amount (no repetition, nothing skipped) */
__CPROVER_ensures(vf_rb_rpos_wf(r_buf, rpos) && vf_rb_rpos_norm(r_buf, rpos))
#ifndef VF_RB_INC_NO_AMOUNT
__CPROVER_ensures(vf_rb_avail(r_buf, rpos) == vf_rb_old_avail - data_size)
#endif
;

#endif /* VF_RB_INC_STEP */

int
r_buf_rpos_init(r_buf_p r_buf, r_buf_rpos_p rpos, size_t data_size)
__CPROVER_requires(r_buf != NULL && vf_rb_wf(r_buf))
__CPROVER_requires(__CPROVER_w_ok(rpos, sizeof(*rpos)))
__CPROVER_assigns(*rpos)
__CPROVER_ensures(__CPROVER_return_value == 0 && vf_rb_rpos_wf(r_buf, rpos) &&
    rpos->iov_off == 0 &&
    (rpos->round_num == r_buf->round_num || (size_t)(rpos->round_num + 1) == r_buf->round_num))
;
#endif /* !VF_REPLAY */
#endif
