/*
 * Contracts for include/crypto/hash/sha1.h (C04: SHA-1 == FIPS 180-4; C07: HMAC-SHA-1 == RFC 2104).
 * Redeclarations only; the header is compiled unmodified, with the SIMD macros removed
 * exactly as tests/hash/main.c does (#undef __SSE2__ => no SSE path, no SHA-NI path).
 * Ghost vocabulary: stubs/hash_ghost.h, clause macros: stubs/hash_clauses.h.
 *
 * Build modes (job "defines"):
 *   (none)                 sha1_transform_generic and sha1_transform carry contract T
 *                          (== vf_sha1_compress per 64-byte block, FIPS 180-4 6.1.2)
 *   VF_T_NBLK=n            number of blocks of the T harness (1 or 2)
 *   VF_T_ALIAS             T for the call shape sha1_transform(ctx, ctx->buffer, ctx->buffer + 64)
 *   VF_TRANSFORM_LOG       sha1_transform carries the block-logging contract used when it is
 *                          REPLACED inside sha1_update / sha1_final (contracts U and F)
 *   VF_HASH_STREAM         sha1_init/_update/_final carry the byte-stream contracts (C07)
 *   VF_U_NMAX, VF_TAIL, VF_U_NOCONTENT   as in contracts/md5.h
 */
#ifndef VF_CONTRACTS_SHA1_H
#define VF_CONTRACTS_SHA1_H
#include "vf/vf.h"
#include "stubs/hash_ghost.h"
#include "stubs/hash_clauses.h"
#include "specs/sha1_spec.h"
#undef __SSE2__
#undef __SHA__
#include "crypto/hash/sha1.h"
#include "stubs/hash_libc.h"

#ifndef VF_REPLAY

#define VF_SHA1_B	64
#ifndef VF_T_NBLK
#define VF_T_NBLK	1
#endif

/* ------------------------------------------------------------------ T / LOG ---- */
#ifndef VF_TRANSFORM_LOG
static inline _Bool
vf_sha1_T_post(uint32_t h0, uint32_t h1, uint32_t h2, uint32_t h3, uint32_t h4,
    const uint8_t *blocks, const uint32_t *now) {
	uint32_t e[5];
	e[0] = h0; e[1] = h1; e[2] = h2; e[3] = h3; e[4] = h4;
	for (unsigned b = 0; b < VF_T_NBLK; b++)
		vf_sha1_compress(e, blocks + 64 * b);
	return (now[0] == e[0] && now[1] == e[1] && now[2] == e[2] && now[3] == e[3] && now[4] == e[4]);
}

/* T: the chaining value after the call is the FIPS 180-4 6.1.2 hash computation applied to
 * the blocks in order; only ctx->hash and the schedule scratch ctx->W are written */
#ifdef VF_T_ALIAS
/* the harness owns the context and passes ctx->buffer itself (concrete pointers) */
#define VF_SHA1_T_CTX_REQ(ctx)	__CPROVER_requires(__CPROVER_w_ok(ctx, sizeof(sha1_ctx_t)))
#define VF_SHA1_T_BLOCKS_REQ(ctx, blocks, blocks_max)					\
__CPROVER_requires(blocks == (const uint8_t *)ctx->buffer && blocks_max == blocks + VF_SHA1_B)
#else
#define VF_SHA1_T_CTX_REQ(ctx)	__CPROVER_requires(__CPROVER_is_fresh(ctx, sizeof(sha1_ctx_t)))
#define VF_SHA1_T_BLOCKS_REQ(ctx, blocks, blocks_max)					\
__CPROVER_requires(__CPROVER_r_ok(blocks, VF_T_NBLK * VF_SHA1_B) && blocks_max == blocks + VF_T_NBLK * VF_SHA1_B)
#endif
#define VF_SHA1_T_CONTRACT(fn)								\
static inline void									\
fn(sha1_ctx_p ctx, const uint8_t *blocks, const uint8_t *blocks_max)			\
VF_SHA1_T_CTX_REQ(ctx)									\
VF_SHA1_T_BLOCKS_REQ(ctx, blocks, blocks_max)						\
__CPROVER_assigns(__CPROVER_object_upto(ctx->hash, sizeof(ctx->hash)),			\
    __CPROVER_object_upto(ctx->W, sizeof(ctx->W)))					\
__CPROVER_ensures(vf_sha1_T_post(__CPROVER_old(ctx->hash[0]), __CPROVER_old(ctx->hash[1]),	\
    __CPROVER_old(ctx->hash[2]), __CPROVER_old(ctx->hash[3]), __CPROVER_old(ctx->hash[4]),	\
    blocks, ctx->hash))									\
;
VF_SHA1_T_CONTRACT(sha1_transform_generic)
/* the run-time dispatcher: in the portable build it must be exactly the generic transform */
VF_SHA1_T_CONTRACT(sha1_transform)

#else /* VF_TRANSFORM_LOG */
static inline void
sha1_transform(sha1_ctx_p ctx, const uint8_t *blocks, const uint8_t *blocks_max)
__CPROVER_requires(__CPROVER_w_ok(ctx, sizeof(sha1_ctx_t)))
VF_LOG_REQUIRES(blocks, blocks_max, VF_SHA1_B)
__CPROVER_assigns(__CPROVER_object_upto(ctx->hash, sizeof(ctx->hash)),
    __CPROVER_object_upto(ctx->W, sizeof(ctx->W)))
__CPROVER_assigns(vf_blk_len, vf_blk_at, __CPROVER_object_whole(vf_blk_h))
VF_LOG_ENSURES(blocks, blocks_max)
__CPROVER_ensures(ctx->hash[0] == (uint32_t)vf_blk_h[0] && ctx->hash[1] == (uint32_t)vf_blk_h[1] &&
    ctx->hash[2] == (uint32_t)vf_blk_h[2] && ctx->hash[3] == (uint32_t)vf_blk_h[3] &&
    ctx->hash[4] == (uint32_t)vf_blk_h[4])
;
#endif

/* ------------------------------------------------------------------ I / U / F -- */
#ifndef VF_HASH_STREAM

/* I: FIPS 180-4 5.3.1 initial hash value, nothing absorbed yet */
static inline void
sha1_init(sha1_ctx_p ctx)
__CPROVER_requires(__CPROVER_is_fresh(ctx, sizeof(sha1_ctx_t)))
__CPROVER_assigns(ctx->count, __CPROVER_object_upto(ctx->hash, sizeof(ctx->hash)))
__CPROVER_ensures(ctx->hash[0] == vf_sha1_H0[0] && ctx->hash[1] == vf_sha1_H0[1] &&
    ctx->hash[2] == vf_sha1_H0[2] && ctx->hash[3] == vf_sha1_H0[3] &&
    ctx->hash[4] == vf_sha1_H0[4] && ctx->count == 0)
;

#define VF_SHA1_T0(ctx)		((size_t)(__CPROVER_old((ctx)->count) & (VF_SHA1_B - 1)))
#define VF_SHA1_HASH_OLD(ctx)								\
    ((ctx)->hash[0] == __CPROVER_old((ctx)->hash[0]) && (ctx)->hash[1] == __CPROVER_old((ctx)->hash[1]) &&	\
     (ctx)->hash[2] == __CPROVER_old((ctx)->hash[2]) && (ctx)->hash[3] == __CPROVER_old((ctx)->hash[3]) &&	\
     (ctx)->hash[4] == __CPROVER_old((ctx)->hash[4]))
#define VF_SHA1_HASH_GHOST(ctx)								\
    ((ctx)->hash[0] == (uint32_t)vf_blk_h[0] && (ctx)->hash[1] == (uint32_t)vf_blk_h[1] &&	\
     (ctx)->hash[2] == (uint32_t)vf_blk_h[2] && (ctx)->hash[3] == (uint32_t)vf_blk_h[3] &&	\
     (ctx)->hash[4] == (uint32_t)vf_blk_h[4])

static inline void
sha1_update(sha1_ctx_p ctx, const uint8_t *data, size_t data_size)
__CPROVER_requires(__CPROVER_is_fresh(ctx, sizeof(sha1_ctx_t)))
#ifdef VF_TAIL	/* case split on the entry tail length (one job per value) */
__CPROVER_requires((ctx->count & (VF_SHA1_B - 1)) == VF_TAIL)
#endif
#ifdef VF_U_NMAX
__CPROVER_requires(data_size <= VF_U_NMAX && __CPROVER_is_fresh(data, VF_U_NMAX))
#elif defined(VF_U_NSAFE)	/* exact span, bounded length */
__CPROVER_requires(data_size <= VF_U_NSAFE && (data_size == 0 || __CPROVER_is_fresh(data, data_size)))
#else
__CPROVER_requires(data_size == 0 || __CPROVER_is_fresh(data, data_size))
#endif
__CPROVER_assigns(ctx->count, __CPROVER_object_upto(ctx->hash, sizeof(ctx->hash)),
    __CPROVER_object_upto(ctx->buffer, sizeof(ctx->buffer)), __CPROVER_object_upto(ctx->W, sizeof(ctx->W)))
__CPROVER_assigns(vf_blk_len, vf_blk_at, __CPROVER_object_whole(vf_blk_h))
__CPROVER_ensures(ctx->count == __CPROVER_old(ctx->count) + data_size)
VF_U_POST_LEN(VF_SHA1_T0(ctx), data_size, VF_SHA1_B)
#ifndef VF_U_NOCONTENT
VF_U_POST_CONTENT(VF_SHA1_T0(ctx), data_size, VF_SHA1_B, ctx->buffer, data)
#endif
__CPROVER_ensures(VF_FED(VF_SHA1_T0(ctx), data_size, VF_SHA1_B) == 0 ==> VF_SHA1_HASH_OLD(ctx))
__CPROVER_ensures(VF_FED(VF_SHA1_T0(ctx), data_size, VF_SHA1_B) != 0 ==> VF_SHA1_HASH_GHOST(ctx))
;

/* F: FIPS 180-4 5.1.1 padding, 6.1.2 output, wipe */
#define VF_SHA1_FFED(ctx)	((VF_SHA1_T0(ctx) > VF_SHA1_B - 9) ? (size_t)(2 * VF_SHA1_B) : (size_t)VF_SHA1_B)
static inline void
sha1_final(sha1_ctx_p ctx, uint8_t *digest)
__CPROVER_requires(__CPROVER_is_fresh(ctx, sizeof(sha1_ctx_t)))
#ifdef VF_TAIL
__CPROVER_requires((ctx->count & (VF_SHA1_B - 1)) == VF_TAIL)
#endif
__CPROVER_requires(__CPROVER_is_fresh(digest, SHA1_HASH_SIZE))
__CPROVER_assigns(__CPROVER_object_whole(ctx), __CPROVER_object_upto(digest, SHA1_HASH_SIZE))
__CPROVER_assigns(vf_blk_len, vf_blk_at, __CPROVER_object_whole(vf_blk_h))
__CPROVER_ensures(vf_blk_len == __CPROVER_old(vf_blk_len) + VF_SHA1_FFED(ctx))
/* fed bytes == tail || 0x80 || 0...0 || 64-bit big-endian bit length */
__CPROVER_ensures(VF_BLK_IN(VF_SHA1_FFED(ctx)) ==> vf_blk_at == (
    (VF_BLK_J < VF_SHA1_T0(ctx)) ? VF_OLDBUF_K(ctx->buffer, VF_SHA1_B) :
    (VF_BLK_J == VF_SHA1_T0(ctx)) ? (uint8_t)0x80 :
    (VF_BLK_J < VF_SHA1_FFED(ctx) - 8) ? (uint8_t)0x00 :
    VF_BYTE_BE64(__CPROVER_old(ctx->count) << 3, VF_BLK_J - (VF_SHA1_FFED(ctx) - 8))))
__CPROVER_ensures(!VF_BLK_IN(VF_SHA1_FFED(ctx)) ==> vf_blk_at == __CPROVER_old(vf_blk_at))
/* digest == H0..H4 as big-endian words */
__CPROVER_ensures(vf_d_k < SHA1_HASH_SIZE ==>
    digest[vf_d_k] == VF_BYTE_BE32(vf_blk_h[vf_d_k >> 2], vf_d_k & 3))
__CPROVER_ensures(vf_c_k < sizeof(sha1_ctx_t) ==> ((const uint8_t *)ctx)[vf_c_k] == 0)
;

#else /* VF_HASH_STREAM ------------------------------------------------ STREAM -- */
/* The abstract hash used inside HMAC and the one-shot entry points.  These contracts are
 * U/F seen through the representation relation  count == vf_s_len, tail == last
 * (vf_s_len mod 64) stream bytes, block log == the rest  (DESIGN.md, C07). */
static inline void
sha1_init(sha1_ctx_p ctx)
__CPROVER_requires(__CPROVER_w_ok(ctx, sizeof(sha1_ctx_t)))
__CPROVER_assigns(__CPROVER_object_upto(ctx, sizeof(sha1_ctx_t)))
__CPROVER_assigns(vf_s_len, vf_s_open, vf_s_ctx)
__CPROVER_ensures(vf_s_len == 0 && vf_s_open == 1 && vf_s_ctx == ctx)
;
static inline void
sha1_update(sha1_ctx_p ctx, const uint8_t *data, const size_t data_size)
__CPROVER_requires(__CPROVER_w_ok(ctx, sizeof(sha1_ctx_t)))
__CPROVER_requires(vf_s_open == 1 && vf_s_ctx == ctx)
__CPROVER_requires(data_size == 0 || __CPROVER_r_ok(data, data_size))
__CPROVER_assigns(__CPROVER_object_upto(ctx, sizeof(sha1_ctx_t)))
__CPROVER_assigns(vf_s_len, vf_s_at)
__CPROVER_ensures(vf_s_len == __CPROVER_old(vf_s_len) + data_size)
__CPROVER_ensures(vf_s_at ==
    ((vf_s_k >= __CPROVER_old(vf_s_len) && vf_s_k - __CPROVER_old(vf_s_len) < data_size) ?
	data[vf_s_k - __CPROVER_old(vf_s_len)] : __CPROVER_old(vf_s_at)))
;
static inline void
sha1_final(sha1_ctx_p ctx, uint8_t *digest)
__CPROVER_requires(__CPROVER_w_ok(ctx, sizeof(sha1_ctx_t)))
__CPROVER_requires(vf_s_open == 1 && vf_s_ctx == ctx)
__CPROVER_requires(__CPROVER_w_ok(digest, SHA1_HASH_SIZE))
__CPROVER_requires(vf_d_n < VF_D_MAX)
__CPROVER_assigns(__CPROVER_object_upto(ctx, sizeof(sha1_ctx_t)), __CPROVER_object_upto(digest, SHA1_HASH_SIZE))
__CPROVER_assigns(vf_s_open, vf_d_n, vf_d_len[vf_d_n], vf_d_at[vf_d_n], vf_d_size[vf_d_n], vf_d_dig[vf_d_n])
__CPROVER_ensures(vf_s_open == 0 && vf_d_n == __CPROVER_old(vf_d_n) + 1)
__CPROVER_ensures(vf_d_len[__CPROVER_old(vf_d_n)] == vf_s_len && vf_d_at[__CPROVER_old(vf_d_n)] == vf_s_at &&
    vf_d_size[__CPROVER_old(vf_d_n)] == SHA1_HASH_SIZE)
__CPROVER_ensures(vf_d_k < SHA1_HASH_SIZE ==> digest[vf_d_k] == vf_d_dig[__CPROVER_old(vf_d_n)])
__CPROVER_ensures(vf_c_k < sizeof(sha1_ctx_t) ==> ((const uint8_t *)ctx)[vf_c_k] == 0)
;

/* ---- C07: HMAC-SHA1 (RFC 2104); B = 64, digest 16 bytes ---- */
static inline void
hmac_sha1_init(const uint8_t *key, const size_t key_len, hmac_sha1_ctx_p hctx)
__CPROVER_requires(__CPROVER_is_fresh(hctx, sizeof(hmac_sha1_ctx_t)))
__CPROVER_requires(VF_KEY_FRESH(key, key_len))
__CPROVER_requires(vf_d_n == 0)
__CPROVER_assigns(__CPROVER_object_whole(hctx))
VF_STREAM_GHOST_ASSIGNS
VF_HMAC_INIT_POST(key, key_len, hctx, VF_SHA1_B, SHA1_HASH_SIZE)
;
static inline void
hmac_sha1_update(hmac_sha1_ctx_p hctx, const uint8_t *data, const size_t data_size)
__CPROVER_requires(__CPROVER_is_fresh(hctx, sizeof(hmac_sha1_ctx_t)))
__CPROVER_requires(data_size == 0 || __CPROVER_is_fresh(data, data_size))
__CPROVER_requires(vf_s_open == 1 && vf_s_ctx == &hctx->ctx)
/* only the hash context: k_opad is preserved by the frame */
__CPROVER_assigns(__CPROVER_object_upto(&hctx->ctx, sizeof(sha1_ctx_t)), vf_s_len, vf_s_at)
__CPROVER_ensures(vf_s_open == 1 && vf_s_len == __CPROVER_old(vf_s_len) + data_size)
__CPROVER_ensures(vf_s_at ==
    ((vf_s_k >= __CPROVER_old(vf_s_len) && vf_s_k - __CPROVER_old(vf_s_len) < data_size) ?
	data[vf_s_k - __CPROVER_old(vf_s_len)] : __CPROVER_old(vf_s_at)))
;
static inline void
hmac_sha1_final(hmac_sha1_ctx_p hctx, uint8_t *digest)
__CPROVER_requires(__CPROVER_is_fresh(hctx, sizeof(hmac_sha1_ctx_t)))
__CPROVER_requires(__CPROVER_is_fresh(digest, SHA1_HASH_SIZE))
__CPROVER_requires(vf_s_open == 1 && vf_s_ctx == &hctx->ctx && vf_d_n <= 1)
__CPROVER_assigns(__CPROVER_object_whole(hctx), __CPROVER_object_upto(digest, SHA1_HASH_SIZE))
VF_STREAM_GHOST_ASSIGNS
VF_HMAC_FINAL_POST(hctx, hmac_sha1_ctx_t, digest, VF_SHA1_B, SHA1_HASH_SIZE)
;
static inline void
hmac_sha1(const uint8_t *key, const size_t key_len, const uint8_t *data,
    const size_t data_size, uint8_t *digest)
__CPROVER_requires(VF_KEY_FRESH(key, key_len))
__CPROVER_requires(data_size == 0 || __CPROVER_is_fresh(data, data_size))
__CPROVER_requires(__CPROVER_is_fresh(digest, SHA1_HASH_SIZE))
__CPROVER_requires(vf_d_n == 0)
__CPROVER_assigns(__CPROVER_object_upto(digest, SHA1_HASH_SIZE))
VF_STREAM_GHOST_ASSIGNS
VF_HMAC_ONESHOT_POST(key, key_len, data, data_size, digest, VF_SHA1_B, SHA1_HASH_SIZE)
;
static inline void
sha1_hmac_get_digest(const void *key, const size_t key_size,
    const void *data, const size_t data_size, uint8_t *digest)
__CPROVER_requires(VF_KEY_FRESH(key, key_size))
__CPROVER_requires(data_size == 0 || __CPROVER_is_fresh(data, data_size))
__CPROVER_requires(__CPROVER_is_fresh(digest, SHA1_HASH_SIZE))
__CPROVER_requires(vf_d_n == 0)
__CPROVER_assigns(__CPROVER_object_upto(digest, SHA1_HASH_SIZE))
VF_STREAM_GHOST_ASSIGNS
VF_HMAC_ONESHOT_POST(key, key_size, data, data_size, digest, VF_SHA1_B, SHA1_HASH_SIZE)
;
static inline void
sha1_hmac_get_digest_str(const char *key, size_t key_size,
    const char *data, size_t data_size, char *digest_str)
__CPROVER_requires(VF_KEY_FRESH(key, key_size))
__CPROVER_requires(data_size == 0 || __CPROVER_is_fresh(data, data_size))
__CPROVER_requires(__CPROVER_is_fresh(digest_str, SHA1_HASH_STR_SIZE + 1))
__CPROVER_requires(vf_d_n == 0)
__CPROVER_assigns(__CPROVER_object_upto(digest_str, SHA1_HASH_STR_SIZE + 1))
VF_STREAM_GHOST_ASSIGNS
__CPROVER_ensures(vf_d_n == VF_HMAC_NK(key_size, VF_SHA1_B) + 2)
VF_HEXSTR_POST(digest_str, SHA1_HASH_SIZE, vf_d_dig[VF_HMAC_NK(key_size, VF_SHA1_B) + 1])
;

/* ---- C04: one-shot and hex-string entry points ---- */
static inline void
sha1_cvt_hex(const uint8_t *bin, uint8_t *hex)
__CPROVER_requires(__CPROVER_r_ok(bin, SHA1_HASH_SIZE) && __CPROVER_w_ok(hex, SHA1_HASH_STR_SIZE + 1))
__CPROVER_assigns(__CPROVER_object_upto(hex, SHA1_HASH_STR_SIZE + 1))
VF_HEXSTR_POST(hex, SHA1_HASH_SIZE, bin[vf_d_k])
;
static inline void
sha1_get_digest(const void *data, const size_t data_size, uint8_t *digest)
__CPROVER_requires(data_size == 0 || __CPROVER_is_fresh(data, data_size))
__CPROVER_requires(__CPROVER_is_fresh(digest, SHA1_HASH_SIZE))
__CPROVER_requires(vf_d_n == 0)
__CPROVER_assigns(__CPROVER_object_upto(digest, SHA1_HASH_SIZE))
VF_STREAM_GHOST_ASSIGNS
VF_HASH_ONESHOT_POST(data, data_size, SHA1_HASH_SIZE)
__CPROVER_ensures(vf_d_k < SHA1_HASH_SIZE ==> digest[vf_d_k] == vf_d_dig[0])
;
static inline void
sha1_get_digest_str(const char *data, const size_t data_size, char *digest_str)
__CPROVER_requires(data_size == 0 || __CPROVER_is_fresh(data, data_size))
__CPROVER_requires(__CPROVER_is_fresh(digest_str, SHA1_HASH_STR_SIZE + 1))
__CPROVER_requires(vf_d_n == 0)
__CPROVER_assigns(__CPROVER_object_upto(digest_str, SHA1_HASH_STR_SIZE + 1))
VF_STREAM_GHOST_ASSIGNS
VF_HASH_ONESHOT_POST(data, data_size, SHA1_HASH_SIZE)
VF_HEXSTR_POST(digest_str, SHA1_HASH_SIZE, vf_d_dig[0])
;
#endif /* VF_HASH_STREAM */

#endif /* !VF_REPLAY */
#endif
