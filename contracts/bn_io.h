/*
 * C01 rung 1, import / export (big- and little-endian, binary and hex) of include/math/big_num.h.
 * Included from contracts/bn.h.
 *
 * Digit-array level (bn_digits_import_* / bn_digits_export_*): safety contracts - exact spans, frame,
 * return codes - proved for unbounded sizes with loop contracts where the loops allow it.
 * bn_t level (bn_import_* / bn_export_*): value contracts, bounded by buffer size (VF_IO_MAXBUF
 * bytes, at most 32): the imported number IS the number the bytes denote; the exported bytes denote
 * the number; EOVERFLOW exactly when it does not fit (binary), success implies exactness (hex).
 */
#ifndef VF_CONTRACTS_BN_IO_H
#define VF_CONTRACTS_BN_IO_H
#ifndef VF_REPLAY

#ifndef VF_IO_MAXBUF
#ifdef VF_BN_SAFETY_ONLY
#define VF_IO_MAXBUF	((size_t)4096)
#else
#define VF_IO_MAXBUF	((size_t)32)
#endif
#endif

/* byte strings as numbers (only b[0..n-1] are read; n <= 32) */
#define VF_BT_LE(b, n, i)	(((size_t)(i) < (size_t)(n)) ? (((vf_bnv_t)(b)[i]) << ((8 * (i)) % VF_BN_VBITS)) : (vf_bnv_t)0)
#define VF_BT_BE(b, n, i)	(((size_t)(i) < (size_t)(n)) ? (((vf_bnv_t)(b)[(size_t)(n) - 1 - (i)]) << ((8 * (i)) % VF_BN_VBITS)) : (vf_bnv_t)0)
#define VF_REP32(M, b, n) (								\
	M(b,n,0) | M(b,n,1) | M(b,n,2) | M(b,n,3) | M(b,n,4) | M(b,n,5) | M(b,n,6) | M(b,n,7) |		\
	M(b,n,8) | M(b,n,9) | M(b,n,10) | M(b,n,11) | M(b,n,12) | M(b,n,13) | M(b,n,14) | M(b,n,15) |	\
	M(b,n,16) | M(b,n,17) | M(b,n,18) | M(b,n,19) | M(b,n,20) | M(b,n,21) | M(b,n,22) | M(b,n,23) |	\
	M(b,n,24) | M(b,n,25) | M(b,n,26) | M(b,n,27) | M(b,n,28) | M(b,n,29) | M(b,n,30) | M(b,n,31))
#define VF_BYTES_LE(b, n)	VF_REP32(VF_BT_LE, b, n)
#define VF_BYTES_BE(b, n)	VF_REP32(VF_BT_BE, b, n)
/* number of bytes needed for v: smallest t with v < 2^(8t) */
#define VF_BYTELEN_IS(v, t)	((v) < VF_POW2(8 * (t)) && ((t) == 0 || (v) >= VF_POW2(8 * ((t) - 1))))

#define VF_HEXVAL(c)	(((c) >= '0' && (c) <= '9') ? (unsigned)((c) - '0') :		\
	(((c) >= 'a' && (c) <= 'f') ? (unsigned)((c) - 'a' + 10) :			\
	(((c) >= 'A' && (c) <= 'F') ? (unsigned)((c) - 'A' + 10) : 16u)))
/* big-endian hex text -> number: every hex digit counts, other characters are separators */
static inline vf_bnv_t
vf_hex_be_val(const uint8_t *b, size_t n) {
	vf_bnv_t v = 0;
	for (size_t i = 0; i < VF_IO_MAXBUF; i ++) {
		if (i < n && VF_HEXVAL(b[i]) < 16u)
			v = ((v << 4) | VF_HEXVAL(b[i]));
	}
	return (v);
}
static inline size_t
vf_hex_digits(const uint8_t *b, size_t n) {
	size_t c = 0;
	for (size_t i = 0; i < VF_IO_MAXBUF; i ++) {
		if (i < n && VF_HEXVAL(b[i]) < 16u)
			c ++;
	}
	return (c);
}
/* little-endian hex text ("L->H": byte 0 first, each byte as two digits high nibble first).
 * As coded, an unpaired last digit is ignored. */
static inline vf_bnv_t
vf_hex_le_val(const uint8_t *b, size_t n) {
	vf_bnv_t v = 0;
	size_t bytes = 0;
	unsigned hi = 16u;
	for (size_t i = 0; i < VF_IO_MAXBUF; i ++) {
		if (i < n && VF_HEXVAL(b[i]) < 16u) {
			if (hi == 16u) {
				hi = VF_HEXVAL(b[i]);
			} else {
				v |= (((vf_bnv_t)((hi << 4) | VF_HEXVAL(b[i]))) << ((8 * bytes) % VF_BN_VBITS));
				bytes ++;
				hi = 16u;
			}
		}
	}
	return (v);
}

#define VF_BUF_R(b, n)		((n) <= VF_IO_MAXBUF && __CPROVER_r_ok((b), (n)))
#define VF_BUF_RW(b, n)		((n) <= VF_IO_MAXBUF && __CPROVER_rw_ok((b), (n)))
#define VF_SZ_OPT(p)		((p) == NULL || __CPROVER_rw_ok((p), sizeof(size_t)))
#define VF_DS_CAP_OK(a, n)	((n) <= VF_BN_MAXCOUNT && __CPROVER_rw_ok((a), VF_DS_SZ(n)))

/* ------------------------------------------------------------ digit-array level: safety */
#define VF_IMPORT_BIN_CONTRACT(fn)							\
static inline int fn(bn_digit_t *a, size_t count, const uint8_t *buf, size_t buf_size, size_t *count_ret) \
__CPROVER_requires(a != NULL && buf != NULL && VF_DS_CAP_OK(a, count) && VF_BUF_R(buf, buf_size) && VF_SZ_OPT(count_ret)) \
__CPROVER_requires(!__CPROVER_same_object(a, buf) && (count_ret == NULL ||		\
    (!__CPROVER_same_object(count_ret, a) && !__CPROVER_same_object(count_ret, buf))))	\
__CPROVER_assigns(count != 0 && buf_size != 0 && VF_DS_SZ(count) >= buf_size: __CPROVER_object_upto(a, VF_DS_SZ(count))) \
__CPROVER_assigns(count_ret != NULL: *count_ret)					\
__CPROVER_ensures(__CPROVER_return_value == ((count == 0 || buf_size == 0) ? EINVAL :	\
    ((VF_DS_SZ(count) < buf_size) ? EOVERFLOW : 0)))					\
__CPROVER_ensures((__CPROVER_return_value == 0 && count_ret != NULL) ==>		\
    (*count_ret == (buf_size + sizeof(bn_digit_t) - 1) / sizeof(bn_digit_t) && *count_ret <= count)) \
;
VF_IMPORT_BIN_CONTRACT(bn_digits_import_be_bin)
VF_IMPORT_BIN_CONTRACT(bn_digits_import_le_bin)

#define VF_IMPORT_HEX_CONTRACT(fn)							\
static inline int fn(bn_digit_t *a, size_t count, const uint8_t *buf, size_t buf_size)	\
__CPROVER_requires(a != NULL && buf != NULL && VF_DS_CAP_OK(a, count) && VF_BUF_R(buf, buf_size)) \
__CPROVER_requires(!__CPROVER_same_object(a, buf))					\
__CPROVER_assigns(count != 0 && buf_size != 0: __CPROVER_object_upto(a, VF_DS_SZ(count)))	\
__CPROVER_ensures(__CPROVER_return_value == 0 || __CPROVER_return_value == EINVAL || __CPROVER_return_value == EOVERFLOW) \
__CPROVER_ensures((__CPROVER_return_value == EINVAL) == (count == 0 || buf_size == 0))	\
__CPROVER_ensures((count != 0 && buf_size != 0 && VF_DS_SZ(count) < buf_size / 2) ==> __CPROVER_return_value == EOVERFLOW) \
;
VF_IMPORT_HEX_CONTRACT(bn_digits_import_le_hex)
VF_IMPORT_HEX_CONTRACT(bn_digits_import_be_hex)

#define VF_EXPORT_CONTRACT(fn, MINBUF)							\
static inline int fn(bn_digit_t *a, size_t count, uint32_t flags, uint8_t *buf, size_t buf_size, size_t *buf_size_ret) \
__CPROVER_requires(a != NULL && buf != NULL && (count == 0 || VF_DS_R(a, count)) && VF_BUF_RW(buf, buf_size) && VF_SZ_OPT(buf_size_ret)) \
__CPROVER_requires(!__CPROVER_same_object(a, buf) && (buf_size_ret == NULL ||		\
    (!__CPROVER_same_object(buf_size_ret, a) && !__CPROVER_same_object(buf_size_ret, buf)))) \
__CPROVER_assigns(buf_size >= MINBUF: __CPROVER_object_upto(buf, buf_size))		\
__CPROVER_assigns(buf_size_ret != NULL: *buf_size_ret)					\
__CPROVER_ensures(__CPROVER_return_value == 0 || __CPROVER_return_value == EINVAL || __CPROVER_return_value == EOVERFLOW) \
__CPROVER_ensures((__CPROVER_return_value == EINVAL) == (buf_size < MINBUF))		\
;
VF_EXPORT_CONTRACT(bn_digits_export_be_bin, 1)
VF_EXPORT_CONTRACT(bn_digits_export_le_bin, 1)
VF_EXPORT_CONTRACT(bn_digits_export_le_hex, 2)
VF_EXPORT_CONTRACT(bn_digits_export_be_hex, 2)

/* ------------------------------------------------------------ bn_t level: value */
#define VF_BN_IMPORT_PRE(bn, buf, n)	(VF_BN_OK(bn) && VF_BN_CNT_OK(bn) && (bn)->digits <= (bn)->count &&	\
	(buf) != NULL && VF_BUF_R(buf, n) && !__CPROVER_same_object((bn), (buf)))

static inline int
bn_import_be_bin(bn_p bn, const uint8_t *buf, size_t buf_size)
__CPROVER_requires(VF_BN_IMPORT_PRE(bn, buf, buf_size))
__CPROVER_assigns(VF_BN_FRAME(bn))
__CPROVER_ensures(__CPROVER_return_value == ((buf_size == 0) ? EINVAL :
    ((bn->count * sizeof(bn_digit_t) < buf_size) ? EOVERFLOW : 0)))
__CPROVER_ensures(__CPROVER_return_value == 0 ==> (VF_BN_WF(*bn) && VF_BN_VAL(*bn) == VF_BYTES_BE(buf, buf_size)))
;
static inline int
bn_import_le_bin(bn_p bn, const uint8_t *buf, size_t buf_size)
__CPROVER_requires(VF_BN_IMPORT_PRE(bn, buf, buf_size))
__CPROVER_assigns(VF_BN_FRAME(bn))
__CPROVER_ensures(__CPROVER_return_value == ((buf_size == 0) ? EINVAL :
    ((bn->count * sizeof(bn_digit_t) < buf_size) ? EOVERFLOW : 0)))
__CPROVER_ensures(__CPROVER_return_value == 0 ==> (VF_BN_WF(*bn) && VF_BN_VAL(*bn) == VF_BYTES_LE(buf, buf_size)))
;
/* hex: success implies the exact value; a text whose hex digits fit the capacity (and whose raw
 * length passes the function's own buf_size/2 pre-check) is accepted */
static inline int
bn_import_be_hex(bn_p bn, const uint8_t *buf, size_t buf_size)
__CPROVER_requires(VF_BN_IMPORT_PRE(bn, buf, buf_size))
__CPROVER_assigns(VF_BN_FRAME(bn))
__CPROVER_ensures(__CPROVER_return_value == 0 || __CPROVER_return_value == EINVAL || __CPROVER_return_value == EOVERFLOW)
__CPROVER_ensures((__CPROVER_return_value == EINVAL) == (buf_size == 0))
__CPROVER_ensures(__CPROVER_return_value == 0 ==> VF_BN_WF(*bn))
__CPROVER_ensures(__CPROVER_return_value == 0 ==> VF_BN_VAL(*bn) == vf_hex_be_val(buf, buf_size))
__CPROVER_ensures((buf_size != 0 && bn->count * sizeof(bn_digit_t) >= buf_size / 2 &&
    (vf_hex_digits(buf, buf_size) + 1) / 2 <= bn->count * sizeof(bn_digit_t)) ==> __CPROVER_return_value == 0)
;
static inline int
bn_import_le_hex(bn_p bn, const uint8_t *buf, size_t buf_size)
__CPROVER_requires(VF_BN_IMPORT_PRE(bn, buf, buf_size))
__CPROVER_assigns(VF_BN_FRAME(bn))
__CPROVER_ensures(__CPROVER_return_value == 0 || __CPROVER_return_value == EINVAL || __CPROVER_return_value == EOVERFLOW)
__CPROVER_ensures((__CPROVER_return_value == EINVAL) == (buf_size == 0))
__CPROVER_ensures(__CPROVER_return_value == 0 ==> VF_BN_WF(*bn))
__CPROVER_ensures(__CPROVER_return_value == 0 ==> VF_BN_VAL(*bn) == vf_hex_le_val(buf, buf_size))
__CPROVER_ensures((buf_size != 0 && bn->count * sizeof(bn_digit_t) >= buf_size / 2 &&
    vf_hex_digits(buf, buf_size) / 2 <= bn->count * sizeof(bn_digit_t)) ==> __CPROVER_return_value == 0)
;

#define VF_BN_EXPORT_PRE(bn, buf, n, ret)	(VF_BN_IN(bn) && (buf) != NULL && VF_BUF_RW(buf, n) &&	\
	VF_SZ_OPT(ret) && !__CPROVER_same_object((bn), (buf)) &&					\
	((ret) == NULL || (!__CPROVER_same_object((ret), (bn)) && !__CPROVER_same_object((ret), (buf)))))
#define VF_AUTO(flags)	(((flags) & BN_EXPORT_F_AUTO_SIZE) != 0)

/* binary export: EOVERFLOW exactly when the number needs more than buf_size bytes; on success the
 * written bytes denote the number: all buf_size bytes (zero padded), or with AUTO_SIZE the
 * *buf_size_ret bytes actually produced */
static inline int
bn_export_be_bin(bn_p bn, uint32_t flags, uint8_t *buf, size_t buf_size, size_t *buf_size_ret)
__CPROVER_requires(VF_BN_EXPORT_PRE(bn, buf, buf_size, buf_size_ret))
__CPROVER_assigns(buf_size != 0: __CPROVER_object_upto(buf, buf_size))
__CPROVER_assigns(buf_size_ret != NULL: *buf_size_ret)
__CPROVER_ensures(__CPROVER_return_value == 0 || __CPROVER_return_value == EINVAL || __CPROVER_return_value == EOVERFLOW)
__CPROVER_ensures((__CPROVER_return_value == EINVAL) == (buf_size == 0))
__CPROVER_ensures(buf_size != 0 ==> ((__CPROVER_return_value == EOVERFLOW) == (VF_BN_VAL(*bn) >= VF_POW2(8 * buf_size))))
__CPROVER_ensures((__CPROVER_return_value == 0 && !VF_AUTO(flags)) ==> VF_BYTES_BE(buf, buf_size) == VF_BN_VAL(*bn))
__CPROVER_ensures((__CPROVER_return_value == 0 && !VF_AUTO(flags) && buf_size_ret != NULL) ==> *buf_size_ret == buf_size)
__CPROVER_ensures((__CPROVER_return_value == 0 && VF_AUTO(flags) && buf_size_ret != NULL) ==>
    (*buf_size_ret >= 1 && *buf_size_ret <= buf_size && VF_BYTES_BE(buf, *buf_size_ret) == VF_BN_VAL(*bn) &&
     (VF_BN_VAL(*bn) == 0 || VF_BYTELEN_IS(VF_BN_VAL(*bn), *buf_size_ret))))
;
static inline int
bn_export_le_bin(bn_p bn, uint32_t flags, uint8_t *buf, size_t buf_size, size_t *buf_size_ret)
__CPROVER_requires(VF_BN_EXPORT_PRE(bn, buf, buf_size, buf_size_ret))
__CPROVER_assigns(buf_size != 0: __CPROVER_object_upto(buf, buf_size))
__CPROVER_assigns(buf_size_ret != NULL: *buf_size_ret)
__CPROVER_ensures(__CPROVER_return_value == 0 || __CPROVER_return_value == EINVAL || __CPROVER_return_value == EOVERFLOW)
__CPROVER_ensures((__CPROVER_return_value == EINVAL) == (buf_size == 0))
/* never success with a truncated number */
__CPROVER_ensures((buf_size != 0 && VF_BN_VAL(*bn) >= VF_POW2(8 * buf_size)) ==> __CPROVER_return_value == EOVERFLOW)
/* a number that fits is exported */
__CPROVER_ensures((buf_size != 0 && VF_BN_VAL(*bn) < VF_POW2(8 * buf_size)) ==> __CPROVER_return_value == 0)
__CPROVER_ensures((__CPROVER_return_value == 0 && !VF_AUTO(flags)) ==> VF_BYTES_LE(buf, buf_size) == VF_BN_VAL(*bn))
__CPROVER_ensures((__CPROVER_return_value == 0 && VF_AUTO(flags) && buf_size_ret != NULL) ==>
    (*buf_size_ret <= buf_size && VF_BYTES_LE(buf, *buf_size_ret) == VF_BN_VAL(*bn)))
;
/* hex export: on success the text consists of hex digits only, denotes the number, is NUL
 * terminated when there is room, and *buf_size_ret is its length; EOVERFLOW only if it does not fit */
static inline int
bn_export_be_hex(bn_p bn, uint32_t flags, uint8_t *buf, size_t buf_size, size_t *buf_size_ret)
__CPROVER_requires(VF_BN_EXPORT_PRE(bn, buf, buf_size, buf_size_ret) && buf_size_ret != NULL)
__CPROVER_assigns(buf_size >= 2: __CPROVER_object_upto(buf, buf_size))
__CPROVER_assigns(*buf_size_ret)
__CPROVER_ensures(__CPROVER_return_value == 0 || __CPROVER_return_value == EINVAL || __CPROVER_return_value == EOVERFLOW)
__CPROVER_ensures((__CPROVER_return_value == EINVAL) == (buf_size < 2))
__CPROVER_ensures((__CPROVER_return_value == EOVERFLOW) ==> (VF_BN_VAL(*bn) >= VF_POW2(4 * (buf_size & ~(size_t)1))))
__CPROVER_ensures(__CPROVER_return_value == 0 ==> (*buf_size_ret <= buf_size && (*buf_size_ret % 2) == 0 &&
    vf_hex_digits(buf, *buf_size_ret) == *buf_size_ret && vf_hex_be_val(buf, *buf_size_ret) == VF_BN_VAL(*bn) &&
    (*buf_size_ret == buf_size || buf[*buf_size_ret] == 0)))
;
static inline int
bn_export_le_hex(bn_p bn, uint32_t flags, uint8_t *buf, size_t buf_size, size_t *buf_size_ret)
__CPROVER_requires(VF_BN_EXPORT_PRE(bn, buf, buf_size, buf_size_ret) && buf_size_ret != NULL)
__CPROVER_assigns(buf_size >= 2: __CPROVER_object_upto(buf, buf_size))
__CPROVER_assigns(*buf_size_ret)
__CPROVER_ensures(__CPROVER_return_value == 0 || __CPROVER_return_value == EINVAL || __CPROVER_return_value == EOVERFLOW)
__CPROVER_ensures((__CPROVER_return_value == EINVAL) == (buf_size < 2))
__CPROVER_ensures(__CPROVER_return_value == 0 ==> (*buf_size_ret <= buf_size && (*buf_size_ret % 2) == 0 &&
    vf_hex_digits(buf, *buf_size_ret) == *buf_size_ret && vf_hex_le_val(buf, *buf_size_ret) == VF_BN_VAL(*bn) &&
    (*buf_size_ret == buf_size || buf[*buf_size_ret] == 0)))
;

#endif /* !VF_REPLAY */
#endif
