/*
 * Contracts for include/proto/dns.h.
 *
 * Part 1 (C13): everything that reads a received DNS message or a label sequence.
 * Part 2 (C15, construction side) is to be appended below the marker at the end;
 * it can rely on the parser contracts of part 1 for its round-trip obligations.
 *
 * Redeclarations only: the header itself is not edited.  Include this file BEFORE
 * "proto/dns.h".  All contracts are written so that they serve both as the
 * enforced contract of the function's own job and as the replaced contract in the
 * jobs of its callers (every call site in dns.h passes separate objects, so
 * is_fresh in `requires` is satisfiable there).
 *
 * Input model (property C13): the message is an exact-size span of `msg_size`
 * hostile bytes, msg_size symbolic, 0 <= msg_size <= VF_DNS_MSG_MAX (65535: the
 * protocol maximum, RFC 1035 4.2.2 two-octet length prefix).  Offsets, counts and
 * every byte of the message are unconstrained.
 */
#ifndef VF_CONTRACTS_DNS_H
#define VF_CONTRACTS_DNS_H
#include "vf/vf.h"
#include <sys/types.h>
#include <errno.h>
#include <netinet/in.h>

#ifndef VF_DNS_MSG_MAX
#define VF_DNS_MSG_MAX		((size_t)65535)
#endif
/* capacity of caller-supplied name buffers in the harnesses (any size_t would do for the
 * code; the bound keeps is_fresh below CBMC's max allocation size) */
#ifndef VF_DNS_NAMEBUF_MAX
#define VF_DNS_NAMEBUF_MAX	((size_t)65535)
#endif

#define VF_DNS_HDR_SIZE		((size_t)12)	/* sizeof(dns_hdr_t) */
#define VF_DNS_Q_FIXED		((size_t)4)	/* QTYPE + QCLASS */
#define VF_DNS_RR_FIXED		((size_t)10)	/* TYPE + CLASS + TTL + RDLENGTH */
#define VF_DNS_MAX_JUMPS	((size_t)64)	/* DNS_MAX_NAME_CYCLES */
#define VF_DNS_FIND_NAME_MAX	((size_t)510)	/* sizeof(nametm) in dns_msg_rr_find */
/* what a hostile message can make the uncompressed name length grow to: <= 64 jumps, every
 * segment between two jumps lies inside the message (RFC 1035 limit of 255 is NOT enforced by the code) */
#define VF_DNS_NAME_LEN_CAP	((VF_DNS_MAX_JUMPS + 1) * 65536)

/* header counters, read from the received bytes in network order (spec side) */
#define VF_DNS_BE16(p, off)	((size_t)((((const uint8_t *)(p))[(off)] << 8) | ((const uint8_t *)(p))[(off) + 1]))
#define VF_DNS_QD(p)		VF_DNS_BE16(p, 4)
#define VF_DNS_AN(p)		VF_DNS_BE16(p, 6)
#define VF_DNS_NS(p)		VF_DNS_BE16(p, 8)
#define VF_DNS_AR(p)		VF_DNS_BE16(p, 10)

/* Offsets of the question / RR accessors: 0 (rejected by the code) or a position after the
 * header.  Offsets 1..11 -- inside the header -- are accepted by the code when no name is
 * requested, but the accessors then form `(size_t)hdr + offset + name_size - sizeof(uint8_t*)`
 * below the start of the message object, an integer round trip CBMC's pointer model cannot
 * follow; no in-tree caller passes such an offset (dns_msg_info_get starts at 12). */
#define VF_DNS_OFFSET_ARG(offset)	((offset) == 0 || (offset) >= VF_DNS_HDR_SIZE)

/*
 * Postconditions of the two functions that WRITE through a moving cursor, as plain C
 * macros: used verbatim in the __CPROVER_ensures clauses below and as assertions of the
 * plain-mode (non --dfcc) unbounded harness harness/C13/dns_labels_plain.c, see HOWTO
 * "Pointer facts in loop invariants" and the note in obligations/C13.d/dns.json.
 */
#define VF_DNS_POST_SOL2NAME_RV(rv)						\
	((rv) == 0 || (rv) == EINVAL || (rv) == EOVERFLOW || (rv) == EOPNOTSUPP || (rv) == EBADMSG)
#define VF_DNS_POST_SOL2NAME_EINVAL(rv, buf, buf_size, name, name_buf_size)	\
	(((rv) == EINVAL) == ((buf) == NULL || (buf_size) == 0 || (name) == NULL || (name_buf_size) == 0))
#define VF_DNS_POST_SOL2NAME_EOVERFLOW(rv, buf_size, name_buf_size)		\
	((rv) != EOVERFLOW || (name_buf_size) < (buf_size) - 1)
#define VF_DNS_POST_SOL2NAME_LEN(rv, buf_size, name_len_ret)			\
	((rv) != 0 || (name_len_ret) == NULL || (1 <= *(name_len_ret) && *(name_len_ret) <= (buf_size)))

#define VF_DNS_POST_L2N_RV(rv)							\
	((rv) == 0 || (rv) == EINVAL || (rv) == EBADMSG || (rv) == EOPNOTSUPP || (rv) == ELOOP || \
	 (rv) == EOVERFLOW)
#define VF_DNS_POST_L2N_EINVAL(rv, hdr, msg_size, offset, name, name_buf_size)	\
	(((rv) == EINVAL) == ((hdr) == NULL || (name) == NULL || (name_buf_size) == 0 ||	\
	    (offset) < VF_DNS_HDR_SIZE || (offset) > (msg_size)))
/* text + NUL fit the caller's buffer, and the NUL is where the reported length says */
#define VF_DNS_POST_L2N_TEXT(rv, name, name_buf_size, name_len_ret)		\
	((rv) != 0 || (name_len_ret) == NULL ||					\
	    (*(name_len_ret) < (name_buf_size) && (name)[*(name_len_ret)] == 0))
/* loud failure: the length that did not fit is reported */
#define VF_DNS_POST_L2N_EOVERFLOW(rv, name_buf_size, name_len_ret)		\
	((rv) != EOVERFLOW || (name_len_ret) == NULL || *(name_len_ret) >= (name_buf_size))

#ifndef VF_REPLAY
#define VF_RV			__CPROVER_return_value
/* received message: NULL, empty, or exactly msg_size readable bytes */
#define VF_DNS_MSG(hdr, n)	((hdr) == NULL || (n) == 0 || __CPROVER_is_fresh((hdr), (n)))
#define VF_OUT_OPT(p, T)	((p) == NULL || __CPROVER_is_fresh((p), sizeof(T)))

/* forward declarations of the header's types (identical to the header's own) */
struct dns_hdr_s;
typedef struct dns_hdr_s *dns_hdr_p;

/* ------------------------------------------------------------------------------
 * Label sequences without message context
 * ---------------------------------------------------------------------------- */

/* Size of the label sequence at buf (compression pointer = 2 bytes, ends the name). */
static inline int
SequenceOfLabelsGetSize(const uint8_t *buf, size_t buf_size, size_t *name_len_ret)
__CPROVER_requires(buf_size <= VF_DNS_MSG_MAX)
__CPROVER_requires(buf == NULL || buf_size == 0 || __CPROVER_is_fresh(buf, buf_size))
__CPROVER_requires(VF_OUT_OPT(name_len_ret, size_t))
__CPROVER_assigns(name_len_ret != NULL: *name_len_ret)
__CPROVER_ensures(VF_RV == 0 || VF_RV == EINVAL || VF_RV == EBADMSG)
__CPROVER_ensures((VF_RV == EINVAL) == (buf == NULL || buf_size == 0 || name_len_ret == NULL))
/* the reported size lies inside the buffer */
__CPROVER_ensures(VF_RV == 0 ==> (1 <= *name_len_ret && *name_len_ret <= buf_size))
;

/* Uncompressed label sequence -> dotted, NUL-terminated name. */
static inline int
SequenceOfLabelsToDomainName(const uint8_t *buf, size_t buf_size, uint8_t *name,
    size_t name_buf_size, size_t *name_len_ret)
__CPROVER_requires(buf_size <= VF_DNS_MSG_MAX && name_buf_size <= VF_DNS_NAMEBUF_MAX)
__CPROVER_requires(buf == NULL || buf_size == 0 || __CPROVER_is_fresh(buf, buf_size))
__CPROVER_requires(name == NULL || name_buf_size == 0 || __CPROVER_is_fresh(name, name_buf_size))
__CPROVER_requires(VF_OUT_OPT(name_len_ret, size_t))
__CPROVER_assigns(name != NULL && name_buf_size != 0: __CPROVER_object_upto(name, name_buf_size))
__CPROVER_assigns(name_len_ret != NULL: *name_len_ret)
__CPROVER_ensures(VF_DNS_POST_SOL2NAME_RV(VF_RV))
__CPROVER_ensures(VF_DNS_POST_SOL2NAME_EINVAL(VF_RV, buf, buf_size, name, name_buf_size))
__CPROVER_ensures(VF_DNS_POST_SOL2NAME_EOVERFLOW(VF_RV, buf_size, name_buf_size))
/* consumed size lies inside the buffer */
__CPROVER_ensures(VF_DNS_POST_SOL2NAME_LEN(VF_RV, buf_size, name_len_ret))
;

/* ------------------------------------------------------------------------------
 * Names inside a message (compression pointers followed, at most 64 jumps)
 * ---------------------------------------------------------------------------- */

static inline int
dns_msg_sequence_of_labels_get_name_len(dns_hdr_p hdr, size_t msg_size,
    size_t offset, size_t *name_len_ret)
__CPROVER_requires(msg_size <= VF_DNS_MSG_MAX)
__CPROVER_requires(VF_DNS_MSG(hdr, msg_size))
__CPROVER_requires(VF_OUT_OPT(name_len_ret, size_t))
__CPROVER_assigns(name_len_ret != NULL: *name_len_ret)
__CPROVER_ensures(VF_RV == 0 || VF_RV == EINVAL || VF_RV == EBADMSG ||
    VF_RV == EOPNOTSUPP || VF_RV == ELOOP)
__CPROVER_ensures((VF_RV == EINVAL) == (hdr == NULL || offset < VF_DNS_HDR_SIZE ||
    offset > msg_size || name_len_ret == NULL))
/* extreme inputs: the accumulated length cannot wrap (<= 64 jumps, each segment inside a message of <= 65535 bytes) */
__CPROVER_ensures(VF_RV == 0 ==> *name_len_ret <= VF_DNS_NAME_LEN_CAP)
;

static inline int
dns_msg_sequence_of_labels2name(dns_hdr_p hdr, size_t msg_size, size_t offset,
    uint8_t *name, size_t name_buf_size, size_t *name_len_ret)
__CPROVER_requires(msg_size <= VF_DNS_MSG_MAX && name_buf_size <= VF_DNS_NAMEBUF_MAX)
__CPROVER_requires(VF_DNS_MSG(hdr, msg_size))
__CPROVER_requires(name == NULL || name_buf_size == 0 || __CPROVER_is_fresh(name, name_buf_size))
__CPROVER_requires(VF_OUT_OPT(name_len_ret, size_t))
__CPROVER_assigns(name != NULL && name_buf_size != 0: __CPROVER_object_upto(name, name_buf_size))
__CPROVER_assigns(name_len_ret != NULL: *name_len_ret)
__CPROVER_ensures(VF_DNS_POST_L2N_RV(VF_RV))
__CPROVER_ensures(VF_DNS_POST_L2N_EINVAL(VF_RV, hdr, msg_size, offset, name, name_buf_size))
__CPROVER_ensures(VF_DNS_POST_L2N_TEXT(VF_RV, name, name_buf_size, name_len_ret))
__CPROVER_ensures(VF_DNS_POST_L2N_EOVERFLOW(VF_RV, name_buf_size, name_len_ret))
;

/* ------------------------------------------------------------------------------
 * Question section entries
 * ---------------------------------------------------------------------------- */

/* name buffer of the *_get_data functions: used iff name != NULL && name_len != NULL,
 * capacity *name_len */
#define VF_DNS_NAMEARG_PRE(name, name_len)					\
	__CPROVER_requires(VF_OUT_OPT(name_len, size_t))			\
	__CPROVER_requires(name_len == NULL || *name_len <= VF_DNS_NAMEBUF_MAX)	\
	__CPROVER_requires(name == NULL || name_len == NULL || *name_len == 0 ||	\
	    __CPROVER_is_fresh(name, *name_len))
#define VF_DNS_NAMEARG_ASSIGNS(name, name_len)					\
	__CPROVER_assigns(name != NULL && name_len != NULL && *name_len != 0:	\
	    __CPROVER_object_upto(name, *name_len))				\
	__CPROVER_assigns(name != NULL && name_len != NULL: *name_len)
#define VF_DNS_GET_DATA_RV							\
	(VF_RV == 0 || VF_RV == EINVAL || VF_RV == EBADMSG || VF_RV == EOPNOTSUPP || \
	 VF_RV == ELOOP || VF_RV == EOVERFLOW)

static inline int
dns_msg_question_get_data(dns_hdr_p hdr, size_t msg_size, size_t offset,
    uint8_t *name, size_t *name_len, uint16_t *query_type, uint16_t *query_class,
    size_t *question_size_ret)
__CPROVER_requires(msg_size <= VF_DNS_MSG_MAX)
__CPROVER_requires(VF_DNS_OFFSET_ARG(offset))
__CPROVER_requires(VF_DNS_MSG(hdr, msg_size))
VF_DNS_NAMEARG_PRE(name, name_len)
__CPROVER_requires(VF_OUT_OPT(query_type, uint16_t))
__CPROVER_requires(VF_OUT_OPT(query_class, uint16_t))
__CPROVER_requires(VF_OUT_OPT(question_size_ret, size_t))
VF_DNS_NAMEARG_ASSIGNS(name, name_len)
__CPROVER_assigns(query_type != NULL: *query_type)
__CPROVER_assigns(query_class != NULL: *query_class)
__CPROVER_assigns(question_size_ret != NULL: *question_size_ret)
__CPROVER_ensures(VF_DNS_GET_DATA_RV)
/* the name walker's codes (EOPNOTSUPP, ELOOP, EOVERFLOW) only when a name was requested */
__CPROVER_ensures((name == NULL || name_len == NULL) ==>
    (VF_RV == 0 || VF_RV == EINVAL || VF_RV == EBADMSG))
__CPROVER_ensures((hdr == NULL || offset == 0 || offset > msg_size) ==> VF_RV == EINVAL)
/* the question (name + 4 fixed bytes) lies inside the message */
__CPROVER_ensures((VF_RV == 0 && question_size_ret != NULL) ==>
    (1 + VF_DNS_Q_FIXED <= *question_size_ret && offset <= msg_size &&
     *question_size_ret <= msg_size - offset))
__CPROVER_ensures((VF_RV == 0 && name != NULL && name_len != NULL) ==>
    (*name_len < __CPROVER_old(*name_len) && name[*name_len] == 0))
;

static inline int
dns_msg_question_get_size(dns_hdr_p hdr, size_t msg_size, size_t offset,
    size_t *question_size_ret)
__CPROVER_requires(msg_size <= VF_DNS_MSG_MAX)
__CPROVER_requires(VF_DNS_OFFSET_ARG(offset))
__CPROVER_requires(VF_DNS_MSG(hdr, msg_size))
__CPROVER_requires(VF_OUT_OPT(question_size_ret, size_t))
__CPROVER_assigns(question_size_ret != NULL: *question_size_ret)
__CPROVER_ensures(VF_RV == 0 || VF_RV == EINVAL || VF_RV == EBADMSG)
__CPROVER_ensures((hdr == NULL || offset == 0 || offset > msg_size) ==> VF_RV == EINVAL)
__CPROVER_ensures((VF_RV == 0 && question_size_ret != NULL) ==>
    (1 + VF_DNS_Q_FIXED <= *question_size_ret && offset <= msg_size &&
     *question_size_ret <= msg_size - offset))
;

/* ------------------------------------------------------------------------------
 * Resource records
 * ---------------------------------------------------------------------------- */

static inline int
dns_msg_rr_get_data(dns_hdr_p hdr, size_t msg_size, size_t offset, uint8_t *name,
    size_t *name_len, uint16_t *type, uint16_t *class, uint32_t *ttl,
    uint16_t *data_size, void **data, size_t *rr_size)
__CPROVER_requires(msg_size <= VF_DNS_MSG_MAX)
__CPROVER_requires(VF_DNS_OFFSET_ARG(offset))
__CPROVER_requires(VF_DNS_MSG(hdr, msg_size))
VF_DNS_NAMEARG_PRE(name, name_len)
__CPROVER_requires(VF_OUT_OPT(type, uint16_t))
__CPROVER_requires(VF_OUT_OPT(class, uint16_t))
__CPROVER_requires(VF_OUT_OPT(ttl, uint32_t))
__CPROVER_requires(VF_OUT_OPT(data_size, uint16_t))
__CPROVER_requires(VF_OUT_OPT(data, void *))
__CPROVER_requires(VF_OUT_OPT(rr_size, size_t))
VF_DNS_NAMEARG_ASSIGNS(name, name_len)
__CPROVER_assigns(type != NULL: *type)
__CPROVER_assigns(class != NULL: *class)
__CPROVER_assigns(ttl != NULL: *ttl)
__CPROVER_assigns(data_size != NULL: *data_size)
__CPROVER_assigns(data != NULL: *data)
__CPROVER_assigns(rr_size != NULL: *rr_size)
__CPROVER_ensures(VF_DNS_GET_DATA_RV)
/* the name walker's codes (EOPNOTSUPP, ELOOP, EOVERFLOW) only when a name was requested */
__CPROVER_ensures((name == NULL || name_len == NULL) ==>
    (VF_RV == 0 || VF_RV == EINVAL || VF_RV == EBADMSG))
__CPROVER_ensures((hdr == NULL || msg_size == 0 || offset == 0 || offset > msg_size) ==>
    VF_RV == EINVAL)
/* the record (name + 10 fixed bytes + RDATA) lies inside the message */
__CPROVER_ensures((VF_RV == 0 && rr_size != NULL) ==>
    (1 + VF_DNS_RR_FIXED <= *rr_size && offset <= msg_size && *rr_size <= msg_size - offset))
/* the RDATA pointer/length pair lies inside the message ... */
__CPROVER_ensures((VF_RV == 0 && data != NULL) ==> VF_PTR_INSIDE(*data, hdr, msg_size))
__CPROVER_ensures((VF_RV == 0 && data != NULL && data_size != NULL) ==>
    VF_INSIDE(*data, *data_size, hdr, msg_size))
/* ... and is the tail of the record */
__CPROVER_ensures((VF_RV == 0 && data != NULL && data_size != NULL && rr_size != NULL) ==>
    (VF_OFF(*data) - VF_OFF(hdr) + *data_size == offset + *rr_size))
__CPROVER_ensures((VF_RV == 0 && name != NULL && name_len != NULL) ==>
    (*name_len < __CPROVER_old(*name_len) && name[*name_len] == 0))
;

static inline int
dns_msg_rr_get_size(dns_hdr_p hdr, size_t msg_size, size_t offset, size_t *rr_size)
__CPROVER_requires(msg_size <= VF_DNS_MSG_MAX)
__CPROVER_requires(VF_DNS_OFFSET_ARG(offset))
__CPROVER_requires(VF_DNS_MSG(hdr, msg_size))
__CPROVER_requires(VF_OUT_OPT(rr_size, size_t))
__CPROVER_assigns(rr_size != NULL: *rr_size)
__CPROVER_ensures(VF_RV == 0 || VF_RV == EINVAL || VF_RV == EBADMSG)
__CPROVER_ensures((hdr == NULL || msg_size == 0 || offset == 0 || offset > msg_size) ==>
    VF_RV == EINVAL)
__CPROVER_ensures((VF_RV == 0 && rr_size != NULL) ==>
    (1 + VF_DNS_RR_FIXED <= *rr_size && offset <= msg_size && *rr_size <= msg_size - offset))
;

/* Search *rr_count records starting at *offset_ret for `name`. */
static inline int
dns_msg_rr_find(dns_hdr_p hdr, size_t msg_size, size_t *offset_ret, size_t *rr_count,
    const uint8_t *name, size_t name_len, uint16_t *type, uint16_t *class,
    uint32_t *ttl, uint16_t *data_size, void **data, size_t *rr_size)
__CPROVER_requires(msg_size <= VF_DNS_MSG_MAX && name_len <= VF_DNS_NAMEBUF_MAX)
__CPROVER_requires(VF_DNS_MSG(hdr, msg_size))
__CPROVER_requires(VF_OUT_OPT(offset_ret, size_t))
__CPROVER_requires(offset_ret == NULL || VF_DNS_OFFSET_ARG(*offset_ret))
__CPROVER_requires(VF_OUT_OPT(rr_count, size_t))
__CPROVER_requires(name == NULL || name_len == 0 || __CPROVER_is_fresh(name, name_len))
__CPROVER_requires(VF_OUT_OPT(type, uint16_t))
__CPROVER_requires(VF_OUT_OPT(class, uint16_t))
__CPROVER_requires(VF_OUT_OPT(ttl, uint32_t))
__CPROVER_requires(VF_OUT_OPT(data_size, uint16_t))
__CPROVER_requires(VF_OUT_OPT(data, void *))
__CPROVER_requires(VF_OUT_OPT(rr_size, size_t))
__CPROVER_assigns(offset_ret != NULL: *offset_ret)
__CPROVER_assigns(rr_count != NULL: *rr_count)
__CPROVER_assigns(type != NULL: *type)
__CPROVER_assigns(class != NULL: *class)
__CPROVER_assigns(ttl != NULL: *ttl)
__CPROVER_assigns(data_size != NULL: *data_size)
__CPROVER_assigns(data != NULL: *data)
__CPROVER_assigns(rr_size != NULL: *rr_size)
__CPROVER_ensures(VF_DNS_GET_DATA_RV || VF_RV == ESPIPE)
__CPROVER_ensures((hdr == NULL || offset_ret == NULL || rr_count == NULL ||
    name_len > VF_DNS_FIND_NAME_MAX) ==> VF_RV == EINVAL)
/* the cursor never leaves the message and never moves backwards; the count only shrinks */
__CPROVER_ensures((hdr != NULL && offset_ret != NULL && rr_count != NULL &&
    name_len <= VF_DNS_FIND_NAME_MAX && msg_size >= VF_DNS_HDR_SIZE &&
    __CPROVER_old(*offset_ret) <= msg_size) ==>
    (__CPROVER_old(*offset_ret) <= *offset_ret && *offset_ret <= msg_size &&
     *rr_count <= __CPROVER_old(*rr_count)))
/* found: the record at the returned offset lies inside the message */
__CPROVER_ensures((VF_RV == 0 && rr_size != NULL) ==>
    (1 + VF_DNS_RR_FIXED <= *rr_size && *offset_ret <= msg_size &&
     *rr_size <= msg_size - *offset_ret))
__CPROVER_ensures((VF_RV == 0 && data != NULL) ==> VF_PTR_INSIDE(*data, hdr, msg_size))
__CPROVER_ensures((VF_RV == 0 && data != NULL && data_size != NULL) ==>
    VF_INSIDE(*data, *data_size, hdr, msg_size))
;

/* ------------------------------------------------------------------------------
 * Whole message
 * ---------------------------------------------------------------------------- */

#define VF_DNS_OFF_OK(p, n)	((p) == NULL || (VF_DNS_HDR_SIZE <= *(p) && *(p) <= (n)))
#define VF_DNS_OFF_LE(p, q)	((p) == NULL || (q) == NULL || *(p) <= *(q))

static inline int
dns_msg_info_get(dns_hdr_p hdr, size_t msgbuf_size, size_t *qd_off, size_t *an_off,
    size_t *ns_off, size_t *ar_off, size_t *rr_count, size_t *msg_size_ret)
__CPROVER_requires(msgbuf_size <= VF_DNS_MSG_MAX)
__CPROVER_requires(VF_DNS_MSG(hdr, msgbuf_size))
__CPROVER_requires(VF_OUT_OPT(qd_off, size_t))
__CPROVER_requires(VF_OUT_OPT(an_off, size_t))
__CPROVER_requires(VF_OUT_OPT(ns_off, size_t))
__CPROVER_requires(VF_OUT_OPT(ar_off, size_t))
__CPROVER_requires(VF_OUT_OPT(rr_count, size_t))
__CPROVER_requires(VF_OUT_OPT(msg_size_ret, size_t))
__CPROVER_assigns(qd_off != NULL: *qd_off)
__CPROVER_assigns(an_off != NULL: *an_off)
__CPROVER_assigns(ns_off != NULL: *ns_off)
__CPROVER_assigns(ar_off != NULL: *ar_off)
__CPROVER_assigns(rr_count != NULL: *rr_count)
__CPROVER_assigns(msg_size_ret != NULL: *msg_size_ret)
__CPROVER_ensures(VF_RV == 0 || VF_RV == EINVAL || VF_RV == EBADMSG)
__CPROVER_ensures(hdr == NULL ==> VF_RV == EINVAL)
__CPROVER_ensures((hdr != NULL && msgbuf_size < VF_DNS_HDR_SIZE) ==> VF_RV == EBADMSG)
/* an error leaves every output untouched */
#define VF_DNS_KEEP(p)	((p) == NULL || *(p) == __CPROVER_old(*(p)))
__CPROVER_ensures(VF_RV != 0 ==> (VF_DNS_KEEP(qd_off) && VF_DNS_KEEP(an_off) && VF_DNS_KEEP(ns_off) &&
    VF_DNS_KEEP(ar_off) && VF_DNS_KEEP(rr_count) && VF_DNS_KEEP(msg_size_ret)))
/* every section offset and the real size lie inside the received bytes, in section order */
__CPROVER_ensures(VF_RV == 0 ==> (qd_off == NULL || *qd_off == VF_DNS_HDR_SIZE))
__CPROVER_ensures(VF_RV == 0 ==> (VF_DNS_OFF_OK(an_off, msgbuf_size) &&
    VF_DNS_OFF_OK(ns_off, msgbuf_size) && VF_DNS_OFF_OK(ar_off, msgbuf_size) &&
    VF_DNS_OFF_OK(msg_size_ret, msgbuf_size)))
__CPROVER_ensures(VF_RV == 0 ==> (VF_DNS_OFF_LE(an_off, ns_off) && VF_DNS_OFF_LE(an_off, ar_off) &&
    VF_DNS_OFF_LE(an_off, msg_size_ret) && VF_DNS_OFF_LE(ns_off, ar_off) &&
    VF_DNS_OFF_LE(ns_off, msg_size_ret) && VF_DNS_OFF_LE(ar_off, msg_size_ret)))
/* the record count is the sum of the three header counters */
__CPROVER_ensures((VF_RV == 0 && rr_count != NULL) ==>
    *rr_count == VF_DNS_AN(hdr) + VF_DNS_NS(hdr) + VF_DNS_AR(hdr))
;

static inline size_t
dns_msg_size_get(dns_hdr_p hdr, size_t msgbuf_size)
__CPROVER_requires(msgbuf_size <= VF_DNS_MSG_MAX)
__CPROVER_requires(VF_DNS_MSG(hdr, msgbuf_size))
__CPROVER_assigns()
/* 0 = not a well-formed message, otherwise a size inside the received bytes */
__CPROVER_ensures(VF_RV == 0 || (VF_DNS_HDR_SIZE <= VF_RV && VF_RV <= msgbuf_size))
__CPROVER_ensures((hdr == NULL || msgbuf_size < VF_DNS_HDR_SIZE) ==> VF_RV == 0)
;

static inline int
dns_msg_validate(dns_hdr_p hdr, size_t msgbuf_size)
__CPROVER_requires(msgbuf_size <= VF_DNS_MSG_MAX)
__CPROVER_requires(VF_DNS_MSG(hdr, msgbuf_size))
__CPROVER_assigns()
__CPROVER_ensures(VF_RV == 0 || VF_RV == EINVAL || VF_RV == EBADMSG)
__CPROVER_ensures(hdr == NULL ==> VF_RV == EINVAL)
__CPROVER_ensures(VF_RV == 0 ==> msgbuf_size >= VF_DNS_HDR_SIZE)
;

/* ------------------------------------------------------------------------------
 * Part 2 (C15): construction side.
 *
 * Input model: the message buffer is an exact-size fresh object of msgbuf_size bytes
 * (symbolic, 0..VF_DNS_MSG_MAX): EVERY capacity, in particular "one byte too small", is an
 * input; msg_size (bytes already used) and every byte already in the buffer are arbitrary.
 * Names are caller text of 0..VF_DNS_MSG_MAX bytes (valid and invalid ones).
 * Content (which byte lands where == RFC 1035 4.1.1-4.1.3) is stated at the ghost index
 * vf_dns_k for the fixed fields and RDATA here, and byte-for-byte against specs/dns_build_spec.h
 * in the bounded round-trip jobs (harness/C15/dns_roundtrip.c).
 * ---------------------------------------------------------------------------- */

/* ghost index: any byte position of the message buffer / of RDATA (never assigned) */
extern size_t vf_dns_k;

/* wire size of a dotted name of name_len bytes: root = 1, else len octet + text + end marker */
#define VF_DNS_WIRE(name_len)	(((name_len) == 0) ? (size_t)1 : (size_t)(name_len) + 2)
#define VF_DNS_NAME_WIRE_MAX	((size_t)255)	/* RFC 1035 2.3.4 */
#define VF_DNS_U8(p, k)		(((const uint8_t *)(p))[(k)])
/* bytes already in the buffer that an append must not touch: everything below msg_size except
 * (for the functions that count) the 2-byte header counter at cnt_off */
/* (__CPROVER_old cannot be guarded, so the entry value of that one byte is a ghost: the SNAP
 * precondition ties vf_dns_old to byte vf_dns_k of the buffer at entry, for every function alike) */
extern uint8_t vf_dns_old;
#define VF_DNS_SNAP(hdr, cap)							\
	__CPROVER_requires((hdr) == NULL || vf_dns_k >= (cap) || vf_dns_old == VF_DNS_U8(hdr, vf_dns_k))
extern uint16_t vf_dns_qd_old;	/* ghost: QDCOUNT at entry (host order) */
#define VF_DNS_SNAP_QD(hdr, cap)						\
	__CPROVER_requires((hdr) == NULL || (cap) < VF_DNS_HDR_SIZE || vf_dns_qd_old == VF_DNS_QD(hdr))
#define VF_DNS_PREFIX_KEPT(hdr, lim, cap)					\
	(vf_dns_k >= (lim) || vf_dns_k >= (cap) || VF_DNS_U8(hdr, vf_dns_k) == vf_dns_old)
#define VF_DNS_BUF(hdr, n)	((hdr) == NULL || __CPROVER_is_fresh((hdr), (n)))

/* dotted text -> label sequence (no compression) */
static inline int
DomainNameToSequenceOfLabels(const uint8_t *name, size_t name_len, uint8_t *buf,
    size_t buf_size, size_t *name_size_ret)
__CPROVER_requires(name_len <= VF_DNS_MSG_MAX && buf_size <= VF_DNS_MSG_MAX)
__CPROVER_requires(name == NULL || name_len == 0 || __CPROVER_is_fresh(name, name_len))
__CPROVER_requires(buf == NULL || __CPROVER_is_fresh(buf, buf_size))
__CPROVER_requires(VF_OUT_OPT(name_size_ret, size_t))
__CPROVER_assigns(buf != NULL: __CPROVER_object_upto(buf, buf_size))
__CPROVER_assigns(name_size_ret != NULL: *name_size_ret)
__CPROVER_ensures(VF_RV == 0 || VF_RV == EINVAL || VF_RV == EOVERFLOW)
__CPROVER_ensures(((name == NULL && name_len != 0) || buf == NULL) ==> VF_RV == EINVAL)
/* the required size is reported whenever the arguments are usable */
__CPROVER_ensures((!(name == NULL && name_len != 0) && buf != NULL && name_size_ret != NULL) ==>
    *name_size_ret == VF_DNS_WIRE(name_len))
/* loud failure instead of overflow; success => fits, RFC size limit respected, end marker */
__CPROVER_ensures(VF_RV == EOVERFLOW ==> VF_DNS_WIRE(name_len) > buf_size)
__CPROVER_ensures(VF_RV == 0 ==> (VF_DNS_WIRE(name_len) <= buf_size &&
    VF_DNS_WIRE(name_len) <= VF_DNS_NAME_WIRE_MAX && buf[VF_DNS_WIRE(name_len) - 1] == 0))
;

static inline int
dns_msg_name2sequence_of_labels(dns_hdr_p hdr, size_t msgbuf_size, size_t offset,
    const uint8_t *name, size_t name_len, int compress, size_t *name_size_ret)
__CPROVER_requires(name_len <= VF_DNS_MSG_MAX && msgbuf_size <= VF_DNS_MSG_MAX)
/* no NULL test in the code: every caller has tested hdr before */
__CPROVER_requires(__CPROVER_is_fresh(hdr, msgbuf_size))
VF_DNS_SNAP(hdr, msgbuf_size)
__CPROVER_requires(name == NULL || name_len == 0 || __CPROVER_is_fresh(name, name_len))
__CPROVER_requires(VF_OUT_OPT(name_size_ret, size_t))
__CPROVER_assigns(offset <= msgbuf_size:
    __CPROVER_object_upto((uint8_t *)hdr + offset, msgbuf_size - offset))
__CPROVER_assigns(name_size_ret != NULL: *name_size_ret)
__CPROVER_ensures(VF_RV == 0 || VF_RV == EINVAL || VF_RV == EOVERFLOW || VF_RV == EOPNOTSUPP)
__CPROVER_ensures((offset < VF_DNS_HDR_SIZE || offset > msgbuf_size) ==> VF_RV == EINVAL)
__CPROVER_ensures(VF_RV == 0 ==> (name_size_ret == NULL || *name_size_ret == VF_DNS_WIRE(name_len)))
__CPROVER_ensures((VF_RV == EOVERFLOW && offset <= msgbuf_size) ==> VF_DNS_WIRE(name_len) > msgbuf_size - offset)
__CPROVER_ensures(VF_RV == 0 ==> (VF_DNS_WIRE(name_len) <= msgbuf_size - offset &&
    VF_DNS_WIRE(name_len) <= VF_DNS_NAME_WIRE_MAX))
/* nothing below the write position changes */
__CPROVER_ensures(VF_DNS_PREFIX_KEPT(hdr, offset, msgbuf_size))
;

static inline int
dns_hdr_create(uint16_t id, uint16_t flags, dns_hdr_p hdr, size_t msgbuf_size,
    size_t *msg_size_ret)
__CPROVER_requires(msgbuf_size <= VF_DNS_MSG_MAX)
__CPROVER_requires(__CPROVER_is_fresh(hdr, msgbuf_size))
__CPROVER_requires(VF_OUT_OPT(msg_size_ret, size_t))
__CPROVER_assigns(msgbuf_size >= VF_DNS_HDR_SIZE: __CPROVER_object_upto((uint8_t *)hdr, VF_DNS_HDR_SIZE))
__CPROVER_assigns(msg_size_ret != NULL: *msg_size_ret)
__CPROVER_ensures(VF_RV == ((msgbuf_size < VF_DNS_HDR_SIZE) ? EOVERFLOW : 0))
__CPROVER_ensures(msg_size_ret == NULL || *msg_size_ret == VF_DNS_HDR_SIZE)
/* RFC 1035 4.1.1: id and flags as given (the caller supplies them in wire order), counts 0 */
__CPROVER_ensures(VF_RV == 0 ==> (VF_DNS_U8(hdr, 0) == (uint8_t)id && VF_DNS_U8(hdr, 1) == (uint8_t)(id >> 8) &&
    VF_DNS_U8(hdr, 2) == (uint8_t)flags && VF_DNS_U8(hdr, 3) == (uint8_t)(flags >> 8) &&
    VF_DNS_QD(hdr) == 0 && VF_DNS_AN(hdr) == 0 && VF_DNS_NS(hdr) == 0 && VF_DNS_AR(hdr) == 0))
;

/* header counters: big-endian 16-bit at byte offset `off`, +/- val modulo 2^16 */
#define VF_DNS_CNT_CONTRACT(fn, off, op)					\
static inline void fn(dns_hdr_p hdr, uint16_t val)				\
__CPROVER_requires(__CPROVER_is_fresh(hdr, VF_DNS_HDR_SIZE))			\
__CPROVER_assigns(__CPROVER_object_upto((uint8_t *)hdr + (off), 2))		\
__CPROVER_ensures(VF_DNS_BE16(hdr, off) ==					\
    (size_t)(uint16_t)(__CPROVER_old(VF_DNS_BE16(hdr, off)) op val))		\
;
VF_DNS_CNT_CONTRACT(dns_hdr_qd_inc, 4, +)
VF_DNS_CNT_CONTRACT(dns_hdr_an_inc, 6, +)
VF_DNS_CNT_CONTRACT(dns_hdr_ns_inc, 8, +)
VF_DNS_CNT_CONTRACT(dns_hdr_ar_inc, 10, +)
VF_DNS_CNT_CONTRACT(dns_hdr_qd_dec, 4, -)
VF_DNS_CNT_CONTRACT(dns_hdr_an_dec, 6, -)
VF_DNS_CNT_CONTRACT(dns_hdr_ns_dec, 8, -)
VF_DNS_CNT_CONTRACT(dns_hdr_ar_dec, 10, -)

/* the library's own (conservative) pre-check: 2 + name_len bytes are reserved for the name,
 * i.e. one byte more than the root name needs */
#define VF_DNS_NAME_RESERVE(name_len)	((size_t)2 + (name_len))

/* append a question, QDCOUNT += 1 */
static inline int
dns_msg_question_add(dns_hdr_p hdr, size_t msg_size, size_t msgbuf_size,
    int compress, const uint8_t *name, size_t name_len, uint16_t query_type,
    uint16_t query_class, size_t *msg_size_ret)
__CPROVER_requires(name_len <= VF_DNS_MSG_MAX && msgbuf_size <= VF_DNS_MSG_MAX && msg_size <= VF_DNS_MSG_MAX)
__CPROVER_requires(VF_DNS_BUF(hdr, msgbuf_size))
VF_DNS_SNAP(hdr, msgbuf_size)
VF_DNS_SNAP_QD(hdr, msgbuf_size)
__CPROVER_requires(name == NULL || name_len == 0 || __CPROVER_is_fresh(name, name_len))
__CPROVER_requires(VF_OUT_OPT(msg_size_ret, size_t))
__CPROVER_assigns(hdr != NULL: __CPROVER_object_whole(hdr))
__CPROVER_assigns(msg_size_ret != NULL: *msg_size_ret)
__CPROVER_ensures(VF_RV == 0 || VF_RV == EINVAL || VF_RV == EBADMSG || VF_RV == EOVERFLOW || VF_RV == EOPNOTSUPP)
__CPROVER_ensures(hdr == NULL ==> VF_RV == EINVAL)
/* size pre-check: too small a buffer is reported (with the size that would do), nothing is written */
__CPROVER_ensures((hdr != NULL && msg_size >= VF_DNS_HDR_SIZE &&
    msgbuf_size < msg_size + VF_DNS_NAME_RESERVE(name_len) + VF_DNS_Q_FIXED) ==>
    (VF_RV == EOVERFLOW && (msg_size_ret == NULL ||
     *msg_size_ret == msg_size + VF_DNS_NAME_RESERVE(name_len) + VF_DNS_Q_FIXED)))
__CPROVER_ensures((hdr != NULL && VF_RV == EOVERFLOW) ==> VF_DNS_PREFIX_KEPT(hdr, msgbuf_size, msgbuf_size))
/* success: new size = old + name + 4, inside the buffer */
__CPROVER_ensures(VF_RV == 0 ==> (msg_size + VF_DNS_WIRE(name_len) + VF_DNS_Q_FIXED <= msgbuf_size &&
    (msg_size_ret == NULL || *msg_size_ret == msg_size + VF_DNS_WIRE(name_len) + VF_DNS_Q_FIXED)))
/* RFC 1035 4.1.2: QTYPE, QCLASS big-endian right after the name */
__CPROVER_ensures(VF_RV == 0 ==> (
    VF_DNS_BE16(hdr, msg_size + VF_DNS_WIRE(name_len)) == query_type &&
    VF_DNS_BE16(hdr, msg_size + VF_DNS_WIRE(name_len) + 2) == query_class))
/* QDCOUNT + 1 in network order; no other byte below msg_size changes (also on failure) */
__CPROVER_ensures(VF_RV == 0 ==> VF_DNS_QD(hdr) == (size_t)(uint16_t)(vf_dns_qd_old + 1))
__CPROVER_ensures((hdr != NULL && vf_dns_k != 4 && vf_dns_k != 5) ==> VF_DNS_PREFIX_KEPT(hdr, msg_size, msgbuf_size))
__CPROVER_ensures((hdr != NULL && VF_RV != 0 && msgbuf_size >= VF_DNS_HDR_SIZE) ==> VF_DNS_QD(hdr) == vf_dns_qd_old)
;

/* append a resource record (the caller counts it with dns_hdr_an/ns/ar_inc) */
static inline int
dns_msg_rr_add(dns_hdr_p hdr, size_t msg_size, size_t msgbuf_size, int compress,
    const uint8_t *name, size_t name_len, uint16_t type, uint16_t class,
    uint32_t ttl, uint16_t data_size, void *data, size_t *rr_size)
__CPROVER_requires(name_len <= VF_DNS_MSG_MAX && msgbuf_size <= VF_DNS_MSG_MAX && msg_size <= VF_DNS_MSG_MAX)
__CPROVER_requires(VF_DNS_BUF(hdr, msgbuf_size))
VF_DNS_SNAP(hdr, msgbuf_size)
__CPROVER_requires(name == NULL || name_len == 0 || __CPROVER_is_fresh(name, name_len))
__CPROVER_requires(data_size == 0 || __CPROVER_is_fresh(data, data_size))
__CPROVER_requires(VF_OUT_OPT(rr_size, size_t))
__CPROVER_assigns(hdr != NULL: __CPROVER_object_whole(hdr))
__CPROVER_assigns(rr_size != NULL: *rr_size)
__CPROVER_ensures(VF_RV == 0 || VF_RV == EINVAL || VF_RV == EBADMSG || VF_RV == EOVERFLOW || VF_RV == EOPNOTSUPP)
__CPROVER_ensures(hdr == NULL ==> VF_RV == EINVAL)
__CPROVER_ensures((hdr != NULL && msg_size >= VF_DNS_HDR_SIZE &&
    msgbuf_size < msg_size + VF_DNS_NAME_RESERVE(name_len) + VF_DNS_RR_FIXED + data_size) ==> VF_RV == EOVERFLOW)
__CPROVER_ensures((hdr != NULL && VF_RV == EOVERFLOW) ==> VF_DNS_PREFIX_KEPT(hdr, msgbuf_size, msgbuf_size))
/* success: the reported size is the real new message size, inside the buffer */
__CPROVER_ensures(VF_RV == 0 ==> (msg_size + VF_DNS_WIRE(name_len) + VF_DNS_RR_FIXED + data_size <= msgbuf_size &&
    (rr_size == NULL || *rr_size == msg_size + VF_DNS_WIRE(name_len) + VF_DNS_RR_FIXED + data_size)))
/* RFC 1035 4.1.3: TYPE, CLASS, TTL, RDLENGTH big-endian, then RDATA */
#define VF_DNS_RRF(hdr, msg_size, name_len)	(msg_size + VF_DNS_WIRE(name_len))
__CPROVER_ensures(VF_RV == 0 ==> (
    VF_DNS_BE16(hdr, VF_DNS_RRF(hdr, msg_size, name_len)) == type &&
    VF_DNS_BE16(hdr, VF_DNS_RRF(hdr, msg_size, name_len) + 2) == class &&
    VF_DNS_BE16(hdr, VF_DNS_RRF(hdr, msg_size, name_len) + 4) == (ttl >> 16) &&
    VF_DNS_BE16(hdr, VF_DNS_RRF(hdr, msg_size, name_len) + 6) == (ttl & 0xffff) &&
    VF_DNS_BE16(hdr, VF_DNS_RRF(hdr, msg_size, name_len) + 8) == data_size))
__CPROVER_ensures((VF_RV == 0 && vf_dns_k < data_size) ==>
    VF_DNS_U8(hdr, VF_DNS_RRF(hdr, msg_size, name_len) + VF_DNS_RR_FIXED + vf_dns_k) == VF_DNS_U8(data, vf_dns_k))
/* nothing already in the message changes, counters included */
__CPROVER_ensures(hdr != NULL ==> VF_DNS_PREFIX_KEPT(hdr, msg_size, msgbuf_size))
;

/* append an EDNS0 OPT pseudo-RR (RFC 2671 4.3): root name, TYPE 41, CLASS = payload size,
 * TTL = ext-rcode | version | flags, RDLENGTH, RDATA */
static inline int
dns_msg_optrr_add(dns_hdr_p hdr, size_t msg_size, size_t msgbuf_size,
    uint16_t udp_payload_size, uint8_t version, uint8_t ex_rcode, uint16_t ex_flags,
    uint16_t data_size, void *data, size_t *rr_size)
__CPROVER_requires(msgbuf_size <= VF_DNS_MSG_MAX && msg_size <= VF_DNS_MSG_MAX)
__CPROVER_requires(VF_DNS_BUF(hdr, msgbuf_size))
VF_DNS_SNAP(hdr, msgbuf_size)
__CPROVER_requires(data == NULL || data_size == 0 || __CPROVER_is_fresh(data, data_size))
__CPROVER_requires(VF_OUT_OPT(rr_size, size_t))
__CPROVER_assigns(hdr != NULL: __CPROVER_object_whole(hdr))
__CPROVER_assigns(rr_size != NULL: *rr_size)
__CPROVER_ensures(VF_RV == 0 || VF_RV == EINVAL || VF_RV == EBADMSG || VF_RV == EOVERFLOW)
__CPROVER_ensures((hdr == NULL || (data == NULL && data_size != 0)) ==> VF_RV == EINVAL)
__CPROVER_ensures((hdr != NULL && !(data == NULL && data_size != 0) && msg_size >= VF_DNS_HDR_SIZE) ==>
    ((VF_RV == EOVERFLOW) == (msgbuf_size < msg_size + 11 + data_size)))
__CPROVER_ensures((VF_RV == 0 || VF_RV == EOVERFLOW) ==> (rr_size == NULL || *rr_size == msg_size + 11 + data_size))
__CPROVER_ensures(VF_RV == 0 ==> (VF_DNS_U8(hdr, msg_size) == 0 &&
    VF_DNS_BE16(hdr, msg_size + 1) == 41 && VF_DNS_BE16(hdr, msg_size + 3) == udp_payload_size &&
    VF_DNS_U8(hdr, msg_size + 5) == ex_rcode && VF_DNS_U8(hdr, msg_size + 6) == version &&	/* RFC 2671 4.6: EXTENDED-RCODE, then VERSION */
    VF_DNS_U8(hdr, msg_size + 7) == (uint8_t)ex_flags && VF_DNS_U8(hdr, msg_size + 8) == (uint8_t)(ex_flags >> 8) &&
    VF_DNS_BE16(hdr, msg_size + 9) == data_size))
__CPROVER_ensures((VF_RV == 0 && vf_dns_k < data_size) ==>
    VF_DNS_U8(hdr, msg_size + 11 + vf_dns_k) == VF_DNS_U8(data, vf_dns_k))
__CPROVER_ensures(hdr != NULL ==> VF_DNS_PREFIX_KEPT(hdr, msg_size, msgbuf_size))
;

#endif /* !VF_REPLAY */
#endif /* VF_CONTRACTS_DNS_H */
