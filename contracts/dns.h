/*
 * Contracts for include/proto/dns.h.
 *
 * Part 1 (C13): everything that reads a received DNS message or a label sequence.
 * Part 2 (C15, construction side) is to be appended below the marker at the end;
 * it can rely on the parser contracts of part 1 for its round-trip obligations.
 *
 * Redeclarations only: the header itself is not edited.  Include this file BEFORE
 * "proto/dns.h".  All contracts are written so that they serve both as the
 * enforced contract of the function's own job and as the replaced contract in the
 * jobs of its callers (every call site in dns.h passes separate objects, so
 * is_fresh in `requires` is satisfiable there).
 *
 * Input model (property C13): the message is an exact-size span of `msg_size`
 * hostile bytes, msg_size symbolic, 0 <= msg_size <= VF_DNS_MSG_MAX (65535: the
 * protocol maximum, RFC 1035 4.2.2 two-octet length prefix).  Offsets, counts and
 * every byte of the message are unconstrained.
 */
#ifndef VF_CONTRACTS_DNS_H
#define VF_CONTRACTS_DNS_H
#include "vf/vf.h"
#include <sys/types.h>
#include <errno.h>
#include <netinet/in.h>

#ifndef VF_DNS_MSG_MAX
#define VF_DNS_MSG_MAX		((size_t)65535)
#endif
/* capacity of caller-supplied name buffers in the harnesses (any size_t would do for the
 * code; the bound keeps is_fresh below CBMC's max allocation size) */
#ifndef VF_DNS_NAMEBUF_MAX
#define VF_DNS_NAMEBUF_MAX	((size_t)65535)
#endif

#define VF_DNS_HDR_SIZE		((size_t)12)	/* sizeof(dns_hdr_t) */
#define VF_DNS_Q_FIXED		((size_t)4)	/* QTYPE + QCLASS */
#define VF_DNS_RR_FIXED		((size_t)10)	/* TYPE + CLASS + TTL + RDLENGTH */
#define VF_DNS_MAX_JUMPS	((size_t)64)	/* DNS_MAX_NAME_CYCLES */
#define VF_DNS_FIND_NAME_MAX	((size_t)510)	/* sizeof(nametm) in dns_msg_rr_find */
/* what a hostile message can make the uncompressed name length grow to: <= 64 jumps, every
 * segment between two jumps lies inside the message (RFC 1035 limit of 255 is NOT enforced by the code) */
#define VF_DNS_NAME_LEN_CAP	((VF_DNS_MAX_JUMPS + 1) * 65536)

/* header counters, read from the received bytes in network order (spec side) */
#define VF_DNS_BE16(p, off)	((size_t)((((const uint8_t *)(p))[(off)] << 8) | ((const uint8_t *)(p))[(off) + 1]))
#define VF_DNS_QD(p)		VF_DNS_BE16(p, 4)
#define VF_DNS_AN(p)		VF_DNS_BE16(p, 6)
#define VF_DNS_NS(p)		VF_DNS_BE16(p, 8)
#define VF_DNS_AR(p)		VF_DNS_BE16(p, 10)

/*
 * Postconditions of the two functions that WRITE through a moving cursor, as plain C
 * macros: used verbatim in the __CPROVER_ensures clauses below and as assertions of the
 * plain-mode (non --dfcc) unbounded harness harness/C13/dns_labels_plain.c, see HOWTO
 * "Pointer facts in loop invariants" and the note in obligations/C13.d/dns.json.
 */
#define VF_DNS_POST_SOL2NAME_RV(rv)						\
	((rv) == 0 || (rv) == EINVAL || (rv) == EOVERFLOW || (rv) == EOPNOTSUPP || (rv) == EBADMSG)
#define VF_DNS_POST_SOL2NAME_EINVAL(rv, buf, buf_size, name, name_buf_size)	\
	(((rv) == EINVAL) == ((buf) == NULL || (buf_size) == 0 || (name) == NULL || (name_buf_size) == 0))
#define VF_DNS_POST_SOL2NAME_EOVERFLOW(rv, buf_size, name_buf_size)		\
	((rv) != EOVERFLOW || (name_buf_size) < (buf_size) - 1)
#define VF_DNS_POST_SOL2NAME_LEN(rv, buf_size, name_len_ret)			\
	((rv) != 0 || (name_len_ret) == NULL || (1 <= *(name_len_ret) && *(name_len_ret) <= (buf_size)))

#define VF_DNS_POST_L2N_RV(rv)							\
	((rv) == 0 || (rv) == EINVAL || (rv) == EBADMSG || (rv) == EOPNOTSUPP || (rv) == ELOOP || \
	 (rv) == EOVERFLOW)
#define VF_DNS_POST_L2N_EINVAL(rv, hdr, msg_size, offset, name, name_buf_size)	\
	(((rv) == EINVAL) == ((hdr) == NULL || (name) == NULL || (name_buf_size) == 0 ||	\
	    (offset) < VF_DNS_HDR_SIZE || (offset) > (msg_size)))
/* text + NUL fit the caller's buffer, and the NUL is where the reported length says */
#define VF_DNS_POST_L2N_TEXT(rv, name, name_buf_size, name_len_ret)		\
	((rv) != 0 || (name_len_ret) == NULL ||					\
	    (*(name_len_ret) < (name_buf_size) && (name)[*(name_len_ret)] == 0))
/* loud failure: the length that did not fit is reported */
#define VF_DNS_POST_L2N_EOVERFLOW(rv, name_buf_size, name_len_ret)		\
	((rv) != EOVERFLOW || (name_len_ret) == NULL || *(name_len_ret) >= (name_buf_size))

#ifndef VF_REPLAY
#define VF_RV			__CPROVER_return_value
/* received message: NULL, empty, or exactly msg_size readable bytes */
#define VF_DNS_MSG(hdr, n)	((hdr) == NULL || (n) == 0 || __CPROVER_is_fresh((hdr), (n)))
#define VF_OUT_OPT(p, T)	((p) == NULL || __CPROVER_is_fresh((p), sizeof(T)))

/* forward declarations of the header's types (identical to the header's own) */
struct dns_hdr_s;
typedef struct dns_hdr_s *dns_hdr_p;

/* ------------------------------------------------------------------------------
 * Label sequences without message context
 * ---------------------------------------------------------------------------- */

/* Size of the label sequence at buf (compression pointer = 2 bytes, ends the name). */
static inline int
SequenceOfLabelsGetSize(const uint8_t *buf, size_t buf_size, size_t *name_len_ret)
__CPROVER_requires(buf_size <= VF_DNS_MSG_MAX)
__CPROVER_requires(buf == NULL || buf_size == 0 || __CPROVER_is_fresh(buf, buf_size))
__CPROVER_requires(VF_OUT_OPT(name_len_ret, size_t))
__CPROVER_assigns(name_len_ret != NULL: *name_len_ret)
__CPROVER_ensures(VF_RV == 0 || VF_RV == EINVAL || VF_RV == EBADMSG)
__CPROVER_ensures((VF_RV == EINVAL) == (buf == NULL || buf_size == 0 || name_len_ret == NULL))
/* the reported size lies inside the buffer */
__CPROVER_ensures(VF_RV == 0 ==> (1 <= *name_len_ret && *name_len_ret <= buf_size))
;

/* Uncompressed label sequence -> dotted, NUL-terminated name. */
static inline int
SequenceOfLabelsToDomainName(const uint8_t *buf, size_t buf_size, uint8_t *name,
    size_t name_buf_size, size_t *name_len_ret)
__CPROVER_requires(buf_size <= VF_DNS_MSG_MAX && name_buf_size <= VF_DNS_NAMEBUF_MAX)
__CPROVER_requires(buf == NULL || buf_size == 0 || __CPROVER_is_fresh(buf, buf_size))
__CPROVER_requires(name == NULL || name_buf_size == 0 || __CPROVER_is_fresh(name, name_buf_size))
__CPROVER_requires(VF_OUT_OPT(name_len_ret, size_t))
__CPROVER_assigns(name != NULL && name_buf_size != 0: __CPROVER_object_upto(name, name_buf_size))
__CPROVER_assigns(name_len_ret != NULL: *name_len_ret)
__CPROVER_ensures(VF_DNS_POST_SOL2NAME_RV(VF_RV))
__CPROVER_ensures(VF_DNS_POST_SOL2NAME_EINVAL(VF_RV, buf, buf_size, name, name_buf_size))
__CPROVER_ensures(VF_DNS_POST_SOL2NAME_EOVERFLOW(VF_RV, buf_size, name_buf_size))
/* consumed size lies inside the buffer */
__CPROVER_ensures(VF_DNS_POST_SOL2NAME_LEN(VF_RV, buf_size, name_len_ret))
;

/* ------------------------------------------------------------------------------
 * Names inside a message (compression pointers followed, at most 64 jumps)
 * ---------------------------------------------------------------------------- */

static inline int
dns_msg_sequence_of_labels_get_name_len(dns_hdr_p hdr, size_t msg_size,
    size_t offset, size_t *name_len_ret)
__CPROVER_requires(msg_size <= VF_DNS_MSG_MAX)
__CPROVER_requires(VF_DNS_MSG(hdr, msg_size))
__CPROVER_requires(VF_OUT_OPT(name_len_ret, size_t))
__CPROVER_assigns(name_len_ret != NULL: *name_len_ret)
__CPROVER_ensures(VF_RV == 0 || VF_RV == EINVAL || VF_RV == EBADMSG ||
    VF_RV == EOPNOTSUPP || VF_RV == ELOOP)
__CPROVER_ensures((VF_RV == EINVAL) == (hdr == NULL || offset < VF_DNS_HDR_SIZE ||
    offset > msg_size || name_len_ret == NULL))
/* extreme inputs: the accumulated length cannot wrap (<= 64 jumps, each segment inside a message of <= 65535 bytes) */
__CPROVER_ensures(VF_RV == 0 ==> *name_len_ret <= VF_DNS_NAME_LEN_CAP)
;

static inline int
dns_msg_sequence_of_labels2name(dns_hdr_p hdr, size_t msg_size, size_t offset,
    uint8_t *name, size_t name_buf_size, size_t *name_len_ret)
__CPROVER_requires(msg_size <= VF_DNS_MSG_MAX && name_buf_size <= VF_DNS_NAMEBUF_MAX)
__CPROVER_requires(VF_DNS_MSG(hdr, msg_size))
__CPROVER_requires(name == NULL || name_buf_size == 0 || __CPROVER_is_fresh(name, name_buf_size))
__CPROVER_requires(VF_OUT_OPT(name_len_ret, size_t))
__CPROVER_assigns(name != NULL && name_buf_size != 0: __CPROVER_object_upto(name, name_buf_size))
__CPROVER_assigns(name_len_ret != NULL: *name_len_ret)
__CPROVER_ensures(VF_DNS_POST_L2N_RV(VF_RV))
__CPROVER_ensures(VF_DNS_POST_L2N_EINVAL(VF_RV, hdr, msg_size, offset, name, name_buf_size))
__CPROVER_ensures(VF_DNS_POST_L2N_TEXT(VF_RV, name, name_buf_size, name_len_ret))
__CPROVER_ensures(VF_DNS_POST_L2N_EOVERFLOW(VF_RV, name_buf_size, name_len_ret))
;

/* ------------------------------------------------------------------------------
 * Question section entries
 * ---------------------------------------------------------------------------- */

/* name buffer of the *_get_data functions: used iff name != NULL && name_len != NULL,
 * capacity *name_len */
#define VF_DNS_NAMEARG_PRE(name, name_len)					\
	__CPROVER_requires(VF_OUT_OPT(name_len, size_t))			\
	__CPROVER_requires(name_len == NULL || *name_len <= VF_DNS_NAMEBUF_MAX)	\
	__CPROVER_requires(name == NULL || name_len == NULL || *name_len == 0 ||	\
	    __CPROVER_is_fresh(name, *name_len))
#define VF_DNS_NAMEARG_ASSIGNS(name, name_len)					\
	__CPROVER_assigns(name != NULL && name_len != NULL && *name_len != 0:	\
	    __CPROVER_object_upto(name, *name_len))				\
	__CPROVER_assigns(name != NULL && name_len != NULL: *name_len)
/* Offsets of the question / RR accessors: 0 (rejected by the code) or a position after the
 * header.  Offsets 1..11 -- inside the header -- are accepted by the code when no name is
 * requested, but the accessors then form `(size_t)hdr + offset + name_size - sizeof(uint8_t*)`
 * below the start of the message object, an integer round trip CBMC's pointer model cannot
 * follow; no in-tree caller passes such an offset (dns_msg_info_get starts at 12). */
#define VF_DNS_OFFSET_ARG(offset)	((offset) == 0 || (offset) >= VF_DNS_HDR_SIZE)
#define VF_DNS_GET_DATA_RV							\
	(VF_RV == 0 || VF_RV == EINVAL || VF_RV == EBADMSG || VF_RV == EOPNOTSUPP || \
	 VF_RV == ELOOP || VF_RV == EOVERFLOW)

static inline int
dns_msg_question_get_data(dns_hdr_p hdr, size_t msg_size, size_t offset,
    uint8_t *name, size_t *name_len, uint16_t *query_type, uint16_t *query_class,
    size_t *question_size_ret)
__CPROVER_requires(msg_size <= VF_DNS_MSG_MAX)
__CPROVER_requires(VF_DNS_OFFSET_ARG(offset))
__CPROVER_requires(VF_DNS_MSG(hdr, msg_size))
VF_DNS_NAMEARG_PRE(name, name_len)
__CPROVER_requires(VF_OUT_OPT(query_type, uint16_t))
__CPROVER_requires(VF_OUT_OPT(query_class, uint16_t))
__CPROVER_requires(VF_OUT_OPT(question_size_ret, size_t))
VF_DNS_NAMEARG_ASSIGNS(name, name_len)
__CPROVER_assigns(query_type != NULL: *query_type)
__CPROVER_assigns(query_class != NULL: *query_class)
__CPROVER_assigns(question_size_ret != NULL: *question_size_ret)
__CPROVER_ensures(VF_DNS_GET_DATA_RV)
/* the name walker's codes (EOPNOTSUPP, ELOOP, EOVERFLOW) only when a name was requested */
__CPROVER_ensures((name == NULL || name_len == NULL) ==>
    (VF_RV == 0 || VF_RV == EINVAL || VF_RV == EBADMSG))
__CPROVER_ensures((hdr == NULL || offset == 0 || offset > msg_size) ==> VF_RV == EINVAL)
/* the question (name + 4 fixed bytes) lies inside the message */
__CPROVER_ensures((VF_RV == 0 && question_size_ret != NULL) ==>
    (1 + VF_DNS_Q_FIXED <= *question_size_ret && offset <= msg_size &&
     *question_size_ret <= msg_size - offset))
__CPROVER_ensures((VF_RV == 0 && name != NULL && name_len != NULL) ==>
    (*name_len < __CPROVER_old(*name_len) && name[*name_len] == 0))
;

static inline int
dns_msg_question_get_size(dns_hdr_p hdr, size_t msg_size, size_t offset,
    size_t *question_size_ret)
__CPROVER_requires(msg_size <= VF_DNS_MSG_MAX)
__CPROVER_requires(VF_DNS_OFFSET_ARG(offset))
__CPROVER_requires(VF_DNS_MSG(hdr, msg_size))
__CPROVER_requires(VF_OUT_OPT(question_size_ret, size_t))
__CPROVER_assigns(question_size_ret != NULL: *question_size_ret)
__CPROVER_ensures(VF_RV == 0 || VF_RV == EINVAL || VF_RV == EBADMSG)
__CPROVER_ensures((hdr == NULL || offset == 0 || offset > msg_size) ==> VF_RV == EINVAL)
__CPROVER_ensures((VF_RV == 0 && question_size_ret != NULL) ==>
    (1 + VF_DNS_Q_FIXED <= *question_size_ret && offset <= msg_size &&
     *question_size_ret <= msg_size - offset))
;

/* ------------------------------------------------------------------------------
 * Resource records
 * ---------------------------------------------------------------------------- */

static inline int
dns_msg_rr_get_data(dns_hdr_p hdr, size_t msg_size, size_t offset, uint8_t *name,
    size_t *name_len, uint16_t *type, uint16_t *class, uint32_t *ttl,
    uint16_t *data_size, void **data, size_t *rr_size)
__CPROVER_requires(msg_size <= VF_DNS_MSG_MAX)
__CPROVER_requires(VF_DNS_OFFSET_ARG(offset))
__CPROVER_requires(VF_DNS_MSG(hdr, msg_size))
VF_DNS_NAMEARG_PRE(name, name_len)
__CPROVER_requires(VF_OUT_OPT(type, uint16_t))
__CPROVER_requires(VF_OUT_OPT(class, uint16_t))
__CPROVER_requires(VF_OUT_OPT(ttl, uint32_t))
__CPROVER_requires(VF_OUT_OPT(data_size, uint16_t))
__CPROVER_requires(VF_OUT_OPT(data, void *))
__CPROVER_requires(VF_OUT_OPT(rr_size, size_t))
VF_DNS_NAMEARG_ASSIGNS(name, name_len)
__CPROVER_assigns(type != NULL: *type)
__CPROVER_assigns(class != NULL: *class)
__CPROVER_assigns(ttl != NULL: *ttl)
__CPROVER_assigns(data_size != NULL: *data_size)
__CPROVER_assigns(data != NULL: *data)
__CPROVER_assigns(rr_size != NULL: *rr_size)
__CPROVER_ensures(VF_DNS_GET_DATA_RV)
/* the name walker's codes (EOPNOTSUPP, ELOOP, EOVERFLOW) only when a name was requested */
__CPROVER_ensures((name == NULL || name_len == NULL) ==>
    (VF_RV == 0 || VF_RV == EINVAL || VF_RV == EBADMSG))
__CPROVER_ensures((hdr == NULL || msg_size == 0 || offset == 0 || offset > msg_size) ==>
    VF_RV == EINVAL)
/* the record (name + 10 fixed bytes + RDATA) lies inside the message */
__CPROVER_ensures((VF_RV == 0 && rr_size != NULL) ==>
    (1 + VF_DNS_RR_FIXED <= *rr_size && offset <= msg_size && *rr_size <= msg_size - offset))
/* the RDATA pointer/length pair lies inside the message ... */
__CPROVER_ensures((VF_RV == 0 && data != NULL) ==> VF_PTR_INSIDE(*data, hdr, msg_size))
__CPROVER_ensures((VF_RV == 0 && data != NULL && data_size != NULL) ==>
    VF_INSIDE(*data, *data_size, hdr, msg_size))
/* ... and is the tail of the record */
__CPROVER_ensures((VF_RV == 0 && data != NULL && data_size != NULL && rr_size != NULL) ==>
    (VF_OFF(*data) - VF_OFF(hdr) + *data_size == offset + *rr_size))
__CPROVER_ensures((VF_RV == 0 && name != NULL && name_len != NULL) ==>
    (*name_len < __CPROVER_old(*name_len) && name[*name_len] == 0))
;

static inline int
dns_msg_rr_get_size(dns_hdr_p hdr, size_t msg_size, size_t offset, size_t *rr_size)
__CPROVER_requires(msg_size <= VF_DNS_MSG_MAX)
__CPROVER_requires(VF_DNS_OFFSET_ARG(offset))
__CPROVER_requires(VF_DNS_MSG(hdr, msg_size))
__CPROVER_requires(VF_OUT_OPT(rr_size, size_t))
__CPROVER_assigns(rr_size != NULL: *rr_size)
__CPROVER_ensures(VF_RV == 0 || VF_RV == EINVAL || VF_RV == EBADMSG)
__CPROVER_ensures((hdr == NULL || msg_size == 0 || offset == 0 || offset > msg_size) ==>
    VF_RV == EINVAL)
__CPROVER_ensures((VF_RV == 0 && rr_size != NULL) ==>
    (1 + VF_DNS_RR_FIXED <= *rr_size && offset <= msg_size && *rr_size <= msg_size - offset))
;

/* Search *rr_count records starting at *offset_ret for `name`. */
static inline int
dns_msg_rr_find(dns_hdr_p hdr, size_t msg_size, size_t *offset_ret, size_t *rr_count,
    const uint8_t *name, size_t name_len, uint16_t *type, uint16_t *class,
    uint32_t *ttl, uint16_t *data_size, void **data, size_t *rr_size)
__CPROVER_requires(msg_size <= VF_DNS_MSG_MAX && name_len <= VF_DNS_NAMEBUF_MAX)
__CPROVER_requires(VF_DNS_MSG(hdr, msg_size))
__CPROVER_requires(VF_OUT_OPT(offset_ret, size_t))
__CPROVER_requires(offset_ret == NULL || VF_DNS_OFFSET_ARG(*offset_ret))
__CPROVER_requires(VF_OUT_OPT(rr_count, size_t))
__CPROVER_requires(name == NULL || name_len == 0 || __CPROVER_is_fresh(name, name_len))
__CPROVER_requires(VF_OUT_OPT(type, uint16_t))
__CPROVER_requires(VF_OUT_OPT(class, uint16_t))
__CPROVER_requires(VF_OUT_OPT(ttl, uint32_t))
__CPROVER_requires(VF_OUT_OPT(data_size, uint16_t))
__CPROVER_requires(VF_OUT_OPT(data, void *))
__CPROVER_requires(VF_OUT_OPT(rr_size, size_t))
__CPROVER_assigns(offset_ret != NULL: *offset_ret)
__CPROVER_assigns(rr_count != NULL: *rr_count)
__CPROVER_assigns(type != NULL: *type)
__CPROVER_assigns(class != NULL: *class)
__CPROVER_assigns(ttl != NULL: *ttl)
__CPROVER_assigns(data_size != NULL: *data_size)
__CPROVER_assigns(data != NULL: *data)
__CPROVER_assigns(rr_size != NULL: *rr_size)
__CPROVER_ensures(VF_DNS_GET_DATA_RV || VF_RV == ESPIPE)
__CPROVER_ensures((hdr == NULL || offset_ret == NULL || rr_count == NULL ||
    name_len > VF_DNS_FIND_NAME_MAX) ==> VF_RV == EINVAL)
/* the cursor never leaves the message and never moves backwards; the count only shrinks */
__CPROVER_ensures((hdr != NULL && offset_ret != NULL && rr_count != NULL &&
    name_len <= VF_DNS_FIND_NAME_MAX && msg_size >= VF_DNS_HDR_SIZE &&
    __CPROVER_old(*offset_ret) <= msg_size) ==>
    (__CPROVER_old(*offset_ret) <= *offset_ret && *offset_ret <= msg_size &&
     *rr_count <= __CPROVER_old(*rr_count)))
/* found: the record at the returned offset lies inside the message */
__CPROVER_ensures((VF_RV == 0 && rr_size != NULL) ==>
    (1 + VF_DNS_RR_FIXED <= *rr_size && *offset_ret <= msg_size &&
     *rr_size <= msg_size - *offset_ret))
__CPROVER_ensures((VF_RV == 0 && data != NULL) ==> VF_PTR_INSIDE(*data, hdr, msg_size))
__CPROVER_ensures((VF_RV == 0 && data != NULL && data_size != NULL) ==>
    VF_INSIDE(*data, *data_size, hdr, msg_size))
;

/* ------------------------------------------------------------------------------
 * Whole message
 * ---------------------------------------------------------------------------- */

#define VF_DNS_OFF_OK(p, n)	((p) == NULL || (VF_DNS_HDR_SIZE <= *(p) && *(p) <= (n)))
#define VF_DNS_OFF_LE(p, q)	((p) == NULL || (q) == NULL || *(p) <= *(q))

static inline int
dns_msg_info_get(dns_hdr_p hdr, size_t msgbuf_size, size_t *qd_off, size_t *an_off,
    size_t *ns_off, size_t *ar_off, size_t *rr_count, size_t *msg_size_ret)
__CPROVER_requires(msgbuf_size <= VF_DNS_MSG_MAX)
__CPROVER_requires(VF_DNS_MSG(hdr, msgbuf_size))
__CPROVER_requires(VF_OUT_OPT(qd_off, size_t))
__CPROVER_requires(VF_OUT_OPT(an_off, size_t))
__CPROVER_requires(VF_OUT_OPT(ns_off, size_t))
__CPROVER_requires(VF_OUT_OPT(ar_off, size_t))
__CPROVER_requires(VF_OUT_OPT(rr_count, size_t))
__CPROVER_requires(VF_OUT_OPT(msg_size_ret, size_t))
__CPROVER_assigns(qd_off != NULL: *qd_off)
__CPROVER_assigns(an_off != NULL: *an_off)
__CPROVER_assigns(ns_off != NULL: *ns_off)
__CPROVER_assigns(ar_off != NULL: *ar_off)
__CPROVER_assigns(rr_count != NULL: *rr_count)
__CPROVER_assigns(msg_size_ret != NULL: *msg_size_ret)
__CPROVER_ensures(VF_RV == 0 || VF_RV == EINVAL || VF_RV == EBADMSG)
__CPROVER_ensures(hdr == NULL ==> VF_RV == EINVAL)
__CPROVER_ensures((hdr != NULL && msgbuf_size < VF_DNS_HDR_SIZE) ==> VF_RV == EBADMSG)
/* an error leaves every output untouched */
#define VF_DNS_KEEP(p)	((p) == NULL || *(p) == __CPROVER_old(*(p)))
__CPROVER_ensures(VF_RV != 0 ==> (VF_DNS_KEEP(qd_off) && VF_DNS_KEEP(an_off) && VF_DNS_KEEP(ns_off) &&
    VF_DNS_KEEP(ar_off) && VF_DNS_KEEP(rr_count) && VF_DNS_KEEP(msg_size_ret)))
/* every section offset and the real size lie inside the received bytes, in section order */
__CPROVER_ensures(VF_RV == 0 ==> (qd_off == NULL || *qd_off == VF_DNS_HDR_SIZE))
__CPROVER_ensures(VF_RV == 0 ==> (VF_DNS_OFF_OK(an_off, msgbuf_size) &&
    VF_DNS_OFF_OK(ns_off, msgbuf_size) && VF_DNS_OFF_OK(ar_off, msgbuf_size) &&
    VF_DNS_OFF_OK(msg_size_ret, msgbuf_size)))
__CPROVER_ensures(VF_RV == 0 ==> (VF_DNS_OFF_LE(an_off, ns_off) && VF_DNS_OFF_LE(an_off, ar_off) &&
    VF_DNS_OFF_LE(an_off, msg_size_ret) && VF_DNS_OFF_LE(ns_off, ar_off) &&
    VF_DNS_OFF_LE(ns_off, msg_size_ret) && VF_DNS_OFF_LE(ar_off, msg_size_ret)))
/* the record count is the sum of the three header counters */
__CPROVER_ensures((VF_RV == 0 && rr_count != NULL) ==>
    *rr_count == VF_DNS_AN(hdr) + VF_DNS_NS(hdr) + VF_DNS_AR(hdr))
;

static inline size_t
dns_msg_size_get(dns_hdr_p hdr, size_t msgbuf_size)
__CPROVER_requires(msgbuf_size <= VF_DNS_MSG_MAX)
__CPROVER_requires(VF_DNS_MSG(hdr, msgbuf_size))
__CPROVER_assigns()
/* 0 = not a well-formed message, otherwise a size inside the received bytes */
__CPROVER_ensures(VF_RV == 0 || (VF_DNS_HDR_SIZE <= VF_RV && VF_RV <= msgbuf_size))
__CPROVER_ensures((hdr == NULL || msgbuf_size < VF_DNS_HDR_SIZE) ==> VF_RV == 0)
;

static inline int
dns_msg_validate(dns_hdr_p hdr, size_t msgbuf_size)
__CPROVER_requires(msgbuf_size <= VF_DNS_MSG_MAX)
__CPROVER_requires(VF_DNS_MSG(hdr, msgbuf_size))
__CPROVER_assigns()
__CPROVER_ensures(VF_RV == 0 || VF_RV == EINVAL || VF_RV == EBADMSG)
__CPROVER_ensures(hdr == NULL ==> VF_RV == EINVAL)
__CPROVER_ensures(VF_RV == 0 ==> msgbuf_size >= VF_DNS_HDR_SIZE)
;

/* ------------------------------------------------------------------------------
 * Part 2 (C15): construction-side contracts go below this line.
 * ---------------------------------------------------------------------------- */

#endif /* !VF_REPLAY */
#endif /* VF_CONTRACTS_DNS_H */
