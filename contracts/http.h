/*
 * Contracts for src/proto/http.c (+ include/proto/http.h).
 *
 *  C13 (memory safety / sub-span results / termination, route "unbounded"):
 *      function contracts below, enforced with `goto-instrument --dfcc`; loops closed by
 *      loops/http_*.json.  Input spans are exact-size `is_fresh` objects of symbolic,
 *      unbounded length, so one byte before/after the received bytes is a failed
 *      `pointer_dereference` obligation.
 *  C20 (content, route "bounded"): the postconditions that relate results to the BYTES of the
 *      input are the vf_http_post_*() predicates at the end of this file (-DVF_HTTP_C20); they are stated
 *      with the RFC 7230 delimiting rules of specs/http_spec.h and asserted by the plain
 *      harnesses in harness/C20 over fixed-size symbolic arrays (also natively on replay).
 *
 * Redeclarations only: /repo is not edited.  A function that is a *replaced callee* in a job
 * (-DVF_R_<fn>) gets its spans asserted readable/writable at the call site
 * (__CPROVER_r_ok/w_ok) instead of allocated (__CPROVER_is_fresh).
 *
 * Conventions (listed as assumptions in the registry):
 *   - data span pointers are non-NULL (a NULL span is API misuse, not hostile bytes); optional
 *     out-parameters may be NULL exactly where the API documents it;
 *   - spans of distinct parameters are separate objects unless a job says "in place".
 */
#ifndef VF_CONTRACTS_HTTP_H
#define VF_CONTRACTS_HTTP_H
#include "vf/vf.h"
#include <errno.h>
#include <string.h>
#include <strings.h>
#include "stubs/http.h"
#include "proto/http.h"

/* -DVF_HTTP_MAXN=<n>: bounded variants (full unwinding instead of loop contracts) */
#ifdef VF_HTTP_MAXN
#define VF_HTTP_BOUND(n)	VF_ASSUME((n) <= VF_HTTP_MAXN)
#else
#define VF_HTTP_BOUND(n)	do { } while (0)
#endif

#ifdef VF_REPLAY
/* native replay: ASan rounds malloc(0) up to one byte, so an over-read of an EMPTY span
 * would go unnoticed; give the empty span a detectable end (last byte of an exact block) */
#define VF_HTTP_EMPTY_SPAN(p, n)	do { if ((n) == 0) (p) = (uint8_t *)malloc(8) + 8; } while (0)
#else
#define VF_HTTP_EMPTY_SPAN(p, n)	do { } while (0)
#endif

#ifndef VF_REPLAY

#define VF_FRESH_IN(p, n)	__CPROVER_is_fresh((p), (n))
#define VF_FRESH_OUT_OPT(p)	((p) == NULL || __CPROVER_is_fresh((p), sizeof(*(p))))
#define VF_ROK_IN(p, n)		((n) == 0 || __CPROVER_r_ok((p), (n)))
#define VF_WOK_OUT_OPT(p)	((p) == NULL || __CPROVER_w_ok((p), sizeof(*(p))))

/* ------------------------------------------------------------------ skip_spwsp ---- */
#ifdef VF_R_skip_spwsp
#define VF_IN_skip_spwsp(p, n)	VF_ROK_IN(p, n)
#define VF_OO_skip_spwsp(p)	VF_WOK_OUT_OPT(p)
#else
#define VF_IN_skip_spwsp(p, n)	VF_FRESH_IN(p, n)
#define VF_OO_skip_spwsp(p)	VF_FRESH_OUT_OPT(p)
#endif
/* skips leading bytes < 33; result is the remaining suffix of [buf, buf+buf_size) */
int skip_spwsp(const uint8_t *buf, size_t buf_size, const uint8_t **buf_ret, size_t *buf_size_ret)
__CPROVER_requires(VF_IN_skip_spwsp(buf, buf_size))
__CPROVER_requires(VF_OO_skip_spwsp(buf_ret))
__CPROVER_requires(VF_OO_skip_spwsp(buf_size_ret))
__CPROVER_assigns(buf_ret != NULL: *buf_ret)
__CPROVER_assigns(buf_size_ret != NULL: *buf_size_ret)
__CPROVER_ensures(__CPROVER_return_value == 0)
__CPROVER_ensures(buf_ret != NULL ==> VF_PTR_INSIDE(*buf_ret, buf, buf_size))
/* (the same fact as a pointer EQUALITY with an expression over buf: when the clause is assumed at
 * a call site this gives the havocked *buf_ret the points-to set of buf, so that later
 * dereferences of it read the real bytes) */
__CPROVER_ensures(buf_ret != NULL ==> *buf_ret == buf + (VF_OFF(*buf_ret) - VF_OFF(buf)))
__CPROVER_ensures(buf_size_ret != NULL ==> *buf_size_ret <= buf_size)
/* pointer and length describe the same suffix */
__CPROVER_ensures((buf_ret != NULL && buf_size_ret != NULL) ==>
    (VF_OFF(*buf_ret) - VF_OFF(buf)) + *buf_size_ret == buf_size)
/* (redundant with the two clauses above; stated for the callers' benefit) */
__CPROVER_ensures((buf_ret != NULL && buf_size_ret != NULL) ==>
    (*buf_size_ret == 0 || __CPROVER_r_ok(*buf_ret, *buf_size_ret)))
/* content: the suffix is empty or starts with a byte that is not white space (>= 33) */
/* (read through `buf`: a dereference of the havocked *buf_ret has no points-to set when this
 * clause is assumed at a call site) */
__CPROVER_ensures((buf_ret != NULL && VF_OFF(*buf_ret) - VF_OFF(buf) < buf_size) ==>
    buf[VF_OFF(*buf_ret) - VF_OFF(buf)] >= 33)
;

/* ----------------------------------------------------------------- skip_spwsp2 ---- */
#ifdef VF_R_skip_spwsp2
#define VF_IN_skip_spwsp2(p, n)	VF_ROK_IN(p, n)
#define VF_OO_skip_spwsp2(p)	VF_WOK_OUT_OPT(p)
#else
#define VF_IN_skip_spwsp2(p, n)	VF_FRESH_IN(p, n)
#define VF_OO_skip_spwsp2(p)	VF_FRESH_OUT_OPT(p)
#endif
/* trims bytes < 33 from the head (if buf_ret) and from the tail (if buf_size_ret) */
int skip_spwsp2(const uint8_t *buf, size_t buf_size, const uint8_t **buf_ret, size_t *buf_size_ret)
__CPROVER_requires(VF_IN_skip_spwsp2(buf, buf_size))
__CPROVER_requires(VF_OO_skip_spwsp2(buf_ret))
__CPROVER_requires(VF_OO_skip_spwsp2(buf_size_ret))
__CPROVER_assigns(buf_ret != NULL: *buf_ret)
__CPROVER_assigns(buf_size_ret != NULL: *buf_size_ret)
__CPROVER_ensures(__CPROVER_return_value == 0)
__CPROVER_ensures(buf_ret != NULL ==> VF_PTR_INSIDE(*buf_ret, buf, buf_size))
__CPROVER_ensures(buf_size_ret != NULL ==> *buf_size_ret <= buf_size)
__CPROVER_ensures((buf_ret != NULL && buf_size_ret != NULL) ==>
    (VF_OFF(*buf_ret) - VF_OFF(buf)) + *buf_size_ret <= buf_size)
;

/* ---------------------------------------------------------------- wsp2sp / ht2sp ---- */
/* -DVF_HTTP_INPLACE: the documented in-place use, ret_buf == buf */
#ifdef VF_HTTP_INPLACE
#define VF_HTTP_DST(dst, src, n)	((dst) == (src))
#else
#define VF_HTTP_DST(dst, src, n)	__CPROVER_is_fresh((dst), (n))
#endif
/* unfolds LWS ([CRLF] 1*(SP|HT) -> SP): output never longer than the input, written to ret_buf only */
int wsp2sp(uint8_t *buf, size_t buf_size, uint8_t *ret_buf, size_t *buf_size_ret)
__CPROVER_requires(VF_FRESH_IN(buf, buf_size))
__CPROVER_requires(VF_HTTP_DST(ret_buf, buf, buf_size))
__CPROVER_requires(VF_FRESH_OUT_OPT(buf_size_ret))
__CPROVER_assigns(__CPROVER_object_upto(ret_buf, buf_size))
__CPROVER_assigns(buf_size_ret != NULL: *buf_size_ret)
__CPROVER_ensures(__CPROVER_return_value == 0 || __CPROVER_return_value == EINVAL)
__CPROVER_ensures((buf_size == 0) == (__CPROVER_return_value == EINVAL))
__CPROVER_ensures((__CPROVER_return_value == 0 && buf_size_ret != NULL) ==>
    *buf_size_ret <= buf_size)
;
/* HT -> SP: same length, result in ret_buf, nothing else written */
int ht2sp(uint8_t *buf, size_t buf_size, uint8_t *ret_buf, size_t *buf_size_ret)
__CPROVER_requires(VF_FRESH_IN(buf, buf_size))
__CPROVER_requires(VF_HTTP_DST(ret_buf, buf, buf_size))
__CPROVER_requires(VF_FRESH_OUT_OPT(buf_size_ret))
__CPROVER_assigns(__CPROVER_object_upto(ret_buf, buf_size))
__CPROVER_assigns(buf_size_ret != NULL: *buf_size_ret)
__CPROVER_ensures(__CPROVER_return_value == 0 || __CPROVER_return_value == EINVAL)
__CPROVER_ensures((buf_size == 0) == (__CPROVER_return_value == EINVAL))
__CPROVER_ensures((__CPROVER_return_value == 0 && buf_size_ret != NULL) ==> *buf_size_ret == buf_size)
;

/* ---------------------------------------------------------- http_get_method_fast ---- */
#ifdef VF_R_http_get_method_fast
#define VF_IN_http_get_method_fast(p, n)	VF_ROK_IN(p, n)
#else
#define VF_IN_http_get_method_fast(p, n)	VF_FRESH_IN(p, n)
#endif
uint32_t http_get_method_fast(const uint8_t *m, size_t m_size)
__CPROVER_requires(VF_IN_http_get_method_fast(m, m_size))
__CPROVER_assigns()
__CPROVER_ensures(__CPROVER_return_value < HTTP_REQ_METHOD__COUNT__)
;
int http_get_transfer_encoding_fast(uint8_t *c, size_t c_size)
__CPROVER_requires(VF_FRESH_IN(c, c_size))
__CPROVER_assigns()
__CPROVER_ensures(0 <= __CPROVER_return_value && __CPROVER_return_value < HTTP_REQ_TE__COUNT__)
;

/* ------------------------------------------------------------ request / status line ---- */
#define VF_REQ_SPANS_INSIDE(rd, hdr)							\
	(VF_INSIDE((rd)->method, (rd)->method_size, (hdr), (rd)->line_size) &&		\
	 VF_INSIDE((rd)->uri, (rd)->uri_size, (hdr), (rd)->line_size) &&		\
	 VF_INSIDE((rd)->scheme, (rd)->scheme_size, (hdr), (rd)->line_size) &&		\
	 VF_INSIDE((rd)->host, (rd)->host_size, (hdr), (rd)->line_size) &&		\
	 VF_INSIDE((rd)->abs_path, (rd)->abs_path_size, (hdr), (rd)->line_size) &&	\
	 VF_INSIDE((rd)->query, (rd)->query_size, (hdr), (rd)->line_size))

/* -DVF_HTTP_GHOST_K: unbounded single-conjunct content variant (C20): the method span starts
 * the line, is followed by SP and contains no SP; the target is non-empty, ends at an SP and
 * contains no SP; the line ends at the first CRLF (all at the ghost index vf_k) */
#ifdef VF_HTTP_GHOST_K
extern size_t vf_k;
#define VF_REQ_LINE_K_ENSURES							\
__CPROVER_ensures(__CPROVER_return_value == 0 ==> (req_data->method == http_hdr &&	\
    req_data->method_size < req_data->line_size &&				\
    http_hdr[req_data->method_size] == ' '))					\
__CPROVER_ensures((__CPROVER_return_value == 0 && vf_k < req_data->method_size) ==> http_hdr[vf_k] != ' ')	\
/* the target is non-empty, ends at an SP and contains no SP */			\
__CPROVER_ensures(__CPROVER_return_value == 0 ==> (req_data->uri_size >= 1 &&		\
    req_data->uri[req_data->uri_size] == ' '))					\
__CPROVER_ensures((__CPROVER_return_value == 0 &&					\
    vf_k >= VF_OFF(req_data->uri) - VF_OFF(http_hdr) &&				\
    vf_k - (VF_OFF(req_data->uri) - VF_OFF(http_hdr)) < req_data->uri_size) ==> http_hdr[vf_k] != ' ')	\
/* the line ends at the FIRST CRLF (or at the end of the block) */		\
__CPROVER_ensures(__CPROVER_return_value == 0 ==> (req_data->line_size == hdr_size ||	\
    (req_data->line_size + 2 <= hdr_size && http_hdr[req_data->line_size] == '\r' &&	\
     http_hdr[req_data->line_size + 1] == '\n')))					\
__CPROVER_ensures((__CPROVER_return_value == 0 && vf_k < req_data->line_size &&		\
    vf_k + 1 < req_data->line_size) ==>						\
    !(http_hdr[vf_k] == '\r' && http_hdr[vf_k + 1] == '\n'))
#else
#define VF_REQ_LINE_K_ENSURES
#endif
int http_parse_req_line(const uint8_t *http_hdr, size_t hdr_size, http_req_line_data_p req_data)
__CPROVER_requires(VF_FRESH_IN(http_hdr, hdr_size))
__CPROVER_requires(__CPROVER_is_fresh(req_data, sizeof(*req_data)))
__CPROVER_assigns(*req_data)
__CPROVER_ensures(__CPROVER_return_value == 0 || __CPROVER_return_value == EINVAL ||
    __CPROVER_return_value == EBADMSG)
__CPROVER_ensures(hdr_size <= 10 ==> __CPROVER_return_value == EINVAL)
/* structurally consistent result: the line and every span lie inside the received bytes */
__CPROVER_ensures(__CPROVER_return_value == 0 ==> req_data->line_size <= hdr_size)
__CPROVER_ensures(__CPROVER_return_value == 0 ==> VF_REQ_SPANS_INSIDE(req_data, http_hdr))
__CPROVER_ensures(__CPROVER_return_value == 0 ==> req_data->method_code < HTTP_REQ_METHOD__COUNT__)
VF_REQ_LINE_K_ENSURES
;

int http_parse_resp_line(const uint8_t *http_hdr, size_t hdr_size, http_resp_line_data_p resp_data)
__CPROVER_requires(VF_FRESH_IN(http_hdr, hdr_size))
__CPROVER_requires(__CPROVER_is_fresh(resp_data, sizeof(*resp_data)))
__CPROVER_assigns(*resp_data)
__CPROVER_ensures(__CPROVER_return_value == 0 || __CPROVER_return_value == EINVAL ||
    __CPROVER_return_value == EBADMSG)
__CPROVER_ensures(hdr_size < 14 ==> __CPROVER_return_value == EINVAL)
__CPROVER_ensures(__CPROVER_return_value == 0 ==>
    (resp_data->line_size <= hdr_size && 13 <= resp_data->line_size))
__CPROVER_ensures(__CPROVER_return_value == 0 ==>
    VF_INSIDE(resp_data->reason_phrase, resp_data->reason_phrase_size, http_hdr, resp_data->line_size))
__CPROVER_ensures(__CPROVER_return_value == 0 ==> resp_data->status_code <= 999)
;

/* ------------------------------------------------------------------ header fields ---- */
#ifdef VF_R_http_hdr_val_get_ex
#define VF_IN_http_hdr_val_get_ex(p, n)	VF_ROK_IN(p, n)
#define VF_OO_http_hdr_val_get_ex(p)	VF_WOK_OUT_OPT(p)
#else
#define VF_IN_http_hdr_val_get_ex(p, n)	VF_FRESH_IN(p, n)
#define VF_OO_http_hdr_val_get_ex(p)	VF_FRESH_OUT_OPT(p)
#endif
/* -DVF_HTTP_GHOST_K (enforced only): unbounded content variant (C20) - a found field starts a
 * line (CRLF directly before it), its name equals val_name ignoring case (at ghost index vf_j,
 * over the compared length recorded by the strncasecmp stub: val_name_size, or up to a NUL the
 * caller put into val_name), ':' follows the name, the value lies after that ':' */
#if defined(VF_HTTP_GHOST_K) && !defined(VF_R_http_hdr_val_get_ex)
#define VF_LC(c)	(((c) >= 'A' && (c) <= 'Z') ? (uint8_t)((c) | 32) : (uint8_t)(c))
#define VF_HDR_GET_K_CLAUSES								\
__CPROVER_requires(val_name_size >= 1 && val_ret != NULL)				\
__CPROVER_assigns(vf_cmp_off, vf_cmp_len)						\
__CPROVER_ensures(__CPROVER_return_value == 0 ==> (vf_cmp_off >= 2 && vf_cmp_off >= offset + 2 &&	\
    vf_cmp_off + val_name_size < hdr_size &&						\
    http_hdr[vf_cmp_off - 2] == '\r' && http_hdr[vf_cmp_off - 1] == '\n' &&		\
    http_hdr[vf_cmp_off + val_name_size] == ':'))					\
__CPROVER_ensures(__CPROVER_return_value == 0 ==>					\
    (vf_cmp_len == val_name_size || (vf_cmp_len < val_name_size && val_name[vf_cmp_len] == 0)))	\
__CPROVER_ensures((__CPROVER_return_value == 0 && vf_j < vf_cmp_len) ==>		\
    VF_LC(http_hdr[vf_cmp_off + vf_j]) == VF_LC(val_name[vf_j]))			\
__CPROVER_ensures(__CPROVER_return_value == 0 ==>					\
    VF_OFF(*val_ret) - VF_OFF(http_hdr) > vf_cmp_off + val_name_size)
extern size_t vf_cmp_off, vf_cmp_len, vf_j;
#else
#define VF_HDR_GET_K_CLAUSES
#endif
int http_hdr_val_get_ex(const uint8_t *http_hdr, size_t hdr_size,
    const uint8_t *val_name, size_t val_name_size, size_t offset,
    const uint8_t **val_ret, size_t *val_ret_size, size_t *offset_next)
VF_HDR_GET_K_CLAUSES
__CPROVER_requires(VF_IN_http_hdr_val_get_ex(http_hdr, hdr_size))
__CPROVER_requires(VF_IN_http_hdr_val_get_ex(val_name, val_name_size))
__CPROVER_requires(VF_OO_http_hdr_val_get_ex(val_ret))
__CPROVER_requires(VF_OO_http_hdr_val_get_ex(val_ret_size))
__CPROVER_requires(VF_OO_http_hdr_val_get_ex(offset_next))
__CPROVER_assigns(val_ret != NULL: *val_ret)
__CPROVER_assigns(val_ret_size != NULL: *val_ret_size)
__CPROVER_assigns(offset_next != NULL: *offset_next)
__CPROVER_ensures(__CPROVER_return_value == 0 || __CPROVER_return_value == ESPIPE)
/* the value is a sub-span of the header block; the continuation offset makes progress */
__CPROVER_ensures((__CPROVER_return_value == 0 && val_ret != NULL) ==>
    VF_PTR_INSIDE(*val_ret, http_hdr, hdr_size))
__CPROVER_ensures((__CPROVER_return_value == 0 && val_ret != NULL && val_ret_size != NULL) ==>
    VF_INSIDE(*val_ret, *val_ret_size, http_hdr, hdr_size))
__CPROVER_ensures((__CPROVER_return_value == 0 && val_ret_size != NULL) ==> *val_ret_size <= hdr_size)
__CPROVER_ensures((__CPROVER_return_value == 0 && offset_next != NULL) ==>
    (offset < *offset_next && *offset_next <= hdr_size))
;

int http_hdr_val_get(const uint8_t *http_hdr, size_t hdr_size,
    const uint8_t *val_name, size_t val_name_size,
    const uint8_t **val_ret, size_t *val_ret_size)
__CPROVER_requires(VF_FRESH_IN(http_hdr, hdr_size))
__CPROVER_requires(VF_FRESH_IN(val_name, val_name_size))
__CPROVER_requires(VF_FRESH_OUT_OPT(val_ret))
__CPROVER_requires(VF_FRESH_OUT_OPT(val_ret_size))
__CPROVER_assigns(val_ret != NULL: *val_ret)
__CPROVER_assigns(val_ret_size != NULL: *val_ret_size)
__CPROVER_ensures(__CPROVER_return_value == 0 || __CPROVER_return_value == ESPIPE)
__CPROVER_ensures((__CPROVER_return_value == 0 && val_ret != NULL && val_ret_size != NULL) ==>
    VF_INSIDE(*val_ret, *val_ret_size, http_hdr, hdr_size))
;

#ifdef VF_R_http_hdr_val_get_count
#define VF_IN_http_hdr_val_get_count(p, n)	VF_ROK_IN(p, n)
#else
#define VF_IN_http_hdr_val_get_count(p, n)	VF_FRESH_IN(p, n)
#endif
size_t http_hdr_val_get_count(const uint8_t *http_hdr, size_t hdr_size,
    const uint8_t *val_name, size_t val_name_size)
__CPROVER_requires(VF_IN_http_hdr_val_get_count(http_hdr, hdr_size))
__CPROVER_requires(VF_IN_http_hdr_val_get_count(val_name, val_name_size))
__CPROVER_assigns()
__CPROVER_ensures(__CPROVER_return_value <= hdr_size)
;

#ifdef VF_R_http_hdr_val_remove
#define VF_IO_http_hdr_val_remove(p, n)	((n) == 0 || __CPROVER_w_ok((p), (n)))
#define VF_IN_http_hdr_val_remove(p, n)	((p) == NULL || VF_ROK_IN(p, n))
#define VF_OO_http_hdr_val_remove(p)	VF_WOK_OUT_OPT(p)
#else
#define VF_IO_http_hdr_val_remove(p, n)	VF_FRESH_IN(p, n)
#define VF_IN_http_hdr_val_remove(p, n)	VF_FRESH_IN(p, n)
#define VF_OO_http_hdr_val_remove(p)	VF_FRESH_OUT_OPT(p)
#endif
/* removes the fields named val_name from both copies (original and lower-cased) in place */
size_t http_hdr_val_remove(uint8_t *http_hdr, uint8_t *hdr_lcase, size_t hdr_size,
    size_t *phdr_size, const uint8_t *val_name, size_t val_name_size)
__CPROVER_requires(VF_IO_http_hdr_val_remove(http_hdr, hdr_size))
__CPROVER_requires(VF_IO_http_hdr_val_remove(hdr_lcase, hdr_size))
__CPROVER_requires(VF_IN_http_hdr_val_remove(val_name, val_name_size))
__CPROVER_requires(VF_OO_http_hdr_val_remove(phdr_size))
__CPROVER_assigns(__CPROVER_object_upto(http_hdr, hdr_size))
__CPROVER_assigns(__CPROVER_object_upto(hdr_lcase, hdr_size))
__CPROVER_assigns(phdr_size != NULL: *phdr_size)
__CPROVER_ensures(__CPROVER_return_value <= hdr_size)
__CPROVER_ensures((phdr_size != NULL && hdr_size != 0 && val_name != NULL && val_name_size != 0) ==>
    *phdr_size <= hdr_size)
;

/* VF_HTTP_MAX_NAMES: the name table is enumerated element-wise (is_fresh per entry) */
#ifndef VF_HTTP_MAX_NAMES
#define VF_HTTP_MAX_NAMES 2
#endif
size_t http_hdr_vals_remove(uint8_t *http_hdr, uint8_t *hdr_lcase, size_t hdr_size,
    size_t *phdr_size, size_t vals_count, const uint8_t **pvals_name, size_t *pvals_name_size)
__CPROVER_requires(vals_count <= VF_HTTP_MAX_NAMES)
__CPROVER_requires(VF_FRESH_IN(http_hdr, hdr_size))
__CPROVER_requires(VF_FRESH_IN(hdr_lcase, hdr_size))
__CPROVER_requires(__CPROVER_is_fresh(pvals_name, VF_HTTP_MAX_NAMES * sizeof(*pvals_name)))
__CPROVER_requires(__CPROVER_is_fresh(pvals_name_size, VF_HTTP_MAX_NAMES * sizeof(*pvals_name_size)))
__CPROVER_requires(pvals_name[0] == NULL || __CPROVER_is_fresh(pvals_name[0], pvals_name_size[0]))
__CPROVER_requires(pvals_name[1] == NULL || __CPROVER_is_fresh(pvals_name[1], pvals_name_size[1]))
__CPROVER_requires(VF_FRESH_OUT_OPT(phdr_size))
__CPROVER_assigns(__CPROVER_object_upto(http_hdr, hdr_size))
__CPROVER_assigns(__CPROVER_object_upto(hdr_lcase, hdr_size))
__CPROVER_assigns(phdr_size != NULL: *phdr_size)
__CPROVER_ensures((phdr_size != NULL && hdr_size != 0 && vals_count != 0) ==> *phdr_size <= hdr_size)
;

/* -DVF_HTTP_GHOST_K: unbounded single-conjunct content variant (C20, thorough tier): for the
 * harness-chosen ghost index vf_k, an accepted block satisfies the byte rules 1 and 2 at vf_k */
#ifdef VF_HTTP_GHOST_K
/* the byte rules 1 and 2 of the smuggling table (specs/http_spec.h vs_byte_rule), stateless */
#define VF_SEC_BYTE_OK(b, n, k)							\
	((b)[k] <= 126 &&								\
	 !((b)[k] == ' ' && (k) + 1 < (n) && (b)[(k) + 1] == ':') &&			\
	 ((b)[k] >= 32 || (b)[k] == '\t' ||						\
	  ((b)[k] == '\r' && (k) + 1 < (n) && (b)[(k) + 1] == '\n') ||			\
	  ((b)[k] == '\n' && (k) > 0 && (b)[(k) - 1] == '\r')))
#define VF_SEC_CHK_K_ENSURES	__CPROVER_ensures((__CPROVER_return_value == 0 && vf_k < hdr_size) ==> \
    VF_SEC_BYTE_OK(http_hdr, hdr_size, vf_k))
#else
#define VF_SEC_CHK_K_ENSURES
#endif
int http_req_sec_chk(const uint8_t *http_hdr, size_t hdr_size, uint32_t method_code)
__CPROVER_requires(VF_FRESH_IN(http_hdr, hdr_size))
__CPROVER_assigns()
__CPROVER_ensures(0 <= __CPROVER_return_value && __CPROVER_return_value <= 7)
VF_SEC_CHK_K_ENSURES
;

/* -------------------------------------------------------------------- query string ---- */
#ifdef VF_R_http_query_val_get_ex
#define VF_IN_http_query_val_get_ex(p, n)	VF_ROK_IN(p, n)
#define VF_OO_http_query_val_get_ex(p)		VF_WOK_OUT_OPT(p)
#else
#define VF_IN_http_query_val_get_ex(p, n)	VF_FRESH_IN(p, n)
#define VF_OO_http_query_val_get_ex(p)		VF_FRESH_OUT_OPT(p)
#endif
int http_query_val_get_ex(const uint8_t *query, size_t query_size,
    const uint8_t *val_name, size_t val_name_size,
    const uint8_t **val_name_ret, const uint8_t **val_ret, size_t *val_ret_size)
__CPROVER_requires(VF_IN_http_query_val_get_ex(query, query_size))
__CPROVER_requires(VF_IN_http_query_val_get_ex(val_name, val_name_size))
__CPROVER_requires(VF_OO_http_query_val_get_ex(val_name_ret))
__CPROVER_requires(VF_OO_http_query_val_get_ex(val_ret))
__CPROVER_requires(VF_OO_http_query_val_get_ex(val_ret_size))
__CPROVER_assigns(val_name_ret != NULL: *val_name_ret)
__CPROVER_assigns(val_ret != NULL: *val_ret)
__CPROVER_assigns(val_ret_size != NULL: *val_ret_size)
__CPROVER_ensures(__CPROVER_return_value == 0 || __CPROVER_return_value == ESPIPE)
__CPROVER_ensures((__CPROVER_return_value == 0 && val_name_ret != NULL) ==>
    VF_PTR_INSIDE(*val_name_ret, query, query_size))
__CPROVER_ensures((__CPROVER_return_value == 0 && val_ret != NULL) ==>
    VF_PTR_INSIDE(*val_ret, query, query_size))
__CPROVER_ensures((__CPROVER_return_value == 0 && val_ret != NULL && val_ret_size != NULL) ==>
    VF_INSIDE(*val_ret, *val_ret_size, query, query_size))
__CPROVER_ensures((__CPROVER_return_value == 0 && val_ret != NULL && val_ret_size != NULL) ==>
    (VF_OFF(*val_ret) - VF_OFF(query)) + *val_ret_size <= query_size)
/* name '=' value: the name starts strictly before the value */
__CPROVER_ensures((__CPROVER_return_value == 0 && val_name_ret != NULL && val_ret != NULL) ==>
    VF_OFF(*val_name_ret) < VF_OFF(*val_ret))
;

int http_query_val_get(const uint8_t *query, size_t query_size,
    const uint8_t *val_name, size_t val_name_size,
    const uint8_t **val_ret, size_t *val_ret_size)
__CPROVER_requires(VF_FRESH_IN(query, query_size))
__CPROVER_requires(VF_FRESH_IN(val_name, val_name_size))
__CPROVER_requires(VF_FRESH_OUT_OPT(val_ret))
__CPROVER_requires(VF_FRESH_OUT_OPT(val_ret_size))
__CPROVER_assigns(val_ret != NULL: *val_ret)
__CPROVER_assigns(val_ret_size != NULL: *val_ret_size)
__CPROVER_ensures(__CPROVER_return_value == 0 || __CPROVER_return_value == ESPIPE)
__CPROVER_ensures((__CPROVER_return_value == 0 && val_ret != NULL && val_ret_size != NULL) ==>
    VF_INSIDE(*val_ret, *val_ret_size, query, query_size))
;

size_t http_query_val_del(uint8_t *query, size_t query_size, const uint8_t *val_name,
    size_t val_name_size, size_t *query_size_ret)
__CPROVER_requires(VF_FRESH_IN(query, query_size))
__CPROVER_requires(VF_FRESH_IN(val_name, val_name_size))
__CPROVER_requires(VF_FRESH_OUT_OPT(query_size_ret))
__CPROVER_assigns(__CPROVER_object_upto(query, query_size))
__CPROVER_assigns(query_size_ret != NULL: *query_size_ret)
__CPROVER_ensures(__CPROVER_return_value <= query_size)
__CPROVER_ensures(query_size_ret != NULL ==> *query_size_ret <= query_size)
;

/* ------------------------------------------------------------------------ decoders ---- */
int http_data_decode_chunked(uint8_t *data, size_t data_size, uint8_t **data_ret, size_t *data_ret_size)
__CPROVER_requires(VF_FRESH_IN(data, data_size))
__CPROVER_requires(__CPROVER_is_fresh(data_ret, sizeof(*data_ret)))
__CPROVER_requires(__CPROVER_is_fresh(data_ret_size, sizeof(*data_ret_size)))
__CPROVER_assigns(__CPROVER_object_upto(data, data_size))
__CPROVER_assigns(*data_ret, *data_ret_size)
__CPROVER_ensures(__CPROVER_return_value == 0 || __CPROVER_return_value == EINVAL)
/* decoded body is a sub-span of the received bytes */
__CPROVER_ensures(__CPROVER_return_value == 0 ==> *data_ret_size <= data_size)
__CPROVER_ensures(__CPROVER_return_value == 0 ==>
    VF_INSIDE(*data_ret, *data_ret_size, data, data_size))
;

size_t http_url_decode(uint8_t *url, size_t url_size, uint8_t *buf, size_t buf_size)
__CPROVER_requires(VF_FRESH_IN(url, url_size))
#ifdef VF_HTTP_INPLACE
__CPROVER_requires(buf == url && buf_size == url_size)
#else
__CPROVER_requires(VF_FRESH_IN(buf, buf_size))
#endif
__CPROVER_assigns(__CPROVER_object_upto(buf, buf_size))
/* decoded text + NUL fit the destination; never longer than the source */
__CPROVER_ensures(__CPROVER_return_value <= url_size)
__CPROVER_ensures(buf_size == 0 ? __CPROVER_return_value == 0 : __CPROVER_return_value < buf_size)
;

#endif /* !VF_REPLAY */
#endif

/* ============================================================================================
 * C20 -- content postconditions (route "bounded": asserted by the plain harnesses in
 * harness/C20 over fixed-size symbolic arrays, and natively on replay).  Each predicate
 * relates the parser's answer to the BYTES of the input through the RFC 7230 delimiting
 * rules of specs/http_spec.h; none of it is derived from what src/proto/http.c does.
 * ============================================================================================ */
#ifdef VF_HTTP_C20
#include "specs/http_spec.h"

/* http_parse_req_line(b, n, rd) returned ret */
static inline void
vf_http_post_req_line(const uint8_t *b, size_t n, int ret, const http_req_line_data_t *rd, size_t k) {
	vs_req S;
	vs_target T;
	int ok = vs_req_split(b, n, &S);

	VF_ASSERT(ret == 0 || ret == EINVAL || ret == EBADMSG, "req_line: return code");
	VF_ASSERT((n <= 10) == (ret == EINVAL), "req_line: EINVAL iff hdr_size <= 10");
	/* completeness: every strictly well-formed line (RFC 7230 3.1.1, method = token that
	 * starts with an upper-case letter as all registered methods do) is accepted */
	if (n > 10 && ok && S.strict && vs_is_token(b, S.method.pos, S.method.len) &&
	    b[0] >= 'A' && b[0] <= 'Z')
		VF_ASSERT(ret == 0, "req_line: well-formed request-line accepted");
	if (ret != 0)
		return;
	/* soundness of an accepted line */
	VF_ASSERT(ok, "req_line: accepted line is method SP target SP HTTP-version");
	if (!ok)
		return;
	VF_ASSERT(rd->line_size == S.line_len, "req_line: line ends at the first CRLF");
	VF_ASSERT(rd->method == b && rd->method_size == S.method.len, "req_line: method ends at the first SP");
	VF_ASSERT(b[rd->method_size] == ' ', "req_line: SP after the method");
	VF_ASSERT(!(k < rd->method_size) || b[k] != ' ', "req_line: no SP inside the method");
	VF_ASSERT(rd->method_code == vs_method_code(b, S.method.len), "req_line: method code");
	VF_ASSERT(rd->uri == b + S.target.pos && rd->uri_size == S.target.len,
	    "req_line: target = bytes after the separator run up to the next SP");
	VF_ASSERT(rd->proto_ver == MAKEDWORD(S.ver_minor, S.ver_major), "req_line: version digits");
	/* request-target components (RFC 7230 5.3 / RFC 3986 3) */
	vs_target_split(b, S.target, vs_method_is(b, S.method, "CONNECT", 7), &T);
	switch (T.form) {
	case VS_TGT_AUTHORITY:
		VF_ASSERT(rd->host == b + T.authority.pos && rd->host_size == T.authority.len,
		    "req_line: CONNECT target is the authority");
		VF_ASSERT(rd->scheme_size == 0 && rd->abs_path_size == 0 && rd->query_size == 0,
		    "req_line: authority-form has no scheme, path, query");
		break;
	case VS_TGT_ASTERISK:
		VF_ASSERT(rd->scheme_size == 0 && rd->host_size == 0 && rd->query_size == 0,
		    "req_line: asterisk-form has no scheme, authority, query");
		break;
	case VS_TGT_ORIGIN:
	case VS_TGT_ABSOLUTE:
		VF_ASSERT(rd->scheme_size == T.scheme.len &&
		    (T.scheme.len == 0 || rd->scheme == b + T.scheme.pos),
		    "req_line: scheme = bytes before the first \"://\" of an absolute-form target only");
		VF_ASSERT(rd->host_size == T.authority.len &&
		    (T.authority.len == 0 || rd->host == b + T.authority.pos),
		    "req_line: authority ends at the next '/' or '?'");
		VF_ASSERT(rd->query_size == T.query.len &&
		    (T.query.len == 0 || rd->query == b + T.query.pos),
		    "req_line: query = bytes after the first '?'");
		VF_ASSERT(rd->abs_path_size == T.trimmed_path.len &&
		    (T.trimmed_path.len == 0 || rd->abs_path == b + T.trimmed_path.pos),
		    "req_line: abs_path = path up to the documented slash trimming");
		break;
	default:	/* not a request-target of RFC 7230 5.3: only sub-span structure (C13) */
		break;
	}
}

/* http_parse_resp_line(b, n, rd) returned ret */
static inline void
vf_http_post_resp_line(const uint8_t *b, size_t n, int ret, const http_resp_line_data_t *rd) {
	vs_resp S;
	int ok = vs_resp_split(b, n, &S);

	VF_ASSERT(ret == 0 || ret == EINVAL || ret == EBADMSG, "resp_line: return code");
	VF_ASSERT((n < 14) == (ret == EINVAL), "resp_line: EINVAL iff hdr_size < 14");
	if (n >= 14)
		VF_ASSERT((ret == 0) == ok, "resp_line: accepted iff HTTP-version SP 3DIGIT SP reason");
	if (ret != 0 || !ok)
		return;
	VF_ASSERT(rd->line_size == S.line_len, "resp_line: line ends at the first CRLF");
	VF_ASSERT(rd->proto_ver == MAKEDWORD(S.ver_minor, S.ver_major), "resp_line: version digits");
	VF_ASSERT(rd->status_code == S.status, "resp_line: status code value");
	VF_ASSERT(rd->reason_phrase == b + S.reason.pos && rd->reason_phrase_size == S.reason.len,
	    "resp_line: reason-phrase = rest of the line");
}

/* http_hdr_val_get_ex(b, n, name, name_len, offset, &val, &val_size, &next) returned ret */
static inline void
vf_http_post_hdr_get(const uint8_t *b, size_t n, const uint8_t *name, size_t name_len, size_t offset,
    int ret, const uint8_t *val, size_t val_size, size_t next) {
	vs_span sv = { 0, 0 };
	size_t snext = 0;
	int found = vs_hdr_find(b, n, name, name_len, offset, &sv, &snext);

	VF_ASSERT(ret == 0 || ret == ESPIPE, "hdr_get: return code");
	VF_ASSERT((ret == 0) == found,
	    "hdr_get: found iff a line starts with the name (any case) followed by ':'");
	if (ret != 0 || !found)
		return;
	VF_ASSERT(val_size == sv.len && (sv.len == 0 || val == b + sv.pos),
	    "hdr_get: value = field value incl. folded lines, trimmed of LWS");
	VF_ASSERT(next == snext, "hdr_get: continuation offset = end of the field");
}
#endif /* VF_HTTP_C20 */
