/*
 * Contracts for include/crypto/dsa/ecdsa.h (C03 signatures, C09 keys / DH), on redeclarations
 * that follow the unmodified header.  See contracts/ec.h for the role-dependent ghost clauses
 * (-DVF_ENFORCE_<fn> when the function is the one checked against its body).
 *
 * Top-level postconditions are transcribed from properties C03 / C09:
 *   - never reports success when an internal computation failed   (ghost status conjunction)
 *   - rejects r, s outside [1, n-1]; private keys >= n; the neutral element as public key;
 *     unknown algorithm ids
 *   - the hash enters the computation as e mod n (the standards' e), never through the nonce
 *     reduction (x mod (n-1)) + 1
 *   - hash / r / s / public key are not modified by verification (frame)
 *   - byte-string entry points read and write only within the sizes the caller passed
 *     (exact-size spans: one byte beyond is a failed obligation)
 * What is NOT here: anything that needs the group law (sign/verify round trip, agreement with
 * an independent verifier).
 */
#ifndef VF_CONTRACTS_ECDSA_H
#define VF_CONTRACTS_ECDSA_H

#include "contracts/ec.h"
#ifndef VF_REPLAY

#define VF_N(curve)		vf_bn_val((curve)->n)
#define VF_NID(curve)		VF_ID(&(curve)->n)
#define VF_ALGO_KNOWN(curve)	((curve)->algo == EC_CURVE_ALGO_ECDSA || (curve)->algo == EC_CURVE_ALGO_GOST20XX)
#define VF_CURVE_IN(curve)	(VF_EC_CURVE_OK(curve) && VF_EC_CURVE_WF(*curve))

/* ================================================================== C03: verify ==== */
/*
 * ecdsa_verify(curve, e, r, s, Q): 0 accept; EINVAL / -1 / -2 / callee status: reject.
 *  (1) accept  ==>  every internal computation (replaced callee) returned 0
 *  (2) r >= n, s >= n, r == 0, s == 0, Q == infinity  ==>  reject;  unknown algorithm  ==>
 *      reject, with EINVAL unless an earlier computation already failed
 *  (4) writes nothing but ghost state (hash, sign_r, sign_s, pub_key, curve unchanged)
 *  (5) accept  ==>  exactly one double-scalar multiplication, over the caller's curve and public
 *      key, no single multiplication; the value last reduced modulo n is a copy of the x
 *      coordinate it produced, and that reduced value equals r
 *  (6) accept  ==>  a copy of the hash was reduced by bn_mod modulo n (e = hash mod n) and did not
 *      go through bn_mod_reduce
 */
#ifdef VF_ENFORCE_ecdsa_verify
#define VF_G_verify	VF_EC_ENFORCED_GHOST
#else
#define VF_G_verify									\
	__CPROVER_assigns(VF_EC_STATUS_ASSIGNS, vf_g.core)				\
	__CPROVER_ensures(VF_EC_STATUS_ENSURES)						\
	__CPROVER_ensures(vf_st_core == __CPROVER_return_value && vf_n_core == __CPROVER_old(vf_n_core) + 1u &&	\
	    vf_core_a0 == VF_ID(curve) && vf_core_a1 == VF_ID(hash) && vf_core_a2 == VF_ID(sign_r) &&	\
	    vf_core_a3 == VF_ID(sign_s) && vf_core_a4 == VF_ID(pub_key) && vf_core_flag == 0)
#endif
static inline int
ecdsa_verify(ec_curve_p curve, bn_p hash, bn_p sign_r, bn_p sign_s, ec_point_p pub_key)
__CPROVER_requires(VF_CURVE_IN(curve))
__CPROVER_requires(VF_ECBN_R(hash) && VF_ECBN_R(sign_r) && VF_ECBN_R(sign_s))
__CPROVER_requires(__CPROVER_r_ok(pub_key, sizeof(ec_point_t)) && VF_EC_POINT_WF(*pub_key))
VF_G_verify
/* (2) */
__CPROVER_ensures((vf_bn_val(*sign_r) >= VF_N(curve) || vf_bn_val(*sign_s) >= VF_N(curve)) ==> __CPROVER_return_value != 0)
__CPROVER_ensures(vf_bn_val(*sign_r) == 0 ==> __CPROVER_return_value != 0)
__CPROVER_ensures(vf_bn_val(*sign_s) == 0 ==> __CPROVER_return_value != 0)
__CPROVER_ensures(pub_key->infinity != 0 ==> __CPROVER_return_value != 0)
__CPROVER_ensures(!VF_ALGO_KNOWN(curve) ==> __CPROVER_return_value != 0)
#ifdef VF_ENFORCE_ecdsa_verify
__CPROVER_ensures((!VF_ALGO_KNOWN(curve) && !vf_ec_fail) ==> __CPROVER_return_value == EINVAL)
/* (5) */
__CPROVER_ensures(__CPROVER_return_value == 0 ==> (vf_n_twin == 1 && vf_n_mult_bp == 0 && vf_n_unkpt == 0 &&
    vf_st_twin == 0 && vf_twin_curve == VF_ID(curve) && vf_twin_b == VF_ID(pub_key)))
__CPROVER_ensures(__CPROVER_return_value == 0 ==> (vf_n_mod >= 1 && vf_mod_last_m == VF_NID(curve) &&
    VF_ASSIGNED_FROM(vf_mod_last_bn, vf_twin_res + offsetof(ec_point_t, x)) && vf_mod_val == vf_bn_val(*sign_r)))
/* (6) */
__CPROVER_ensures(__CPROVER_return_value == 0 ==> VF_COPY_OF_MOD(VF_ID(hash), VF_NID(curve)))
#endif
;

/*
 * ecdsa_verify_priv_key(curve, e, r, s, d): as ecdsa_verify, with R = (u1 + u2 d) G computed by ONE
 * base-point multiplication; d >= n  ==>  EINVAL.
 */
#ifdef VF_ENFORCE_ecdsa_verify_priv_key
#define VF_G_verify_pk	VF_EC_ENFORCED_GHOST
#else
#define VF_G_verify_pk									\
	__CPROVER_assigns(VF_EC_STATUS_ASSIGNS, vf_g.core)				\
	__CPROVER_ensures(VF_EC_STATUS_ENSURES)						\
	__CPROVER_ensures(vf_st_core == __CPROVER_return_value && vf_n_core == __CPROVER_old(vf_n_core) + 1u &&	\
	    vf_core_a0 == VF_ID(curve) && vf_core_a1 == VF_ID(hash) && vf_core_a2 == VF_ID(sign_r) &&	\
	    vf_core_a3 == VF_ID(sign_s) && vf_core_a4 == VF_ID(priv_key) && vf_core_flag == 1)
#endif
static inline int
ecdsa_verify_priv_key(ec_curve_p curve, bn_p hash, bn_p sign_r, bn_p sign_s, bn_p priv_key)
__CPROVER_requires(VF_CURVE_IN(curve))
__CPROVER_requires(VF_ECBN_R(hash) && VF_ECBN_R(sign_r) && VF_ECBN_R(sign_s) && VF_ECBN_R(priv_key))
VF_G_verify_pk
__CPROVER_ensures((vf_bn_val(*sign_r) >= VF_N(curve) || vf_bn_val(*sign_s) >= VF_N(curve)) ==> __CPROVER_return_value != 0)
__CPROVER_ensures(vf_bn_val(*sign_r) == 0 ==> __CPROVER_return_value != 0)
__CPROVER_ensures(vf_bn_val(*sign_s) == 0 ==> __CPROVER_return_value != 0)
__CPROVER_ensures(vf_bn_val(*priv_key) >= VF_N(curve) ==> __CPROVER_return_value != 0)
__CPROVER_ensures(!VF_ALGO_KNOWN(curve) ==> __CPROVER_return_value != 0)
#ifdef VF_ENFORCE_ecdsa_verify_priv_key
__CPROVER_ensures((vf_bn_val(*sign_r) >= VF_N(curve) || vf_bn_val(*sign_s) >= VF_N(curve) ||
    vf_bn_val(*priv_key) >= VF_N(curve)) ==> __CPROVER_return_value == EINVAL)
__CPROVER_ensures((!VF_ALGO_KNOWN(curve) && !vf_ec_fail) ==> __CPROVER_return_value == EINVAL)
__CPROVER_ensures(__CPROVER_return_value == 0 ==> (vf_n_mult_bp == 1 && vf_n_twin == 0 && vf_n_unkpt == 0 &&
    vf_st_mult_bp == 0 && vf_mult_bp_curve == VF_ID(curve)))
__CPROVER_ensures(__CPROVER_return_value == 0 ==> (vf_n_mod >= 1 && vf_mod_last_m == VF_NID(curve) &&
    VF_ASSIGNED_FROM(vf_mod_last_bn, vf_mult_bp_res + offsetof(ec_point_t, x)) && vf_mod_val == vf_bn_val(*sign_r)))
__CPROVER_ensures(__CPROVER_return_value == 0 ==> VF_COPY_OF_MOD(VF_ID(hash), VF_NID(curve)))
#endif
;

/* ================================================================== C03: sign ==== */
/*
 * ecdsa_sign(curve, e, d, k, r, s): sign_r may be hash, sign_s may be rnd (documented aliasing);
 * harness/C03/sign.c covers the distinct and the aliased call.
 *  (1) success ==> every internal computation returned 0
 *  (2) d >= n ==> EINVAL; unknown algorithm ==> failure (EINVAL unless something failed before)
 *  out success ==> r, s well-formed, 1 <= r < n, 1 <= s < n
 *  (5) success ==> exactly one base-point multiplication over the caller's curve, its scalar is
 *      the object that went through bn_mod_reduce modulo n (the nonce, k in [1, n-1]) and that is
 *      the only use of bn_mod_reduce
 *  (6) success ==> a copy of the hash was reduced by bn_mod modulo n
 *  frame: writes sign_r, sign_s (digits, num[]) and ghost state only
 */
/* x is the object into which the hash was copied (some logged bn_assign), reduced by bn_mod modulo n */
#define VF_HASHCOPY_J(j, x)	VF_SL(vf_n_assign, j, vf_assign_src[j] == VF_ID(hash) && vf_assign_dst[j] == (x) &&	\
	VF_MOD_BY((x), VF_NID(curve)) && !VF_REDUCED(x))
#define VF_IS_HASHCOPY(x)	(VF_HASHCOPY_J(0, x) || VF_HASHCOPY_J(1, x) || VF_HASHCOPY_J(2, x) || VF_HASHCOPY_J(3, x))
/* the m-th bn_mod_mult is  sign_s := sign_s * x */
#define VF_S_TIMES(m, x)	VF_SL(vf_n_mmul, m, vf_mmul_bn[m] == VF_ID(sign_s) && vf_mmul_nn[m] == (x))
#define VF_S_TIMES_ANY(x)	(VF_S_TIMES(0, x) || VF_S_TIMES(1, x) || VF_S_TIMES(2, x) || VF_S_TIMES(3, x))
#define VF_S_TIMES_HASHCOPY(m)	VF_SL(vf_n_mmul, m, vf_mmul_bn[m] == VF_ID(sign_s) && VF_IS_HASHCOPY(vf_mmul_nn[m]))
#define VF_S_MULTIPLIED		(VF_SL(vf_n_mmul, 0, vf_mmul_bn[0] == VF_ID(sign_s)) || VF_SL(vf_n_mmul, 1, vf_mmul_bn[1] == VF_ID(sign_s)) ||	\
	VF_SL(vf_n_mmul, 2, vf_mmul_bn[2] == VF_ID(sign_s)) || VF_SL(vf_n_mmul, 3, vf_mmul_bn[3] == VF_ID(sign_s)))
/* the k-th zero test is on the hash copy, and its answer decides the multiplication */
#define VF_GOST_E_TEST(k)	VF_SL(vf_n_iz, k, VF_IS_HASHCOPY(vf_iz_bn[k]) &&		\
	((vf_iz_r[k] != 0) ? !VF_S_MULTIPLIED : VF_S_TIMES_ANY(vf_iz_bn[k])))
#ifdef VF_ENFORCE_ecdsa_sign
#define VF_G_sign	VF_EC_ENFORCED_GHOST
#else
#define VF_G_sign									\
	__CPROVER_assigns(VF_EC_STATUS_ASSIGNS, vf_g.core)				\
	__CPROVER_ensures(VF_EC_STATUS_ENSURES)						\
	__CPROVER_ensures(vf_st_core == __CPROVER_return_value && vf_n_core == __CPROVER_old(vf_n_core) + 1u &&	\
	    vf_core_a0 == VF_ID(curve) && vf_core_a1 == VF_ID(hash) && vf_core_a2 == VF_ID(priv_key) &&	\
	    vf_core_a3 == VF_ID(rnd) && vf_core_a4 == VF_ID(sign_r) && vf_core_flag == (long)VF_ID(sign_s))
#endif
static inline int
ecdsa_sign(ec_curve_p curve, bn_p hash, bn_p priv_key, bn_p rnd, bn_p sign_r, bn_p sign_s)
__CPROVER_requires(VF_CURVE_IN(curve))
__CPROVER_requires(VF_ECBN_R(hash) && VF_ECBN_R(priv_key) && VF_ECBN_R(rnd))
__CPROVER_requires(VF_ECBN_OUT(sign_r) && VF_ECBN_OUT(sign_s) && sign_r != sign_s)
__CPROVER_requires(sign_r != priv_key && sign_s != priv_key && sign_r != rnd && sign_s != hash)
__CPROVER_assigns(VF_BN_FRAME(sign_r), VF_BN_FRAME(sign_s))
VF_G_sign
__CPROVER_ensures(vf_bn_val(__CPROVER_old(*priv_key)) >= VF_N(curve) ==> __CPROVER_return_value != 0)
__CPROVER_ensures(!VF_ALGO_KNOWN(curve) ==> __CPROVER_return_value != 0)
__CPROVER_ensures(__CPROVER_return_value == 0 ==> (vf_bn_wf(*sign_r) && vf_bn_wf(*sign_s)))
__CPROVER_ensures(__CPROVER_return_value == 0 ==> (vf_bn_val(*sign_r) != 0 && vf_bn_val(*sign_r) < VF_N(curve)))
__CPROVER_ensures(__CPROVER_return_value == 0 ==> (vf_bn_val(*sign_s) != 0 && vf_bn_val(*sign_s) < VF_N(curve)))
#ifdef VF_ENFORCE_ecdsa_sign
__CPROVER_ensures(vf_bn_val(__CPROVER_old(*priv_key)) >= VF_N(curve) ==> __CPROVER_return_value == EINVAL)
__CPROVER_ensures((!VF_ALGO_KNOWN(curve) && !vf_ec_fail) ==> (__CPROVER_return_value == EINVAL || __CPROVER_return_value == -1))
__CPROVER_ensures(__CPROVER_return_value == 0 ==> (vf_n_mult_bp == 1 && vf_n_twin == 0 && vf_n_unkpt == 0 &&
    vf_st_mult_bp == 0 && vf_mult_bp_curve == VF_ID(curve)))
__CPROVER_ensures(__CPROVER_return_value == 0 ==> (vf_n_reduce == 1 && vf_reduce_bn[0] == vf_mult_bp_d &&
    vf_reduce_m[0] == VF_NID(curve) && VF_ASSIGNED_FROM(vf_mult_bp_d, VF_ID(rnd))))
__CPROVER_ensures(__CPROVER_return_value == 0 ==> VF_COPY_OF_MOD(VF_ID(hash), VF_NID(curve)))
/* (7) e is used through the reduced COPY, never through the caller's hash object (which the in-place
 *     call sign_r == hash has already overwritten with r):
 *     ECDSA: s is multiplied by the copy (which by then holds e + d r);
 *     GOST:  the e == 0 test (bn_is_zero, replaced here by its logging contract) is applied to the
 *            copy; e != 0 => s is multiplied by the copy, e == 0 => s is not multiplied at all (e := 1) */
__CPROVER_ensures((__CPROVER_return_value == 0 && curve->algo == EC_CURVE_ALGO_ECDSA) ==>
    (VF_S_TIMES_HASHCOPY(0) || VF_S_TIMES_HASHCOPY(1) || VF_S_TIMES_HASHCOPY(2) || VF_S_TIMES_HASHCOPY(3)))
__CPROVER_ensures((__CPROVER_return_value == 0 && curve->algo == EC_CURVE_ALGO_GOST20XX) ==>
    (VF_GOST_E_TEST(0) || VF_GOST_E_TEST(1) || VF_GOST_E_TEST(2) || VF_GOST_E_TEST(3)))
#endif
;

/* ================================================================== C03: byte-string entry points ==== */
/* spans: NULL or an exact-size object (is_fresh: separate from everything else) */
#define VF_RSPAN(p, n)		((p) == NULL || __CPROVER_is_fresh((p), (n)))
#define VF_SZ_OUT(p)		((p) == NULL || __CPROVER_is_fresh((p), sizeof(size_t)))
#define VF_IMPORTED(k, b, sz)	VF_SL(vf_n_imp, k, vf_imp_buf[k] == VF_ID(b) && vf_imp_size[k] == (sz))
#define VF_WAS_IMPORTED(b, sz)	(VF_IMPORTED(0, b, sz) || VF_IMPORTED(1, b, sz) || VF_IMPORTED(2, b, sz) || VF_IMPORTED(3, b, sz))
#define VF_EXPORTED(k, b, sz)	VF_SL(vf_n_exp, k, vf_exp_buf[k] == VF_ID(b) && vf_exp_size[k] == (sz))
#define VF_WAS_EXPORTED(b, sz)	(VF_EXPORTED(0, b, sz) || VF_EXPORTED(1, b, sz) || VF_EXPORTED(2, b, sz) || VF_EXPORTED(3, b, sz))
/* the number object into which buffer b was imported */
#define VF_IMP_BN_OF(k, b, x)	VF_SL(vf_n_imp, k, vf_imp_buf[k] == VF_ID(b) && vf_imp_bn[k] == (x))
#define VF_BN_IMPORTED_FROM(x, b) (VF_IMP_BN_OF(0, b, x) || VF_IMP_BN_OF(1, b, x) || VF_IMP_BN_OF(2, b, x) || VF_IMP_BN_OF(3, b, x))

/*
 * ecdsa_verify_be / _le.  (3) NULL / zero-size arguments and sign_size > bytes ==> EINVAL;
 * accept ==> the hash was imported from its FRONT, MIN(hash_size, bytes) bytes; r and s from
 * exactly sign_size bytes; the public key went through ecdsa_pub_key_import_*; the generic
 * verifier was called once on exactly these imported objects and returned 0.
 * (4) nothing but ghost state is written.
 */
#define VF_VERIFY_BYTES_CONTRACT(fn)							\
static inline int fn(ec_curve_p curve, uint8_t *hash, size_t hash_size,			\
    uint8_t *sign_r, uint8_t *sign_s, size_t sign_size,					\
    uint8_t *pub_key_x, uint8_t *pub_key_y, size_t pub_key_size)			\
__CPROVER_requires(VF_CURVE_IN(curve))							\
__CPROVER_requires(VF_RSPAN(hash, hash_size) && VF_RSPAN(sign_r, sign_size) && VF_RSPAN(sign_s, sign_size))	\
__CPROVER_requires(VF_RSPAN(pub_key_x, pub_key_size) && VF_RSPAN(pub_key_y, VF_EC_BYTES(curve)))	\
VF_EC_ENFORCED_GHOST									\
__CPROVER_ensures((hash == NULL || hash_size == 0 || sign_r == NULL || sign_s == NULL || sign_size == 0 ||	\
    pub_key_x == NULL || pub_key_size == 0 || sign_size > VF_EC_BYTES(curve)) ==> __CPROVER_return_value == EINVAL)	\
__CPROVER_ensures(__CPROVER_return_value == 0 ==> (						\
    VF_WAS_IMPORTED(hash, MIN(hash_size, VF_EC_BYTES(curve))) &&				\
    VF_WAS_IMPORTED(sign_r, sign_size) && VF_WAS_IMPORTED(sign_s, sign_size) && vf_n_imp == 3))	\
__CPROVER_ensures(__CPROVER_return_value == 0 ==> (vf_n_core == 1 && vf_st_core == 0 && vf_core_flag == 0 &&	\
    vf_core_a0 == VF_ID(curve) && VF_BN_IMPORTED_FROM(vf_core_a1, hash) &&			\
    VF_BN_IMPORTED_FROM(vf_core_a2, sign_r) && VF_BN_IMPORTED_FROM(vf_core_a3, sign_s) &&	\
    vf_n_pk_import == 1 && vf_st_pk_import == 0 && vf_g.pk_import.a1 == VF_ID(pub_key_x) &&	\
    vf_g.pk_import.a2 == VF_ID(pub_key_y) && vf_g.pk_import.a3 == pub_key_size &&		\
    vf_g.pk_import.a4 == vf_core_a4))								\
;
VF_VERIFY_BYTES_CONTRACT(ecdsa_verify_be)
VF_VERIFY_BYTES_CONTRACT(ecdsa_verify_le)

#define VF_VERIFY_PK_BYTES_CONTRACT(fn)							\
static inline int fn(ec_curve_p curve, uint8_t *hash, size_t hash_size,			\
    uint8_t *sign_r, uint8_t *sign_s, size_t sign_size,					\
    uint8_t *priv_key, size_t priv_key_size)						\
__CPROVER_requires(VF_CURVE_IN(curve))							\
__CPROVER_requires(VF_RSPAN(hash, hash_size) && VF_RSPAN(sign_r, sign_size) && VF_RSPAN(sign_s, sign_size))	\
__CPROVER_requires(VF_RSPAN(priv_key, priv_key_size))					\
VF_EC_ENFORCED_GHOST									\
__CPROVER_ensures((hash == NULL || hash_size == 0 || sign_r == NULL || sign_s == NULL || sign_size == 0 ||	\
    priv_key == NULL || priv_key_size == 0 || sign_size > VF_EC_BYTES(curve)) ==> __CPROVER_return_value == EINVAL)	\
__CPROVER_ensures(__CPROVER_return_value == 0 ==> (						\
    VF_WAS_IMPORTED(hash, MIN(hash_size, VF_EC_BYTES(curve))) &&				\
    VF_WAS_IMPORTED(sign_r, sign_size) && VF_WAS_IMPORTED(sign_s, sign_size) &&			\
    VF_WAS_IMPORTED(priv_key, priv_key_size) && vf_n_imp == 4))					\
__CPROVER_ensures(__CPROVER_return_value == 0 ==> (vf_n_core == 1 && vf_st_core == 0 && vf_core_flag == 1 &&	\
    vf_core_a0 == VF_ID(curve) && VF_BN_IMPORTED_FROM(vf_core_a1, hash) &&			\
    VF_BN_IMPORTED_FROM(vf_core_a2, sign_r) && VF_BN_IMPORTED_FROM(vf_core_a3, sign_s) &&	\
    VF_BN_IMPORTED_FROM(vf_core_a4, priv_key)))							\
;
VF_VERIFY_PK_BYTES_CONTRACT(ecdsa_verify_priv_key_be)
VF_VERIFY_PK_BYTES_CONTRACT(ecdsa_verify_priv_key_le)

/*
 * ecdsa_sign_be / _le.  (3) NULL / zero-size arguments, priv_key_size > bytes, rnd_size < bytes
 * ==> EINVAL (the nonce is read as `bytes` bytes: a shorter buffer must be refused, not over-read);
 * success ==> hash imported from its front MIN(hash_size, bytes) bytes, nonce exactly bytes, key
 * exactly priv_key_size; r and s written as exactly `bytes` bytes each; *sign_size == bytes.
 * Frame: sign_r[0..bytes), sign_s[0..bytes), *sign_size, ghost state.
 */
#define VF_SIGN_BYTES_CONTRACT(fn)							\
static inline int fn(ec_curve_p curve, uint8_t *hash, size_t hash_size,			\
    uint8_t *priv_key, size_t priv_key_size, uint8_t *rnd, size_t rnd_size,		\
    uint8_t *sign_r, uint8_t *sign_s, size_t *sign_size)				\
__CPROVER_requires(VF_CURVE_IN(curve))							\
__CPROVER_requires(VF_RSPAN(hash, hash_size) && VF_RSPAN(priv_key, priv_key_size) && VF_RSPAN(rnd, rnd_size))	\
__CPROVER_requires(__CPROVER_is_fresh(sign_r, VF_EC_BYTES(curve)) && __CPROVER_is_fresh(sign_s, VF_EC_BYTES(curve)))	\
__CPROVER_requires(VF_SZ_OUT(sign_size))						\
__CPROVER_assigns(__CPROVER_object_upto(sign_r, VF_EC_BYTES(curve)), __CPROVER_object_upto(sign_s, VF_EC_BYTES(curve)))	\
__CPROVER_assigns(sign_size != NULL: *sign_size)					\
VF_EC_ENFORCED_GHOST									\
__CPROVER_ensures((hash == NULL || hash_size == 0 || priv_key == NULL || priv_key_size == 0 ||	\
    rnd == NULL || rnd_size == 0 || priv_key_size > VF_EC_BYTES(curve) ||			\
    rnd_size < VF_EC_BYTES(curve)) ==> __CPROVER_return_value == EINVAL)			\
__CPROVER_ensures(__CPROVER_return_value == 0 ==> (						\
    VF_WAS_IMPORTED(hash, MIN(hash_size, VF_EC_BYTES(curve))) &&				\
    VF_WAS_IMPORTED(rnd, VF_EC_BYTES(curve)) && VF_WAS_IMPORTED(priv_key, priv_key_size) && vf_n_imp == 3))	\
__CPROVER_ensures(__CPROVER_return_value == 0 ==> (vf_n_core == 1 && vf_st_core == 0 &&	\
    vf_core_a0 == VF_ID(curve) && VF_BN_IMPORTED_FROM(vf_core_a1, hash) &&			\
    VF_BN_IMPORTED_FROM(vf_core_a2, priv_key) && VF_BN_IMPORTED_FROM(vf_core_a3, rnd)))	\
__CPROVER_ensures(__CPROVER_return_value == 0 ==> (vf_n_exp == 2 &&				\
    vf_exp_buf[0] == VF_ID(sign_r) && vf_exp_size[0] == VF_EC_BYTES(curve) && vf_exp_bn[0] == vf_core_a4 &&	\
    vf_exp_buf[1] == VF_ID(sign_s) && vf_exp_size[1] == VF_EC_BYTES(curve) && vf_exp_bn[1] == (unsigned long)vf_core_flag))	\
__CPROVER_ensures((__CPROVER_return_value == 0 && sign_size != NULL) ==> *sign_size == VF_EC_BYTES(curve))	\
;
VF_SIGN_BYTES_CONTRACT(ecdsa_sign_be)
VF_SIGN_BYTES_CONTRACT(ecdsa_sign_le)

/* ================================================================== C09: key encoding ==== */
/* byte spans of a function that is enforced (is_fresh allocates) or replaced (r_ok / w_ok are
 * asserted at the call site) */
#define VF_SPAN_E(p, n)		((p) == NULL || __CPROVER_is_fresh((p), (n)))
#define VF_RSPAN_C(p, n)	((p) == NULL || __CPROVER_r_ok((p), (n)))
#define VF_WSPAN_C(p, n)	((p) == NULL || __CPROVER_w_ok((p), (n)))
/* an initialised point object (ec_point_init: capacities set, not at infinity) */
#define VF_POINT_INIT(p)	(VF_EC_POINT_OK(p) && VF_BN_CNT_OK(&(p)->x) && VF_BN_CNT_OK(&(p)->y) &&	\
	(p)->x.digits <= (p)->x.count && (p)->y.digits <= (p)->y.count)

/*
 * ecdsa_pub_key_import_be / _le: SEC 1 section 2.3.4 decision table plus the library's raw forms,
 * bytes = ceil(m / 8):
 *    size 1            00                -> infinity            (other byte: EINVAL)
 *    size bytes        X , Y separate    (pub_key_y == NULL: EINVAL)
 *    size 1+bytes      02|03 X           -> y restored with parity (prefix & 1)   (other prefix: -1)
 *    size 1+2 bytes    04|06|07 X Y                                              (other prefix: -1)
 *    size 2 bytes      X Y raw
 *    anything else     -1;       NULL curve / pub_key_x / point or size 0: EINVAL
 * Reads exactly pub_key_x[0 .. pub_key_size) (and pub_key_y[0 .. bytes) only in the separate form):
 * every bn_import is logged with buffer and length, and the spans are exact-size objects.
 * Writes only *point.  On every path that returns 0 with a finite point the validation was invoked
 * on that point and returned 0: ec_point_restore_y_by_x (compressed form; it validates itself, see
 * its own contract) or ec_point_check_as_pub_key - unless compiled with EC_DISABLE_PUB_KEY_CHK.
 * Precondition: the point comes from ec_point_init (capacities set, infinity == 0): the finite
 * forms do not clear the flag.
 */
#define VF_PK_KNOWN_SIZE(sz, b)	((sz) == 1 || (sz) == (b) || (sz) == 1 + (b) || (sz) == 1 + 2 * (b) || (sz) == 2 * (b))
#ifdef EC_DISABLE_PUB_KEY_CHK
#define VF_PK_VALIDATED(point, curve)	1
#else
#define VF_PK_VALIDATED(point, curve)	(vf_n_chk_pub == 1 && vf_st_chk_pub == 0 &&	\
	vf_chk_pub_point == VF_ID(point) && vf_chk_pub_curve == VF_ID(curve))
#endif
#define VF_PK_IMPORT_CONTRACT(fn, SPAN, GHOST)						\
static inline int fn(ec_curve_p curve, uint8_t *pub_key_x, uint8_t *pub_key_y,		\
    size_t pub_key_size, ec_point_p point)						\
__CPROVER_requires(VF_CURVE_IN(curve) && VF_POINT_INIT(point) && point->infinity == 0)	\
__CPROVER_requires(SPAN(pub_key_x, pub_key_size) && SPAN(pub_key_y, VF_EC_BYTES(curve)))	\
__CPROVER_assigns(pub_key_x != NULL && pub_key_size == 1: point->infinity)		\
__CPROVER_assigns(pub_key_x != NULL && pub_key_size > 1: VF_BN_FRAME(&point->x), VF_BN_FRAME(&point->y))	\
GHOST											\
__CPROVER_ensures((pub_key_x == NULL || pub_key_size == 0) ==> __CPROVER_return_value == EINVAL)	\
__CPROVER_ensures((pub_key_x != NULL && pub_key_size == 1) ==>				\
    (__CPROVER_return_value == ((pub_key_x[0] == 0) ? 0 : EINVAL) &&			\
     (__CPROVER_return_value != 0 || point->infinity == 1)))				\
__CPROVER_ensures((pub_key_x != NULL && pub_key_size != 0 && !VF_PK_KNOWN_SIZE(pub_key_size, VF_EC_BYTES(curve))) ==>	\
    __CPROVER_return_value == -1)							\
__CPROVER_ensures((pub_key_x != NULL && pub_key_size != 1 && pub_key_size == VF_EC_BYTES(curve) && pub_key_y == NULL) ==>	\
    __CPROVER_return_value == EINVAL)							\
__CPROVER_ensures((pub_key_x != NULL && pub_key_size != 1 && pub_key_size != VF_EC_BYTES(curve) &&	\
    pub_key_size == 1 + VF_EC_BYTES(curve) && pub_key_x[0] != 2 && pub_key_x[0] != 3) ==> __CPROVER_return_value == -1)	\
__CPROVER_ensures((pub_key_x != NULL && pub_key_size != 1 && pub_key_size != VF_EC_BYTES(curve) &&	\
    pub_key_size != 1 + VF_EC_BYTES(curve) && pub_key_size == 1 + 2 * VF_EC_BYTES(curve) &&	\
    pub_key_x[0] != 4 && pub_key_x[0] != 6 && pub_key_x[0] != 7) ==> __CPROVER_return_value == -1)	\
__CPROVER_ensures((__CPROVER_return_value == 0 && pub_key_size != 1) ==>		\
    (point->infinity == 0 && VF_EC_POINT_WF(*point)))
/* clauses that speak about the function's own callees: only when it is enforced */
#define VF_PK_IMPORT_ENFORCED_CLAUSES							\
__CPROVER_ensures((__CPROVER_return_value == 0 && pub_key_size != 1 && pub_key_size == VF_EC_BYTES(curve)) ==>	\
    (vf_n_imp == 2 && VF_IMPORTED(0, pub_key_x, pub_key_size) && vf_imp_bn[0] == VF_ID(&point->x) &&	\
     VF_IMPORTED(1, pub_key_y, pub_key_size) && vf_imp_bn[1] == VF_ID(&point->y) &&	\
     vf_n_restore_y == 0 && VF_PK_VALIDATED(point, curve)))				\
__CPROVER_ensures((__CPROVER_return_value == 0 && pub_key_size != 1 && pub_key_size != VF_EC_BYTES(curve) &&	\
    pub_key_size == 1 + VF_EC_BYTES(curve)) ==>						\
    (vf_n_imp == 1 && VF_IMPORTED(0, pub_key_x + 1, VF_EC_BYTES(curve)) && vf_imp_bn[0] == VF_ID(&point->x) &&	\
     vf_n_restore_y == 1 && vf_st_restore_y == 0 && vf_restore_y_point == VF_ID(point) &&	\
     vf_restore_y_odd == (pub_key_x[0] & 1)))						\
__CPROVER_ensures((__CPROVER_return_value == 0 && pub_key_size != 1 && pub_key_size != VF_EC_BYTES(curve) &&	\
    pub_key_size != 1 + VF_EC_BYTES(curve) && pub_key_size == 1 + 2 * VF_EC_BYTES(curve)) ==>	\
    (vf_n_imp == 2 && VF_IMPORTED(0, pub_key_x + 1, VF_EC_BYTES(curve)) && vf_imp_bn[0] == VF_ID(&point->x) &&	\
     VF_IMPORTED(1, pub_key_x + 1 + VF_EC_BYTES(curve), VF_EC_BYTES(curve)) && vf_imp_bn[1] == VF_ID(&point->y) &&	\
     vf_n_restore_y == 0 && VF_PK_VALIDATED(point, curve)))				\
__CPROVER_ensures((__CPROVER_return_value == 0 && pub_key_size != 1 && pub_key_size != VF_EC_BYTES(curve) &&	\
    pub_key_size != 1 + VF_EC_BYTES(curve) && pub_key_size != 1 + 2 * VF_EC_BYTES(curve)) ==>	\
    (vf_n_imp == 2 && VF_IMPORTED(0, pub_key_x, VF_EC_BYTES(curve)) && vf_imp_bn[0] == VF_ID(&point->x) &&	\
     VF_IMPORTED(1, pub_key_x + VF_EC_BYTES(curve), VF_EC_BYTES(curve)) && vf_imp_bn[1] == VF_ID(&point->y) &&	\
     vf_n_restore_y == 0 && VF_PK_VALIDATED(point, curve)))				\
__CPROVER_ensures((__CPROVER_return_value == 0 && pub_key_size == 1) ==> (vf_n_imp == 0 && vf_ec_calls == 0))

#define VF_G_pk_import_callee								\
	__CPROVER_assigns(VF_EC_STATUS_ASSIGNS, vf_g.pk_import)				\
	__CPROVER_ensures(VF_EC_STATUS_ENSURES)						\
	__CPROVER_ensures(vf_st_pk_import == __CPROVER_return_value && vf_n_pk_import == __CPROVER_old(vf_n_pk_import) + 1u &&	\
	    vf_g.pk_import.a0 == VF_ID(curve) && vf_g.pk_import.a1 == VF_ID(pub_key_x) &&	\
	    vf_g.pk_import.a2 == VF_ID(pub_key_y) && vf_g.pk_import.a3 == pub_key_size &&	\
	    vf_g.pk_import.a4 == VF_ID(point) && vf_g.pk_import.flag == 0)

#ifdef VF_ENFORCE_ecdsa_pub_key_import_be
VF_PK_IMPORT_CONTRACT(ecdsa_pub_key_import_be, VF_SPAN_E, VF_EC_ENFORCED_GHOST)
VF_PK_IMPORT_ENFORCED_CLAUSES
;
#else
VF_PK_IMPORT_CONTRACT(ecdsa_pub_key_import_be, VF_RSPAN_C, VF_G_pk_import_callee)
;
#endif
#ifdef VF_ENFORCE_ecdsa_pub_key_import_le
VF_PK_IMPORT_CONTRACT(ecdsa_pub_key_import_le, VF_SPAN_E, VF_EC_ENFORCED_GHOST)
VF_PK_IMPORT_ENFORCED_CLAUSES
;
#else
VF_PK_IMPORT_CONTRACT(ecdsa_pub_key_import_le, VF_RSPAN_C, VF_G_pk_import_callee)
;
#endif

/*
 * ecdsa_pub_key_export_be / _le (SEC 1 section 2.3.3 plus the separate-coordinate form):
 *    infinity                       00                          *pub_key_size = 1
 *    compress == 0, pub_key_y       X -> pub_key_x, Y -> pub_key_y   (bytes each)    = bytes
 *    compress == 0, no pub_key_y    04 X Y                                           = 1 + 2 bytes
 *    compress != 0                  02|03 X (03 iff y odd)                          = 1 + bytes
 * Coordinates are fixed-width: every bn_export is logged with buffer, length `bytes` and source
 * number; a coordinate that does not fit (EOVERFLOW from bn_export) is propagated.
 * The caller provides pub_key_x large enough for the selected form and pub_key_y (if any) of
 * `bytes` bytes: the contract's spans have exactly these sizes.
 */
#define VF_PK_EXPORT_XSIZE(curve, compress, point, pub_key_y)				\
	(((point)->infinity != 0) ? (size_t)1 : ((compress) != 0) ? 1 + VF_EC_BYTES(curve) :	\
	 ((pub_key_y) != NULL) ? VF_EC_BYTES(curve) : 1 + 2 * VF_EC_BYTES(curve))
#define VF_PK_EXPORT_CONTRACT(fn, WSPAN, SZSPAN, GHOST)					\
static inline int fn(ec_curve_p curve, int compress, ec_point_p point,			\
    uint8_t *pub_key_x, uint8_t *pub_key_y, size_t *pub_key_size)			\
__CPROVER_requires(VF_CURVE_IN(curve))							\
__CPROVER_requires(__CPROVER_r_ok(point, sizeof(ec_point_t)) && VF_EC_POINT_RES(*point))	\
__CPROVER_requires(WSPAN(pub_key_x, VF_PK_EXPORT_XSIZE(curve, compress, point, pub_key_y)))	\
__CPROVER_requires(WSPAN(pub_key_y, VF_EC_BYTES(curve)) && SZSPAN(pub_key_size))	\
__CPROVER_assigns(pub_key_x != NULL && pub_key_size != NULL && point->infinity != 0:	\
    __CPROVER_object_upto(pub_key_x, 1))						\
__CPROVER_assigns(pub_key_x != NULL && pub_key_size != NULL && point->infinity == 0 && compress != 0:	\
    __CPROVER_object_upto(pub_key_x, 1 + VF_EC_BYTES(curve)))				\
__CPROVER_assigns(pub_key_x != NULL && pub_key_size != NULL && point->infinity == 0 && compress == 0 && pub_key_y != NULL:	\
    __CPROVER_object_upto(pub_key_x, VF_EC_BYTES(curve)))				\
__CPROVER_assigns(pub_key_x != NULL && pub_key_size != NULL && point->infinity == 0 && compress == 0 && pub_key_y == NULL:	\
    __CPROVER_object_upto(pub_key_x, 1 + 2 * VF_EC_BYTES(curve)))			\
__CPROVER_assigns(pub_key_x != NULL && pub_key_size != NULL && pub_key_y != NULL && compress == 0 && point->infinity == 0:	\
    __CPROVER_object_upto(pub_key_y, VF_EC_BYTES(curve)))				\
__CPROVER_assigns(pub_key_x != NULL && pub_key_size != NULL: *pub_key_size)		\
GHOST											\
__CPROVER_ensures((pub_key_x == NULL || pub_key_size == NULL) ==> __CPROVER_return_value == EINVAL)	\
__CPROVER_ensures((pub_key_x != NULL && pub_key_size != NULL && point->infinity != 0) ==>	\
    (__CPROVER_return_value == 0 && pub_key_x[0] == 0 && *pub_key_size == 1))		\
__CPROVER_ensures((__CPROVER_return_value == 0 && point->infinity == 0) ==>		\
    *pub_key_size == VF_PK_EXPORT_XSIZE(curve, compress, point, pub_key_y))		\
__CPROVER_ensures((__CPROVER_return_value == 0 && point->infinity == 0 && compress != 0) ==>	\
    pub_key_x[0] == (((point->y.digits != 0) && (point->y.num[0] & 1)) ? 3 : 2))	\
__CPROVER_ensures((__CPROVER_return_value == 0 && point->infinity == 0 && compress == 0 && pub_key_y == NULL) ==>	\
    pub_key_x[0] == 4)
#define VF_PK_EXPORT_ENFORCED_CLAUSES							\
__CPROVER_ensures((pub_key_x != NULL && pub_key_size != NULL && point->infinity != 0) ==> vf_n_exp == 0)	\
__CPROVER_ensures((__CPROVER_return_value == 0 && point->infinity == 0 && compress != 0) ==>	\
    (vf_n_exp == 1 && VF_EXPORTED(0, pub_key_x + 1, VF_EC_BYTES(curve)) && vf_exp_bn[0] == VF_ID(&point->x)))	\
__CPROVER_ensures((__CPROVER_return_value == 0 && point->infinity == 0 && compress == 0 && pub_key_y != NULL) ==>	\
    (vf_n_exp == 2 && VF_EXPORTED(0, pub_key_x, VF_EC_BYTES(curve)) && vf_exp_bn[0] == VF_ID(&point->x) &&	\
     VF_EXPORTED(1, pub_key_y, VF_EC_BYTES(curve)) && vf_exp_bn[1] == VF_ID(&point->y)))	\
__CPROVER_ensures((__CPROVER_return_value == 0 && point->infinity == 0 && compress == 0 && pub_key_y == NULL) ==>	\
    (vf_n_exp == 2 && VF_EXPORTED(0, pub_key_x + 1, VF_EC_BYTES(curve)) && vf_exp_bn[0] == VF_ID(&point->x) &&	\
     VF_EXPORTED(1, pub_key_x + 1 + VF_EC_BYTES(curve), VF_EC_BYTES(curve)) && vf_exp_bn[1] == VF_ID(&point->y)))

#define VF_G_pk_export_callee								\
	__CPROVER_assigns(VF_EC_STATUS_ASSIGNS, vf_g.pk_export)				\
	__CPROVER_ensures(VF_EC_STATUS_ENSURES)						\
	__CPROVER_ensures(vf_st_pk_export == __CPROVER_return_value && vf_n_pk_export == __CPROVER_old(vf_n_pk_export) + 1u &&	\
	    vf_g.pk_export.a0 == VF_ID(curve) && vf_g.pk_export.a1 == VF_ID(pub_key_x) &&	\
	    vf_g.pk_export.a2 == VF_ID(pub_key_y) && vf_g.pk_export.a3 == VF_ID(pub_key_size) &&	\
	    vf_g.pk_export.a4 == VF_ID(point) && vf_g.pk_export.flag == compress)
#define VF_SZ_E(p)	((p) == NULL || __CPROVER_is_fresh((p), sizeof(size_t)))
#define VF_SZ_C(p)	((p) == NULL || __CPROVER_w_ok((p), sizeof(size_t)))

#ifdef VF_ENFORCE_ecdsa_pub_key_export_be
VF_PK_EXPORT_CONTRACT(ecdsa_pub_key_export_be, VF_SPAN_E, VF_SZ_E, VF_EC_ENFORCED_GHOST)
VF_PK_EXPORT_ENFORCED_CLAUSES
;
#else
VF_PK_EXPORT_CONTRACT(ecdsa_pub_key_export_be, VF_WSPAN_C, VF_SZ_C, VF_G_pk_export_callee)
;
#endif
#ifdef VF_ENFORCE_ecdsa_pub_key_export_le
VF_PK_EXPORT_CONTRACT(ecdsa_pub_key_export_le, VF_SPAN_E, VF_SZ_E, VF_EC_ENFORCED_GHOST)
VF_PK_EXPORT_ENFORCED_CLAUSES
;
#else
VF_PK_EXPORT_CONTRACT(ecdsa_pub_key_export_le, VF_WSPAN_C, VF_SZ_C, VF_G_pk_export_callee)
;
#endif

/* ================================================================== C09: key generation ==== */
/*
 * ecdsa_key_gen(curve, d, Q): d := (d mod (n-1)) + 1 if d >= n (bn_mod_reduce, in place), Q := d G,
 * then Q is validated (ec_point_check_as_pub_key is called directly: also with
 * EC_DISABLE_PUB_KEY_CHK).  success ==> no internal computation failed; d well-formed and < n; one
 * base-point multiplication with scalar d over the caller's curve into Q; Q validated once, status 0.
 */
#ifdef VF_ENFORCE_ecdsa_key_gen
#define VF_G_key_gen	VF_EC_ENFORCED_GHOST
#else
#define VF_G_key_gen									\
	__CPROVER_assigns(VF_EC_STATUS_ASSIGNS, vf_g.core)				\
	__CPROVER_ensures(VF_EC_STATUS_ENSURES)						\
	__CPROVER_ensures(vf_st_core == __CPROVER_return_value && vf_n_core == __CPROVER_old(vf_n_core) + 1u &&	\
	    vf_core_a0 == VF_ID(curve) && vf_core_a1 == VF_ID(d) && vf_core_a2 == VF_ID(Q) &&	\
	    vf_core_a3 == 0 && vf_core_a4 == 0 && vf_core_flag == 2)
#endif
static inline int
ecdsa_key_gen(ec_curve_p curve, bn_p d, ec_point_p Q)
__CPROVER_requires(VF_CURVE_IN(curve) && VF_ECBN_RW(d))
__CPROVER_requires(VF_EC_POINT_OK(Q) && VF_EC_POINT_WF(*Q))
__CPROVER_assigns(VF_BN_FRAME(d), VF_EC_POINT_FRAME(Q))
VF_G_key_gen
__CPROVER_ensures(__CPROVER_return_value == 0 ==> (vf_bn_wf(*d) && vf_bn_val(*d) < VF_N(curve) && VF_EC_POINT_WF(*Q)))
#ifdef VF_ENFORCE_ecdsa_key_gen
__CPROVER_ensures(__CPROVER_return_value == 0 ==> (vf_n_reduce == 1 && vf_reduce_bn[0] == VF_ID(d) && vf_reduce_m[0] == VF_NID(curve)))
__CPROVER_ensures(__CPROVER_return_value == 0 ==> (vf_n_mult_bp == 1 && vf_st_mult_bp == 0 && vf_n_twin == 0 && vf_n_unkpt == 0 &&
    vf_mult_bp_d == VF_ID(d) && vf_mult_bp_curve == VF_ID(curve) && vf_mult_bp_res == VF_ID(Q)))
__CPROVER_ensures(__CPROVER_return_value == 0 ==> (vf_n_chk_pub == 1 && vf_st_chk_pub == 0 &&
    vf_chk_pub_point == VF_ID(Q) && vf_chk_pub_curve == VF_ID(curve)))
#endif
;

/*
 * ecdsa_key_gen_be / _le: NULL arguments (pub_key_y included, as coded), rnd_size == 0 or
 * rnd_size < bytes ==> EINVAL.  success ==> exactly `bytes` bytes of rnd were read; the private key is
 * written as exactly `bytes` bytes, *priv_key_size == bytes; the public key produced by ecdsa_key_gen
 * from that number goes through ecdsa_pub_key_export_* with the caller's buffers.
 * Spans: pub_key_x has the size of the selected form (pub_key_y is never NULL here: compressed
 * 1 + bytes, else separate coordinates of `bytes` each).
 */
#define VF_KEY_GEN_BYTES_CONTRACT(fn)							\
static inline int fn(ec_curve_p curve, uint8_t *rnd, size_t rnd_size, int pub_key_compress,	\
    uint8_t *priv_key, size_t *priv_key_size, uint8_t *pub_key_x, uint8_t *pub_key_y, size_t *pub_key_size)	\
__CPROVER_requires(VF_CURVE_IN(curve) && VF_SPAN_E(rnd, rnd_size))			\
__CPROVER_requires(VF_SPAN_E(priv_key, VF_EC_BYTES(curve)) && VF_SZ_E(priv_key_size))	\
__CPROVER_requires(VF_SPAN_E(pub_key_x, (pub_key_compress != 0) ? 1 + VF_EC_BYTES(curve) : VF_EC_BYTES(curve)))	\
__CPROVER_requires(VF_SPAN_E(pub_key_y, VF_EC_BYTES(curve)) && VF_SZ_E(pub_key_size))	\
__CPROVER_assigns(priv_key != NULL: __CPROVER_object_upto(priv_key, VF_EC_BYTES(curve)))	\
__CPROVER_assigns(priv_key_size != NULL: *priv_key_size)				\
__CPROVER_assigns(pub_key_x != NULL && pub_key_compress != 0: __CPROVER_object_upto(pub_key_x, 1 + VF_EC_BYTES(curve)))	\
__CPROVER_assigns(pub_key_x != NULL && pub_key_compress == 0: __CPROVER_object_upto(pub_key_x, VF_EC_BYTES(curve)))	\
__CPROVER_assigns(pub_key_y != NULL: __CPROVER_object_upto(pub_key_y, VF_EC_BYTES(curve)))	\
__CPROVER_assigns(pub_key_size != NULL: *pub_key_size)					\
VF_EC_ENFORCED_GHOST									\
__CPROVER_ensures((rnd == NULL || rnd_size == 0 || priv_key == NULL || pub_key_x == NULL || pub_key_y == NULL ||	\
    pub_key_size == NULL || rnd_size < VF_EC_BYTES(curve)) ==> __CPROVER_return_value == EINVAL)	\
__CPROVER_ensures(__CPROVER_return_value == 0 ==> (vf_n_imp == 1 && VF_IMPORTED(0, rnd, VF_EC_BYTES(curve)) &&	\
    vf_n_core == 1 && vf_st_core == 0 && vf_core_flag == 2 && vf_core_a0 == VF_ID(curve) && vf_core_a1 == vf_imp_bn[0]))	\
__CPROVER_ensures(__CPROVER_return_value == 0 ==> (vf_n_exp == 1 && VF_EXPORTED(0, priv_key, VF_EC_BYTES(curve)) &&	\
    vf_exp_bn[0] == vf_core_a1 && (priv_key_size == NULL || *priv_key_size == VF_EC_BYTES(curve))))	\
__CPROVER_ensures(__CPROVER_return_value == 0 ==> (vf_n_pk_export == 1 && vf_st_pk_export == 0 &&	\
    vf_g.pk_export.a0 == VF_ID(curve) && vf_g.pk_export.a1 == VF_ID(pub_key_x) && vf_g.pk_export.a2 == VF_ID(pub_key_y) &&	\
    vf_g.pk_export.a3 == VF_ID(pub_key_size) && vf_g.pk_export.a4 == vf_core_a2 && vf_g.pk_export.flag == pub_key_compress))	\
;
VF_KEY_GEN_BYTES_CONTRACT(ecdsa_key_gen_be)
VF_KEY_GEN_BYTES_CONTRACT(ecdsa_key_gen_le)

/* ================================================================== C09: Diffie-Hellman ==== */
/*
 * ecdsa_dh(curve, use_cofactor, Q, d, shared): shared may be d (documented).
 *   d >= n ==> EINVAL;  success ==> no internal computation failed; the scalar is a copy of d,
 *   multiplied by the cofactor h modulo n IFF use_cofactor != 0 (exactly one bn_mod_mult_digit
 *   by curve->h then, none otherwise); exactly one unknown-point multiplication, of a copy of Q, by
 *   that scalar, over the caller's curve; its result is finite and shared is a copy of its x.
 */
#ifdef VF_ENFORCE_ecdsa_dh
#define VF_G_dh	VF_EC_ENFORCED_GHOST
#else
#define VF_G_dh										\
	__CPROVER_assigns(VF_EC_STATUS_ASSIGNS, vf_g.core)				\
	__CPROVER_ensures(VF_EC_STATUS_ENSURES)						\
	__CPROVER_ensures(vf_st_core == __CPROVER_return_value && vf_n_core == __CPROVER_old(vf_n_core) + 1u &&	\
	    vf_core_a0 == VF_ID(curve) && vf_core_a1 == VF_ID(pub_key) && vf_core_a2 == VF_ID(priv_key) &&	\
	    vf_core_a3 == VF_ID(shared_key) && vf_core_a4 == (unsigned long)(use_cofactor != 0) && vf_core_flag == 3)
#endif
static inline int
ecdsa_dh(ec_curve_p curve, int use_cofactor, ec_point_p pub_key, bn_p priv_key, bn_p shared_key)
__CPROVER_requires(VF_CURVE_IN(curve))
__CPROVER_requires(__CPROVER_r_ok(pub_key, sizeof(ec_point_t)) && VF_EC_POINT_WF(*pub_key))
__CPROVER_requires(VF_ECBN_R(priv_key) && VF_ECBN_OUT(shared_key))
__CPROVER_requires(shared_key == priv_key || !__CPROVER_same_object(shared_key, priv_key))
__CPROVER_assigns(VF_BN_FRAME(shared_key))
VF_G_dh
__CPROVER_ensures(vf_bn_val(__CPROVER_old(*priv_key)) >= VF_N(curve) ==> __CPROVER_return_value != 0)
__CPROVER_ensures(__CPROVER_return_value == 0 ==> vf_bn_wf(*shared_key))
#ifdef VF_ENFORCE_ecdsa_dh
__CPROVER_ensures(vf_bn_val(__CPROVER_old(*priv_key)) >= VF_N(curve) ==> __CPROVER_return_value == EINVAL)
__CPROVER_ensures(__CPROVER_return_value == 0 ==> ((use_cofactor != 0) ?
    (vf_n_mult_digit == 1 && vf_mult_digit_d == curve->h && vf_mult_digit_bn == VF_ID(shared_key) && vf_mult_digit_m == VF_NID(curve)) :
    (vf_n_mult_digit == 0)))
__CPROVER_ensures(__CPROVER_return_value == 0 ==> (vf_n_unkpt == 1 && vf_st_unkpt == 0 && vf_unkpt_inf == 0 &&
    vf_n_mult_bp == 0 && vf_n_twin == 0 && vf_unkpt_d == VF_ID(shared_key) && vf_unkpt_curve == VF_ID(curve)))
__CPROVER_ensures(__CPROVER_return_value == 0 ==> (
    VF_ASSIGNED_FROM(vf_unkpt_point + offsetof(ec_point_t, x), VF_ID(&pub_key->x)) &&
    VF_ASSIGNED_FROM(vf_unkpt_point + offsetof(ec_point_t, y), VF_ID(&pub_key->y)) &&
    VF_ASSIGNED_FROM(VF_ID(shared_key), VF_ID(priv_key)) &&
    VF_ASSIGNED_FROM(VF_ID(shared_key), vf_unkpt_point + offsetof(ec_point_t, x))))
#endif
;

#define VF_DH_BYTES_CONTRACT(fn)							\
static inline int fn(ec_curve_p curve, int use_cofactor,				\
    uint8_t *pub_key_x, uint8_t *pub_key_y, size_t pub_key_size,			\
    uint8_t *priv_key, size_t priv_key_size, uint8_t *shared_key, size_t *shared_size)	\
__CPROVER_requires(VF_CURVE_IN(curve))							\
__CPROVER_requires(VF_SPAN_E(pub_key_x, pub_key_size) && VF_SPAN_E(pub_key_y, VF_EC_BYTES(curve)))	\
__CPROVER_requires(VF_SPAN_E(priv_key, priv_key_size))					\
__CPROVER_requires(VF_SPAN_E(shared_key, VF_EC_BYTES(curve)) && VF_SZ_E(shared_size))	\
__CPROVER_assigns(shared_key != NULL: __CPROVER_object_upto(shared_key, VF_EC_BYTES(curve)))	\
__CPROVER_assigns(shared_size != NULL: *shared_size)					\
VF_EC_ENFORCED_GHOST									\
__CPROVER_ensures((pub_key_x == NULL || pub_key_size == 0 || priv_key == NULL || priv_key_size == 0 ||	\
    shared_key == NULL || priv_key_size > VF_EC_BYTES(curve)) ==> __CPROVER_return_value == EINVAL)	\
__CPROVER_ensures(__CPROVER_return_value == 0 ==> (vf_n_pk_import == 1 && vf_st_pk_import == 0 &&	\
    vf_g.pk_import.a0 == VF_ID(curve) && vf_g.pk_import.a1 == VF_ID(pub_key_x) &&		\
    vf_g.pk_import.a2 == VF_ID(pub_key_y) && vf_g.pk_import.a3 == pub_key_size))		\
__CPROVER_ensures(__CPROVER_return_value == 0 ==> (vf_n_imp == 1 && VF_IMPORTED(0, priv_key, priv_key_size) &&	\
    vf_n_core == 1 && vf_st_core == 0 && vf_core_flag == 3 && vf_core_a0 == VF_ID(curve) &&	\
    vf_core_a1 == vf_g.pk_import.a4 && vf_core_a2 == vf_imp_bn[0] &&			\
    vf_core_a4 == (unsigned long)(use_cofactor != 0)))						\
__CPROVER_ensures(__CPROVER_return_value == 0 ==> (vf_n_exp == 1 && VF_EXPORTED(0, shared_key, VF_EC_BYTES(curve)) &&	\
    vf_exp_bn[0] == vf_core_a3 && (shared_size == NULL || *shared_size == VF_EC_BYTES(curve))))	\
;
VF_DH_BYTES_CONTRACT(ecdsa_dh_be)
VF_DH_BYTES_CONTRACT(ecdsa_dh_le)

/* ================================================================== C09: public key from private key ==== */
/*
 * ecdsa_recover_pub_key_from_priv_key_be / _le: NULL / zero-size arguments, priv_key_size > bytes
 * ==> EINVAL.  success ==> the key was read as exactly priv_key_size bytes, compared with n and
 * found smaller (a key >= n returns EINVAL); one base-point multiplication by it, status honoured;
 * the result validated (ec_point_check_as_pub_key, status 0) and exported with the caller's buffers.
 * Span of pub_key_x: the size of the selected form (compressed 1 + bytes; separate `bytes`;
 * packed 1 + 2 bytes).
 */
#define VF_RECOVER_BYTES_CONTRACT(fn)							\
static inline int fn(ec_curve_p curve, uint8_t *priv_key, size_t priv_key_size,		\
    int pub_key_compress, uint8_t *pub_key_x, uint8_t *pub_key_y, size_t *pub_key_size)	\
__CPROVER_requires(VF_CURVE_IN(curve) && VF_SPAN_E(priv_key, priv_key_size))		\
__CPROVER_requires(VF_SPAN_E(pub_key_y, VF_EC_BYTES(curve)) && VF_SZ_E(pub_key_size))	\
__CPROVER_requires(VF_SPAN_E(pub_key_x, (pub_key_compress != 0) ? 1 + VF_EC_BYTES(curve) :	\
    ((pub_key_y != NULL) ? VF_EC_BYTES(curve) : 1 + 2 * VF_EC_BYTES(curve))))		\
__CPROVER_assigns(pub_key_x != NULL && pub_key_compress != 0: __CPROVER_object_upto(pub_key_x, 1 + VF_EC_BYTES(curve)))	\
__CPROVER_assigns(pub_key_x != NULL && pub_key_compress == 0 && pub_key_y != NULL: __CPROVER_object_upto(pub_key_x, VF_EC_BYTES(curve)))	\
__CPROVER_assigns(pub_key_x != NULL && pub_key_compress == 0 && pub_key_y == NULL: __CPROVER_object_upto(pub_key_x, 1 + 2 * VF_EC_BYTES(curve)))	\
__CPROVER_assigns(pub_key_y != NULL: __CPROVER_object_upto(pub_key_y, VF_EC_BYTES(curve)))	\
__CPROVER_assigns(pub_key_size != NULL: *pub_key_size)					\
VF_EC_ENFORCED_GHOST									\
__CPROVER_ensures((priv_key == NULL || priv_key_size == 0 || pub_key_x == NULL ||	\
    priv_key_size > VF_EC_BYTES(curve)) ==> __CPROVER_return_value == EINVAL)		\
__CPROVER_ensures(__CPROVER_return_value == 0 ==> (vf_n_imp == 1 && VF_IMPORTED(0, priv_key, priv_key_size) &&	\
    vf_n_cmp >= 1 && vf_cmp_a == vf_imp_bn[0] && vf_cmp_b == VF_NID(curve) && vf_cmp_r < 0))	\
__CPROVER_ensures(__CPROVER_return_value == 0 ==> (vf_n_mult_bp == 1 && vf_st_mult_bp == 0 &&	\
    vf_mult_bp_d == vf_imp_bn[0] && vf_mult_bp_curve == VF_ID(curve) &&			\
    vf_n_chk_pub == 1 && vf_st_chk_pub == 0 && vf_chk_pub_point == vf_mult_bp_res && vf_chk_pub_curve == VF_ID(curve)))	\
__CPROVER_ensures(__CPROVER_return_value == 0 ==> (vf_n_pk_export == 1 && vf_st_pk_export == 0 &&	\
    vf_g.pk_export.a0 == VF_ID(curve) && vf_g.pk_export.a1 == VF_ID(pub_key_x) && vf_g.pk_export.a2 == VF_ID(pub_key_y) &&	\
    vf_g.pk_export.a3 == VF_ID(pub_key_size) && vf_g.pk_export.a4 == vf_mult_bp_res && vf_g.pk_export.flag == pub_key_compress))	\
;
VF_RECOVER_BYTES_CONTRACT(ecdsa_recover_pub_key_from_priv_key_be)
VF_RECOVER_BYTES_CONTRACT(ecdsa_recover_pub_key_from_priv_key_le)

#endif /* !VF_REPLAY */
#endif /* VF_CONTRACTS_ECDSA_H */
