/*
 * Contracts for include/crypto/cipher/chacha.h (property C08).  Redeclarations only:
 * the header is not edited.  The clauses mention fields of chacha_context_t, so this
 * file includes the unmodified header first and attaches the contracts to
 * redeclarations AFTER the definitions (goto-cc merges them the same way).
 *
 * Reference semantics: specs/chacha_spec.h (RFC 7539 2.1-2.4, 64-bit counter layout).
 *
 * Block functions chacha_block_aligned8 / aligned4 / unaligneg, contract C(f):
 *   (W)  ctx->x'            == spec_block_words(old ctx->state, ctx->rounds)
 *   (B)  dst'[i]            == old(src[i], or 0 when src == NULL) ^ byte i of LE-serialise(ctx->x')
 *   (C)  state'[12], [13]   == the 64-bit counter old(state[12] | state[13] << 32) + 1 mod 2^64
 *   (F)  nothing else is written: state[0..11], state[14..15], rounds, bytes around dst
 * (W) is an ARX term equivalence (closes on cvc5 only), (B) is a bit-level statement
 * (closes on SAT only), so the two conjunct groups are proved by different jobs of the
 * same contract text, selected with -DVF_CC_PART_W / -DVF_CC_PART_B (default: both).
 * (B)+(W) give  dst' == src ^ serialise(spec_block(old state)).
 *
 * For the callers (chacha_blocks_transform, chacha_str_data_crypt) the block functions
 * are replaced by this same contract without (W) and with a history log
 * (-DVF_CC_GHOST_LOG): call number n records (old state, x') in vf_cc_log[n].  The
 * callers' postconditions speak about the log; (W) then identifies every logged x'
 * with the RFC block of the logged state.
 *
 * Pointer preconditions are written with __CPROVER_r_ok / __CPROVER_w_ok (not is_fresh):
 * the harnesses pass pointers at chosen offsets into exact-size objects (alignment classes,
 * in-place use) and a symbolic context object of their own, whose value is then part of
 * the counterexample trace and of the native replay; the same clauses are asserted at the
 * call sites when a function is replaced by its contract.
 */
#ifndef VF_CONTRACTS_CHACHA_H
#define VF_CONTRACTS_CHACHA_H
#include "vf/vf.h"
#include "specs/chacha_spec.h"
#include "crypto/cipher/chacha.h"

/* -DVF_CC_PART_C: counter and frame clauses only (was used by the unbounded-blocks_count attempt,
 * which did not close and is not registered: obligations/C08.json "not_covered") */
#if !defined(VF_CC_PART_W) && !defined(VF_CC_PART_B) && !defined(VF_CC_PART_C)
#define VF_CC_PART_W
#define VF_CC_PART_B
#endif

#define VF_CC_ALIGNED(p, a)	((((size_t)(p)) & ((size_t)(a) - 1)) == 0)
/* -DVF_CC_ROUNDS=<8|12|20>: case split of the precondition on the round count (one job per case) */
#ifdef VF_CC_ROUNDS
#define VF_CC_ROUNDS_OK(r)	((r) == VF_CC_ROUNDS)
#else
#define VF_CC_ROUNDS_OK(r)	((r) == 8 || (r) == 12 || (r) == 20)
#endif
/* byte i of the little-endian serialisation of 16 words */
#define VF_CC_SER(words, i)	((uint8_t)((words)[(i) >> 2] >> (8 * ((i) & 3))))

/* (W) as a predicate: x == RFC block of the state whose words 12/13 were c_lo/c_hi at
 * entry and whose other words are st[] (they are outside the frame, so st[] may be read
 * in the post-state) */
static inline _Bool
vf_cc_words_ok(const uint32_t x[16], const uint32_t st[16], uint32_t c_lo, uint32_t c_hi,
    size_t rounds) {
	uint32_t in[16], out[16];
	unsigned i;
	_Bool ok = 1;
	for (i = 0; i < 16; i ++)
		in[i] = st[i];
	in[12] = c_lo;
	in[13] = c_hi;
	vf_chacha_block_words(in, (unsigned)rounds, out);
	for (i = 0; i < 16; i ++)
		ok = ok && (x[i] == out[i]);
	return (ok);
}

/* ---- set-up predicates (spec side computed by specs/chacha_spec.h) ---- */
/* bytes of key material the library reads for a given key_size argument: the header accepts the
 * size in bits or bytes ("256 == key_size || 32 == key_size" is the 256-bit key, everything else
 * the 128-bit key); the contracts admit the four documented spellings only */
#define VF_CC_KEY_SIZE_OK(ks)	((ks) == 16 || (ks) == 32 || (ks) == 128 || (ks) == 256)
#define VF_CC_KEY_BYTES(ks)	(((ks) == 256 || (ks) == 32) ? 32u : 16u)

static inline uint64_t
vf_cc_le64_opt(const uint8_t *p) {
	if (p == NULL)
		return (0);
	return ((uint64_t)vf_chacha_le32(p) | ((uint64_t)vf_chacha_le32(p + 4) << 32));
}
/* words [from, to) of st equal the spec's initial state for (key, counter, nonce) */
static inline _Bool
vf_cc_init_ok(const uint32_t st[16], unsigned from, unsigned to, const uint8_t *key, unsigned kb,
    const uint8_t *counter, const uint8_t *iv) {
	static const uint8_t zero8[8] = { 0 };
	uint32_t e[16];
	unsigned i;
	_Bool ok = 1;
	vf_chacha_state_init(e, key, kb, vf_cc_le64_opt(counter), (iv != NULL) ? iv : zero8);
	for (i = from; i < to; i ++)
		ok = ok && (st[i] == e[i]);
	return (ok);
}
static inline _Bool
vf_cc_hchacha_ok(const uint8_t dst[32], const uint8_t *key, unsigned kb, const uint8_t *iv16,
    size_t rounds) {
	static const uint8_t zero16[16] = { 0 };
	uint8_t e[32];
	unsigned i;
	_Bool ok = 1;
	vf_hchacha(key, kb, (iv16 != NULL) ? iv16 : zero16, (unsigned)rounds, e);
	for (i = 0; i < 32; i ++)
		ok = ok && (dst[i] == e[i]);
	return (ok);
}
/* words 0..11, 14, 15 (and 12, 13 when with_counter) equal the spec's XChaCha initial state */
static inline _Bool
vf_cc_xinit_ok(const uint32_t st[16], const uint8_t *key, unsigned kb, const uint8_t *counter,
    _Bool with_counter, const uint8_t *iv24, size_t rounds) {
	static const uint8_t zero24[24] = { 0 };
	uint32_t e[16];
	unsigned i;
	_Bool ok = 1;
	vf_xchacha_state_init(e, key, kb, vf_cc_le64_opt(counter), (iv24 != NULL) ? iv24 : zero24,
	    (unsigned)rounds);
	for (i = 0; i < 16; i ++)
		ok = ok && ((!with_counter && (i == 12 || i == 13)) || st[i] == e[i]);
	return (ok);
}

#ifndef VF_REPLAY
static const uint8_t vf_cc_zero64[64] = { 0 };

/* ---- history log of block-function calls (callers' proofs only) ---- */
#ifdef VF_CC_GHOST_LOG
#ifndef VF_CC_MAXBLK
#define VF_CC_MAXBLK	8
#endif
struct vf_cc_log_s { uint32_t st[16]; uint32_t x[16]; };
static struct vf_cc_log_s vf_cc_log[VF_CC_MAXBLK];
static size_t vf_cc_n;
#define VF_CC_LOG_REQUIRES	__CPROVER_requires(vf_cc_n < VF_CC_MAXBLK)
#define VF_CC_LOG_ASSIGNS	__CPROVER_assigns(vf_cc_n, vf_cc_log[vf_cc_n])
#define VF_CC_LOG_W(k)		(vf_cc_log[__CPROVER_old(vf_cc_n)].st[k] == __CPROVER_old(ctx->state[k]) && \
				 vf_cc_log[__CPROVER_old(vf_cc_n)].x[k] == ctx->x[k])
#define VF_CC_LOG_ENSURES						\
	__CPROVER_ensures(vf_cc_n == __CPROVER_old(vf_cc_n) + 1)	\
	__CPROVER_ensures(VF_CC_LOG_W(0) && VF_CC_LOG_W(1) && VF_CC_LOG_W(2) && VF_CC_LOG_W(3)) \
	__CPROVER_ensures(VF_CC_LOG_W(4) && VF_CC_LOG_W(5) && VF_CC_LOG_W(6) && VF_CC_LOG_W(7)) \
	__CPROVER_ensures(VF_CC_LOG_W(8) && VF_CC_LOG_W(9) && VF_CC_LOG_W(10) && VF_CC_LOG_W(11)) \
	__CPROVER_ensures(VF_CC_LOG_W(12) && VF_CC_LOG_W(13) && VF_CC_LOG_W(14) && VF_CC_LOG_W(15))
#else
#define VF_CC_LOG_REQUIRES
#define VF_CC_LOG_ASSIGNS
#define VF_CC_LOG_ENSURES
#endif

/* (B), one clause per output word */
#define VF_CC_SRC_OLD(i)	__CPROVER_old(((src) != NULL ? (src) : vf_cc_zero64)[i])
#define VF_CC_B1(i)		(dst[i] == (uint8_t)(VF_CC_SRC_OLD(i) ^ VF_CC_SER(ctx->x, (i))))
#define VF_CC_B4(w)		__CPROVER_ensures(VF_CC_B1(4 * (w)) && VF_CC_B1(4 * (w) + 1) && \
				    VF_CC_B1(4 * (w) + 2) && VF_CC_B1(4 * (w) + 3))
#ifdef VF_CC_PART_B
#define VF_CC_ENSURES_B							\
	VF_CC_B4(0) VF_CC_B4(1) VF_CC_B4(2) VF_CC_B4(3) VF_CC_B4(4) VF_CC_B4(5) VF_CC_B4(6) VF_CC_B4(7) \
	VF_CC_B4(8) VF_CC_B4(9) VF_CC_B4(10) VF_CC_B4(11) VF_CC_B4(12) VF_CC_B4(13) VF_CC_B4(14) VF_CC_B4(15)
#else
#define VF_CC_ENSURES_B
#endif
#ifdef VF_CC_PART_W
#define VF_CC_ENSURES_W							\
	__CPROVER_ensures(vf_cc_words_ok(ctx->x, ctx->state,		\
	    __CPROVER_old(ctx->state[12]), __CPROVER_old(ctx->state[13]), ctx->rounds))
#else
#define VF_CC_ENSURES_W
#endif

#define VF_CC_BLOCK_CONTRACT(fn, align)					\
static inline void fn(chacha_context_p ctx, const uint8_t *src, uint8_t *dst) \
__CPROVER_requires(__CPROVER_w_ok(ctx, sizeof(chacha_context_t)))	\
__CPROVER_requires(VF_CC_ROUNDS_OK(ctx->rounds))			\
__CPROVER_requires(src == NULL || __CPROVER_r_ok(src, CHACHA_BLOCK_LEN)) \
__CPROVER_requires(__CPROVER_w_ok(dst, CHACHA_BLOCK_LEN))		\
__CPROVER_requires(VF_CC_ALIGNED(src, align) && VF_CC_ALIGNED(dst, align)) \
VF_CC_LOG_REQUIRES							\
__CPROVER_assigns(__CPROVER_object_upto(ctx->x, CHACHA_BLOCK_LEN))	\
__CPROVER_assigns(ctx->state[12], ctx->state[13])			\
__CPROVER_assigns(__CPROVER_object_upto(dst, CHACHA_BLOCK_LEN))	\
VF_CC_LOG_ASSIGNS							\
VF_CC_ENSURES_W								\
VF_CC_ENSURES_B								\
/* (C) 64-bit counter with carry */					\
__CPROVER_ensures(ctx->state[12] == (uint32_t)(__CPROVER_old(ctx->state[12]) + 1u)) \
__CPROVER_ensures(ctx->state[13] == (uint32_t)(__CPROVER_old(ctx->state[13]) +	\
    (__CPROVER_old(ctx->state[12]) == 0xffffffffu ? 1u : 0u)))		\
VF_CC_LOG_ENSURES							\
;

VF_CC_BLOCK_CONTRACT(chacha_block_aligned8, 8)
VF_CC_BLOCK_CONTRACT(chacha_block_aligned4, 4)
VF_CC_BLOCK_CONTRACT(chacha_block_unaligneg, 1)


/* ---- set-up functions ---- */
#define VF_CC_OPT_R(p, n)	((p) == NULL || __CPROVER_r_ok((p), (n)))

static inline void
chacha_key_set(chacha_context_p ctx, const uint8_t *key, const size_t key_size)
__CPROVER_requires(__CPROVER_w_ok(ctx, sizeof(chacha_context_t)))
__CPROVER_requires(VF_CC_KEY_SIZE_OK(key_size))
__CPROVER_requires(__CPROVER_r_ok(key, VF_CC_KEY_BYTES(key_size)))
__CPROVER_assigns(__CPROVER_object_upto(ctx->state, 12 * sizeof(uint32_t)))
/* constants "expand 32-byte k" / "expand 16-byte k", key words, 128-bit key used twice */
__CPROVER_ensures(vf_cc_init_ok(ctx->state, 0, 12, key, VF_CC_KEY_BYTES(key_size), NULL, NULL))
;

static inline void
chacha_counter_set(chacha_context_p ctx, const uint8_t *counter)
__CPROVER_requires(__CPROVER_w_ok(ctx, sizeof(chacha_context_t)))
__CPROVER_requires(VF_CC_OPT_R(counter, 8))
__CPROVER_assigns(ctx->state[12], ctx->state[13])
__CPROVER_ensures(vf_chacha_counter(ctx->state) == vf_cc_le64_opt(counter))
;

static inline void
chacha_counter_set_u64(chacha_context_p ctx, uint64_t counter)
__CPROVER_requires(__CPROVER_w_ok(ctx, sizeof(chacha_context_t)))
__CPROVER_assigns(ctx->state[12], ctx->state[13])
__CPROVER_ensures(vf_chacha_counter(ctx->state) == counter)
;

static inline uint64_t
chacha_counter_get_u64(chacha_context_p ctx)
__CPROVER_requires(__CPROVER_w_ok(ctx, sizeof(chacha_context_t)))
__CPROVER_assigns()
__CPROVER_ensures(__CPROVER_return_value == vf_chacha_counter(ctx->state))
;

static inline void
chacha_iv_set(chacha_context_p ctx, const uint8_t *iv)
__CPROVER_requires(__CPROVER_w_ok(ctx, sizeof(chacha_context_t)))
__CPROVER_requires(VF_CC_OPT_R(iv, CHACHA_IV_LEN))
__CPROVER_assigns(ctx->state[14], ctx->state[15])
__CPROVER_ensures(ctx->state[14] == (iv != NULL ? vf_chacha_le32(iv) : 0u))
__CPROVER_ensures(ctx->state[15] == (iv != NULL ? vf_chacha_le32(iv + 4) : 0u))
;

static inline void
chacha_init(chacha_context_p ctx, const uint8_t *key, const size_t key_size,
    const uint8_t *counter, const uint8_t *iv, const size_t rounds)
__CPROVER_requires(__CPROVER_w_ok(ctx, sizeof(chacha_context_t)))
__CPROVER_requires(VF_CC_KEY_SIZE_OK(key_size))
__CPROVER_requires(__CPROVER_r_ok(key, VF_CC_KEY_BYTES(key_size)))
__CPROVER_requires(VF_CC_OPT_R(counter, 8) && VF_CC_OPT_R(iv, CHACHA_IV_LEN))
__CPROVER_assigns(__CPROVER_object_upto(ctx->state, CHACHA_BLOCK_LEN), ctx->rounds)
__CPROVER_ensures(vf_cc_init_ok(ctx->state, 0, 16, key, VF_CC_KEY_BYTES(key_size), counter, iv))
__CPROVER_ensures(ctx->rounds == rounds)
;

static inline void
hchacha(const uint8_t *key, const size_t key_size, const uint8_t *iv, size_t rounds, uint8_t *dst)
__CPROVER_requires(VF_CC_KEY_SIZE_OK(key_size))
__CPROVER_requires(__CPROVER_r_ok(key, VF_CC_KEY_BYTES(key_size)))
__CPROVER_requires(VF_CC_OPT_R(iv, 16))
__CPROVER_requires(VF_CC_ROUNDS_OK(rounds))
__CPROVER_requires(__CPROVER_w_ok(dst, 32))
__CPROVER_assigns(__CPROVER_object_upto(dst, 32))
/* rounds WITHOUT the final addition, words 0..3 and 12..15 */
__CPROVER_ensures(vf_cc_hchacha_ok(dst, key, VF_CC_KEY_BYTES(key_size), iv, rounds))
;

static inline void
xchacha_set_key_iv_rounds(chacha_context_p ctx, const uint8_t *key, const size_t key_size,
    const uint8_t *iv, const size_t rounds)
__CPROVER_requires(__CPROVER_w_ok(ctx, sizeof(chacha_context_t)))
__CPROVER_requires(VF_CC_KEY_SIZE_OK(key_size))
__CPROVER_requires(__CPROVER_r_ok(key, VF_CC_KEY_BYTES(key_size)))
__CPROVER_requires(VF_CC_OPT_R(iv, XCHACHA_IV_LEN))
__CPROVER_requires(VF_CC_ROUNDS_OK(rounds))
__CPROVER_assigns(__CPROVER_object_upto(ctx->state, 12 * sizeof(uint32_t)))
__CPROVER_assigns(ctx->state[14], ctx->state[15], ctx->rounds)
__CPROVER_ensures(vf_cc_xinit_ok(ctx->state, key, VF_CC_KEY_BYTES(key_size), NULL, 0, iv, rounds))
__CPROVER_ensures(ctx->rounds == rounds)
;

static inline void
xchacha_init(chacha_context_p ctx, const uint8_t *key, const size_t key_size,
    const uint8_t *counter, const uint8_t *iv, const size_t rounds)
__CPROVER_requires(__CPROVER_w_ok(ctx, sizeof(chacha_context_t)))
__CPROVER_requires(VF_CC_KEY_SIZE_OK(key_size))
__CPROVER_requires(__CPROVER_r_ok(key, VF_CC_KEY_BYTES(key_size)))
__CPROVER_requires(VF_CC_OPT_R(counter, 8) && VF_CC_OPT_R(iv, XCHACHA_IV_LEN))
__CPROVER_requires(VF_CC_ROUNDS_OK(rounds))
__CPROVER_assigns(__CPROVER_object_upto(ctx->state, CHACHA_BLOCK_LEN), ctx->rounds)
__CPROVER_ensures(vf_cc_xinit_ok(ctx->state, key, VF_CC_KEY_BYTES(key_size), counter, 1, iv, rounds))
__CPROVER_ensures(ctx->rounds == rounds)
;

#if defined(VF_CC_GHOST_LOG) && defined(VF_CC_INIT_ABSTRACT)
/* For the one-shot functions chacha() / xchacha(): the stream set-up is replaced by "some
 * state st0 is established" (ghost vf_cc_st0), ks_len = 0; that st0 is the RFC / XChaCha
 * initial state for the arguments is what the chacha.setup.*str_init jobs prove of the
 * same functions. */
static uint32_t vf_cc_st0[16];
#define VF_CC_ST0_EQ(st)								\
	((st)[0] == vf_cc_st0[0] && (st)[1] == vf_cc_st0[1] && (st)[2] == vf_cc_st0[2] && (st)[3] == vf_cc_st0[3] && \
	 (st)[4] == vf_cc_st0[4] && (st)[5] == vf_cc_st0[5] && (st)[6] == vf_cc_st0[6] && (st)[7] == vf_cc_st0[7] && \
	 (st)[8] == vf_cc_st0[8] && (st)[9] == vf_cc_st0[9] && (st)[10] == vf_cc_st0[10] && (st)[11] == vf_cc_st0[11] && \
	 (st)[12] == vf_cc_st0[12] && (st)[13] == vf_cc_st0[13] && (st)[14] == vf_cc_st0[14] && (st)[15] == vf_cc_st0[15])
#define VF_CC_STR_INIT_ABSTRACT(fn, ivlen)						\
static inline void fn(chacha_context_str_p ctx, const uint8_t *key, const size_t key_size,	\
    const uint8_t *counter, const uint8_t *iv, const size_t rounds)			\
__CPROVER_requires(__CPROVER_w_ok(ctx, sizeof(chacha_context_str_t)))			\
__CPROVER_requires(VF_CC_KEY_SIZE_OK(key_size))						\
__CPROVER_requires(__CPROVER_r_ok(key, VF_CC_KEY_BYTES(key_size)))			\
__CPROVER_requires(VF_CC_OPT_R(counter, 8) && VF_CC_OPT_R(iv, ivlen))			\
__CPROVER_requires(VF_CC_ROUNDS_OK(rounds))						\
__CPROVER_assigns(__CPROVER_object_upto(ctx->c.state, CHACHA_BLOCK_LEN), ctx->c.rounds, ctx->ks_len) \
__CPROVER_assigns(__CPROVER_object_whole(vf_cc_st0))					\
__CPROVER_ensures(VF_CC_ST0_EQ(ctx->c.state))						\
__CPROVER_ensures(ctx->c.rounds == rounds && ctx->ks_len == 0)				\
;
VF_CC_STR_INIT_ABSTRACT(chacha_str_init, CHACHA_IV_LEN)
VF_CC_STR_INIT_ABSTRACT(xchacha_str_init, XCHACHA_IV_LEN)
#else
static inline void
chacha_str_init(chacha_context_str_p ctx, const uint8_t *key, const size_t key_size,
    const uint8_t *counter, const uint8_t *iv, const size_t rounds)
__CPROVER_requires(__CPROVER_w_ok(ctx, sizeof(chacha_context_str_t)))
__CPROVER_requires(VF_CC_KEY_SIZE_OK(key_size))
__CPROVER_requires(__CPROVER_r_ok(key, VF_CC_KEY_BYTES(key_size)))
__CPROVER_requires(VF_CC_OPT_R(counter, 8) && VF_CC_OPT_R(iv, CHACHA_IV_LEN))
__CPROVER_assigns(__CPROVER_object_upto(ctx->c.state, CHACHA_BLOCK_LEN), ctx->c.rounds, ctx->ks_len)
__CPROVER_ensures(vf_cc_init_ok(ctx->c.state, 0, 16, key, VF_CC_KEY_BYTES(key_size), counter, iv))
__CPROVER_ensures(ctx->c.rounds == rounds && ctx->ks_len == 0)
;

static inline void
xchacha_str_init(chacha_context_str_p ctx, const uint8_t *key, const size_t key_size,
    const uint8_t *counter, const uint8_t *iv, const size_t rounds)
__CPROVER_requires(__CPROVER_w_ok(ctx, sizeof(chacha_context_str_t)))
__CPROVER_requires(VF_CC_KEY_SIZE_OK(key_size))
__CPROVER_requires(__CPROVER_r_ok(key, VF_CC_KEY_BYTES(key_size)))
__CPROVER_requires(VF_CC_OPT_R(counter, 8) && VF_CC_OPT_R(iv, XCHACHA_IV_LEN))
__CPROVER_requires(VF_CC_ROUNDS_OK(rounds))
__CPROVER_assigns(__CPROVER_object_upto(ctx->c.state, CHACHA_BLOCK_LEN), ctx->c.rounds, ctx->ks_len)
__CPROVER_ensures(vf_cc_xinit_ok(ctx->c.state, key, VF_CC_KEY_BYTES(key_size), counter, 1, iv, rounds))
__CPROVER_ensures(ctx->c.rounds == rounds && ctx->ks_len == 0)
;


#endif /* VF_CC_INIT_ABSTRACT */

/* ---- wiping ---- */
static size_t vf_cc_w;	/* ghost byte index */
static inline void
chacha_final(chacha_context_p ctx)
__CPROVER_requires(__CPROVER_w_ok(ctx, sizeof(chacha_context_t)))
__CPROVER_assigns(__CPROVER_object_upto(ctx, sizeof(chacha_context_t)))
__CPROVER_ensures(vf_cc_w < sizeof(chacha_context_t) ==> ((const uint8_t *)ctx)[vf_cc_w] == 0)
;
static inline void
chacha_str_final(chacha_context_str_p ctx)
__CPROVER_requires(__CPROVER_w_ok(ctx, sizeof(chacha_context_str_t)))
__CPROVER_assigns(__CPROVER_object_upto(ctx, sizeof(chacha_context_str_t)))
__CPROVER_ensures(vf_cc_w < sizeof(chacha_context_str_t) ==> ((const uint8_t *)ctx)[vf_cc_w] == 0)
;

/* ---- chacha_blocks_transform: block functions replaced by their contract ---- */
/* ghost indices: unconstrained file-scope values, so a clause "j < n ==> P(j)" is "for all j < n" */
static size_t vf_cc_j;		/* block index */
static size_t vf_cc_k;		/* byte index */
#ifndef VF_CC_MAX_BLOCKS	/* bound on blocks_count (no overflow of 64 * blocks_count; value jobs: small) */
#define VF_CC_MAX_BLOCKS	(((size_t)1) << 56)
#endif
/* src byte k at entry (0 when there is no source or k is out of range) */
#define VF_CC_SRCK_OLD(src, k, n)	__CPROVER_old((((src) != NULL && (k) < (n)) ? (src) : vf_cc_zero64)	\
					    [((src) != NULL && (k) < (n)) ? (k) : 0])
/* state st is the entry state (words 12/13 = c_lo/c_hi at entry, the rest unchanged = cur) advanced by j blocks */
#define VF_CC_STATE_AT(st, cur, c_lo, c_hi, j)						\
	((st)[0] == (cur)[0] && (st)[1] == (cur)[1] && (st)[2] == (cur)[2] && (st)[3] == (cur)[3] &&	\
	 (st)[4] == (cur)[4] && (st)[5] == (cur)[5] && (st)[6] == (cur)[6] && (st)[7] == (cur)[7] &&	\
	 (st)[8] == (cur)[8] && (st)[9] == (cur)[9] && (st)[10] == (cur)[10] && (st)[11] == (cur)[11] && \
	 (st)[14] == (cur)[14] && (st)[15] == (cur)[15] &&					\
	 ((uint64_t)(st)[12] | ((uint64_t)(st)[13] << 32)) ==					\
	     (uint64_t)(((uint64_t)(c_lo) | ((uint64_t)(c_hi) << 32)) + (uint64_t)(j)))

static inline void
chacha_blocks_transform(chacha_context_p ctx, const uint8_t *src, size_t blocks_count, uint8_t *dst)
__CPROVER_requires(__CPROVER_w_ok(ctx, sizeof(chacha_context_t)))
__CPROVER_requires(VF_CC_ROUNDS_OK(ctx->rounds))
__CPROVER_requires(blocks_count <= VF_CC_MAX_BLOCKS)
__CPROVER_requires(blocks_count == 0 || src == NULL || __CPROVER_r_ok(src, CHACHA_BLOCK_LEN * blocks_count))
__CPROVER_requires(blocks_count == 0 || __CPROVER_w_ok(dst, CHACHA_BLOCK_LEN * blocks_count))
#ifdef VF_CC_GHOST_LOG
__CPROVER_requires(vf_cc_n <= VF_CC_MAXBLK && blocks_count <= VF_CC_MAXBLK - vf_cc_n)
__CPROVER_assigns(vf_cc_n, __CPROVER_object_whole(vf_cc_log))
#endif
__CPROVER_assigns(blocks_count != 0: __CPROVER_object_upto(ctx->x, CHACHA_BLOCK_LEN))
__CPROVER_assigns(blocks_count != 0: ctx->state[12], ctx->state[13])
__CPROVER_assigns(blocks_count != 0: __CPROVER_object_upto(dst, CHACHA_BLOCK_LEN * blocks_count))
/* the 64-bit counter advances by blocks_count, carrying from word 12 into word 13 */
__CPROVER_ensures(vf_chacha_counter(ctx->state) ==
    (uint64_t)(((uint64_t)__CPROVER_old(ctx->state[12]) | ((uint64_t)__CPROVER_old(ctx->state[13]) << 32)) +
    (uint64_t)blocks_count))
#ifdef VF_CC_GHOST_LOG
/* exactly blocks_count block-function calls; call j ran on the entry state advanced by j blocks ... */
__CPROVER_ensures(vf_cc_n == __CPROVER_old(vf_cc_n) + blocks_count)
__CPROVER_ensures(vf_cc_j < blocks_count ==>
    VF_CC_STATE_AT(vf_cc_log[__CPROVER_old(vf_cc_n) + vf_cc_j].st, ctx->state,
	__CPROVER_old(ctx->state[12]), __CPROVER_old(ctx->state[13]), vf_cc_j))
/* ... and output byte k is source byte k xor byte (k mod 64) of the block emitted by call k / 64 */
__CPROVER_ensures(vf_cc_k < CHACHA_BLOCK_LEN * blocks_count ==>
    dst[vf_cc_k] == (uint8_t)(VF_CC_SRCK_OLD(src, vf_cc_k, CHACHA_BLOCK_LEN * blocks_count) ^
	VF_CC_SER(vf_cc_log[__CPROVER_old(vf_cc_n) + vf_cc_k / CHACHA_BLOCK_LEN].x, vf_cc_k % CHACHA_BLOCK_LEN)))
#endif
;

/* ---- chacha_str_data_crypt: one call of the stream interface, as an inductive step ----
 * Stream position (bytes since the log origin) p = 64 * vf_cc_n - ctx->ks_len.
 * Invariant I(ctx): ks_len < 64, and when ks_len > 0 the saved bytes ks[64 - ks_len .. 63]
 * are bytes 64 - ks_len .. 63 of the serialised block emitted last (log entry vf_cc_n - 1).
 * One call with `bytes` bytes, under I:
 *   (S1) dst[k] == src[k] ^ (byte (p + k) mod 64 of the block logged at index (p + k) / 64), k < bytes
 *   (S2) p' == p + bytes, I(ctx') holds
 *   (S3) the blocks emitted by this call were computed from the entry state advanced by 0, 1, 2, ...
 *        and the state afterwards is the entry state advanced by the number of emitted blocks
 *   (S4) log entries below the entry value of vf_cc_n are unchanged
 * By induction over the calls: output byte number q of the whole call sequence is source
 * byte q xor byte q mod 64 of block q / 64, where block j is the block function applied to
 * the initial state advanced by j - for every split of the data into calls.  With clause
 * group (W) of the block functions that is the RFC 7539 key stream. */
#ifdef VF_CC_GHOST_LOG
#ifndef VF_CC_MAX_BYTES
#define VF_CC_MAX_BYTES	((size_t)160)
#endif
#define VF_CC_KSB(ctx, i)	(((const uint8_t *)(ctx)->ks)[i])
#define VF_CC_POS(n, ks_len)	(CHACHA_BLOCK_LEN * (n) - (ks_len))
/* I(ctx) through the ghost byte index vf_cc_i (any value): */
static size_t vf_cc_i;
#define VF_CC_STR_INV(ctx)								\
	((ctx)->ks_len < CHACHA_BLOCK_LEN && vf_cc_n <= VF_CC_MAXBLK &&			\
	 ((ctx)->ks_len == 0 || vf_cc_n >= 1) &&					\
	 (!(vf_cc_i < CHACHA_BLOCK_LEN && vf_cc_i >= CHACHA_BLOCK_LEN - (ctx)->ks_len) ||	\
	  VF_CC_KSB(ctx, vf_cc_i) == VF_CC_SER(vf_cc_log[vf_cc_n - 1].x, vf_cc_i)))
#define VF_CC_INV_AT(ctx, i)	((i) < CHACHA_BLOCK_LEN - (ctx)->ks_len ||					\
				 VF_CC_KSB(ctx, (i)) == VF_CC_SER(vf_cc_log[vf_cc_n - 1].x, (i)))
#define VF_CC_INV_REQ8(b)	__CPROVER_requires(ctx->ks_len == 0 || (					\
	VF_CC_INV_AT(ctx, (b)) && VF_CC_INV_AT(ctx, (b) + 1) && VF_CC_INV_AT(ctx, (b) + 2) && VF_CC_INV_AT(ctx, (b) + 3) && \
	VF_CC_INV_AT(ctx, (b) + 4) && VF_CC_INV_AT(ctx, (b) + 5) && VF_CC_INV_AT(ctx, (b) + 6) && VF_CC_INV_AT(ctx, (b) + 7)))
#define VF_CC_LOGJ_OLD(w)	__CPROVER_old(vf_cc_log[vf_cc_j < VF_CC_MAXBLK ? vf_cc_j : 0].x[w])
#define VF_CC_LOG_KEEP(w)	(vf_cc_log[vf_cc_j].x[w] == VF_CC_LOGJ_OLD(w))

static inline void
chacha_str_data_crypt(chacha_context_str_p ctx, const uint8_t *src, size_t bytes, uint8_t *dst)
__CPROVER_requires(__CPROVER_w_ok(ctx, sizeof(chacha_context_str_t)))
__CPROVER_requires(VF_CC_ROUNDS_OK(ctx->c.rounds))
__CPROVER_requires(bytes <= VF_CC_MAX_BYTES)
__CPROVER_requires(bytes == 0 || src == NULL || __CPROVER_r_ok(src, bytes))
__CPROVER_requires(bytes == 0 || __CPROVER_w_ok(dst, bytes))
/* I(ctx) is ASSUMED here, so it is written out for every byte index (a ghost index only
 * works on the proving side); the ensures side below uses the ghost index vf_cc_i */
__CPROVER_requires(ctx->ks_len < CHACHA_BLOCK_LEN && vf_cc_n <= VF_CC_MAXBLK && (ctx->ks_len == 0 || vf_cc_n >= 1))
VF_CC_INV_REQ8(0) VF_CC_INV_REQ8(8) VF_CC_INV_REQ8(16) VF_CC_INV_REQ8(24)
VF_CC_INV_REQ8(32) VF_CC_INV_REQ8(40) VF_CC_INV_REQ8(48) VF_CC_INV_REQ8(56)
__CPROVER_requires((VF_CC_POS(vf_cc_n, ctx->ks_len) + bytes + CHACHA_BLOCK_LEN - 1) / CHACHA_BLOCK_LEN <= VF_CC_MAXBLK)
__CPROVER_assigns(vf_cc_n, __CPROVER_object_whole(vf_cc_log))
__CPROVER_assigns(bytes != 0: __CPROVER_object_upto(ctx->c.x, CHACHA_BLOCK_LEN), ctx->c.state[12], ctx->c.state[13])
__CPROVER_assigns(bytes != 0: ctx->ks_len, __CPROVER_object_upto(ctx->ks, CHACHA_BLOCK_LEN))
__CPROVER_assigns(bytes != 0: __CPROVER_object_upto(dst, bytes))
/* (S1) */
__CPROVER_ensures(vf_cc_k < bytes ==>
    dst[vf_cc_k] == (uint8_t)(VF_CC_SRCK_OLD(src, vf_cc_k, bytes) ^
	VF_CC_SER(vf_cc_log[(VF_CC_POS(__CPROVER_old(vf_cc_n), __CPROVER_old(ctx->ks_len)) + vf_cc_k) / CHACHA_BLOCK_LEN].x,
	    (VF_CC_POS(__CPROVER_old(vf_cc_n), __CPROVER_old(ctx->ks_len)) + vf_cc_k) % CHACHA_BLOCK_LEN)))
/* (S2) */
__CPROVER_ensures(VF_CC_POS(vf_cc_n, ctx->ks_len) ==
    VF_CC_POS(__CPROVER_old(vf_cc_n), __CPROVER_old(ctx->ks_len)) + bytes)
__CPROVER_ensures(VF_CC_STR_INV(ctx))
/* (S3) */
__CPROVER_ensures(vf_cc_n >= __CPROVER_old(vf_cc_n))
__CPROVER_ensures((__CPROVER_old(vf_cc_n) <= vf_cc_j && vf_cc_j < vf_cc_n) ==>
    VF_CC_STATE_AT(vf_cc_log[vf_cc_j].st, ctx->c.state,
	__CPROVER_old(ctx->c.state[12]), __CPROVER_old(ctx->c.state[13]), vf_cc_j - __CPROVER_old(vf_cc_n)))
__CPROVER_ensures(vf_chacha_counter(ctx->c.state) ==
    (uint64_t)(((uint64_t)__CPROVER_old(ctx->c.state[12]) | ((uint64_t)__CPROVER_old(ctx->c.state[13]) << 32)) +
    (uint64_t)(vf_cc_n - __CPROVER_old(vf_cc_n))))
/* (S4) */
__CPROVER_ensures(vf_cc_j < __CPROVER_old(vf_cc_n) ==>
    (VF_CC_LOG_KEEP(0) && VF_CC_LOG_KEEP(1) && VF_CC_LOG_KEEP(2) && VF_CC_LOG_KEEP(3) &&
     VF_CC_LOG_KEEP(4) && VF_CC_LOG_KEEP(5) && VF_CC_LOG_KEEP(6) && VF_CC_LOG_KEEP(7) &&
     VF_CC_LOG_KEEP(8) && VF_CC_LOG_KEEP(9) && VF_CC_LOG_KEEP(10) && VF_CC_LOG_KEEP(11) &&
     VF_CC_LOG_KEEP(12) && VF_CC_LOG_KEEP(13) && VF_CC_LOG_KEEP(14) && VF_CC_LOG_KEEP(15)))
;
#endif /* VF_CC_GHOST_LOG */

/* ---- one-shot chacha() / xchacha(): set-up, one stream call, wipe ----
 * chacha_str_init / xchacha_str_init (abstract, above), chacha_str_data_crypt and
 * chacha_str_final are replaced by their contracts.  Output byte k is source byte k xor byte
 * k mod 64 of block k / 64, block j computed from the established initial state advanced by
 * j; nothing but dst is written (the context is a local, wiped before return). */
#if defined(VF_CC_GHOST_LOG) && defined(VF_CC_INIT_ABSTRACT)
#define VF_CC_NBLK(bytes)	(((bytes) + CHACHA_BLOCK_LEN - 1) / CHACHA_BLOCK_LEN)
#define VF_CC_ONESHOT_CONTRACT(fn, ivlen)						\
static inline void fn(const uint8_t *key, const size_t key_size, const uint8_t *counter,	\
    const uint8_t *iv, const size_t rounds, const uint8_t *src, const size_t bytes, uint8_t *dst) \
__CPROVER_requires(VF_CC_KEY_SIZE_OK(key_size))						\
__CPROVER_requires(__CPROVER_r_ok(key, VF_CC_KEY_BYTES(key_size)))			\
__CPROVER_requires(VF_CC_OPT_R(counter, 8) && VF_CC_OPT_R(iv, ivlen))			\
__CPROVER_requires(VF_CC_ROUNDS_OK(rounds))						\
__CPROVER_requires(bytes <= VF_CC_MAX_BYTES)						\
__CPROVER_requires(bytes == 0 || src == NULL || __CPROVER_r_ok(src, bytes))		\
__CPROVER_requires(bytes == 0 || __CPROVER_w_ok(dst, bytes))				\
__CPROVER_requires(vf_cc_n <= VF_CC_MAXBLK && VF_CC_NBLK(bytes) <= VF_CC_MAXBLK - vf_cc_n)	\
__CPROVER_assigns(vf_cc_n, __CPROVER_object_whole(vf_cc_log), __CPROVER_object_whole(vf_cc_st0)) \
__CPROVER_assigns(bytes != 0: __CPROVER_object_upto(dst, bytes))			\
__CPROVER_ensures(vf_cc_n == __CPROVER_old(vf_cc_n) + VF_CC_NBLK(bytes))		\
__CPROVER_ensures(vf_cc_k < bytes ==>							\
    dst[vf_cc_k] == (uint8_t)(VF_CC_SRCK_OLD(src, vf_cc_k, bytes) ^			\
	VF_CC_SER(vf_cc_log[__CPROVER_old(vf_cc_n) + vf_cc_k / CHACHA_BLOCK_LEN].x, vf_cc_k % CHACHA_BLOCK_LEN))) \
__CPROVER_ensures(vf_cc_j < VF_CC_NBLK(bytes) ==>					\
    VF_CC_STATE_AT(vf_cc_log[__CPROVER_old(vf_cc_n) + vf_cc_j].st, vf_cc_st0, vf_cc_st0[12], vf_cc_st0[13], vf_cc_j)) \
;
VF_CC_ONESHOT_CONTRACT(chacha, CHACHA_IV_LEN)
VF_CC_ONESHOT_CONTRACT(xchacha, XCHACHA_IV_LEN)
#endif
#endif /* !VF_REPLAY */
#endif
