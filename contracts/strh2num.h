/* Contracts for include/utils/strh2num.h: read-only scan of exactly the given span. */
#ifndef VF_CONTRACTS_STRH2NUM_H
#define VF_CONTRACTS_STRH2NUM_H
#include "vf/vf.h"
#ifndef VF_REPLAY
#define VF_STRH2NUM_CONTRACT(fn, RT, CT)					\
static inline RT fn(const CT *str, const size_t str_len)		\
__CPROVER_requires(str == NULL || str_len == 0 || __CPROVER_is_fresh(str, str_len)) \
__CPROVER_assigns()							\
__CPROVER_ensures((str == NULL || str_len == 0) ==> __CPROVER_return_value == 0) \
;
VF_STRH2NUM_CONTRACT(strh2usize, size_t, char)
VF_STRH2NUM_CONTRACT(ustrh2usize, size_t, uint8_t)
VF_STRH2NUM_CONTRACT(strh2u8, uint8_t, char)
VF_STRH2NUM_CONTRACT(ustrh2u8, uint8_t, uint8_t)
VF_STRH2NUM_CONTRACT(strh2u16, uint16_t, char)
VF_STRH2NUM_CONTRACT(ustrh2u16, uint16_t, uint8_t)
VF_STRH2NUM_CONTRACT(strh2u32, uint32_t, char)
VF_STRH2NUM_CONTRACT(ustrh2u32, uint32_t, uint8_t)
VF_STRH2NUM_CONTRACT(strh2u64, uint64_t, char)
VF_STRH2NUM_CONTRACT(ustrh2u64, uint64_t, uint8_t)
VF_STRH2NUM_CONTRACT(strh2ssize, ssize_t, char)
VF_STRH2NUM_CONTRACT(ustrh2ssize, ssize_t, uint8_t)
VF_STRH2NUM_CONTRACT(strh2s8, int8_t, char)
VF_STRH2NUM_CONTRACT(ustrh2s8, int8_t, uint8_t)
VF_STRH2NUM_CONTRACT(strh2s16, int16_t, char)
VF_STRH2NUM_CONTRACT(ustrh2s16, int16_t, uint8_t)
VF_STRH2NUM_CONTRACT(strh2s32, int32_t, char)
VF_STRH2NUM_CONTRACT(ustrh2s32, int32_t, uint8_t)
VF_STRH2NUM_CONTRACT(strh2s64, int64_t, char)
VF_STRH2NUM_CONTRACT(ustrh2s64, int64_t, uint8_t)
#endif
#endif
