/*
 * Contract for include/proto/dhcpv4.h dhcp4_hdr_check (property C13).
 * Redeclaration only; include BEFORE "proto/dhcpv4.h".
 * (dhcpv4.h has no option walker: dhcp4_hdr_check is the only function that takes received
 * bytes; dhcp4_static_init fills a name table from constants.)
 *
 * Input model: buf is NULL or an exact-size span of buf_size hostile bytes; buf_size symbolic
 * (0 <= buf_size <= VF_DHCP4_PKT_MAX), every byte unconstrained.
 */
#ifndef VF_CONTRACTS_DHCPV4_H
#define VF_CONTRACTS_DHCPV4_H
#include "vf/vf.h"
#include <sys/types.h>
#include <errno.h>

#ifndef VF_DHCP4_PKT_MAX
#define VF_DHCP4_PKT_MAX	(((size_t)1) << 48)
#endif
#define VF_DHCP4_HDR_SIZE	((size_t)240)	/* sizeof(dhcp4_hdr_t): BOOTP header + magic cookie */
#define VF_DHCP4_B(buf, i)	(((const uint8_t *)(buf))[(i)])
/* what "accepted" means, byte by byte (RFC 2131 section 2, RFC 1497 cookie 99.130.83.99) */
#define VF_DHCP4_ACCEPTED(buf)							\
	((VF_DHCP4_B(buf, 0) == 1 || VF_DHCP4_B(buf, 0) == 2) &&		\
	 1 <= VF_DHCP4_B(buf, 1) && VF_DHCP4_B(buf, 1) <= 38 &&		\
	 VF_DHCP4_B(buf, 2) <= 16 &&						\
	 VF_DHCP4_B(buf, 236) == 0x63 && VF_DHCP4_B(buf, 237) == 0x82 &&	\
	 VF_DHCP4_B(buf, 238) == 0x53 && VF_DHCP4_B(buf, 239) == 0x63)

#ifndef VF_REPLAY
static inline int
dhcp4_hdr_check(const void *buf, const size_t buf_size)
__CPROVER_requires(buf_size <= VF_DHCP4_PKT_MAX)
__CPROVER_requires(buf == NULL || __CPROVER_is_fresh(buf, buf_size))
__CPROVER_assigns()
__CPROVER_ensures(__CPROVER_return_value == 0 || __CPROVER_return_value == EINVAL ||
    __CPROVER_return_value == EBADMSG)
/* no packet / shorter than the fixed header: refused without reading a byte past it */
__CPROVER_ensures((__CPROVER_return_value == EINVAL) == (buf == NULL || buf_size < VF_DHCP4_HDR_SIZE))
/* accepted <=> op, htype, hlen, cookie are well formed: the fixed header lies inside the packet,
 * chaddr[0..hlen) lies inside chaddr[16] */
__CPROVER_ensures((buf != NULL && buf_size >= VF_DHCP4_HDR_SIZE) ==>
    ((__CPROVER_return_value == 0) == VF_DHCP4_ACCEPTED(buf)))
;
#endif
#endif
