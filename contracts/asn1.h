/* Contract for include/utils/asn1.h asn_parse (C12): reads only buf[0..buf_size), writes only
 * the out-parameters; on success header and data lie inside the buffer. */
#ifndef VF_CONTRACTS_ASN1_H
#define VF_CONTRACTS_ASN1_H
#include "vf/vf.h"
#include <errno.h>
#ifndef VF_ASN_MAX
#define VF_ASN_MAX ((size_t)1 << 62)
#endif
#ifndef VF_REPLAY
static inline int
asn_parse(uint8_t *buf, size_t buf_size, size_t *offset, size_t *hdr_size,
    uint8_t *aclass, uint8_t *ps, size_t *atag, uint8_t **data, size_t *data_size)
__CPROVER_requires(buf_size <= VF_ASN_MAX)
__CPROVER_requires(buf == NULL || buf_size == 0 || __CPROVER_is_fresh(buf, buf_size))
__CPROVER_requires(offset == NULL || __CPROVER_is_fresh(offset, sizeof(size_t)))
__CPROVER_requires(hdr_size == NULL || __CPROVER_is_fresh(hdr_size, sizeof(size_t)))
__CPROVER_requires(aclass == NULL || __CPROVER_is_fresh(aclass, 1))
__CPROVER_requires(ps == NULL || __CPROVER_is_fresh(ps, 1))
__CPROVER_requires(atag == NULL || __CPROVER_is_fresh(atag, sizeof(size_t)))
__CPROVER_requires(data == NULL || __CPROVER_is_fresh(data, sizeof(uint8_t *)))
__CPROVER_requires(data_size == NULL || __CPROVER_is_fresh(data_size, sizeof(size_t)))
__CPROVER_assigns(offset != NULL: *offset; hdr_size != NULL: *hdr_size; aclass != NULL: *aclass;
    ps != NULL: *ps; atag != NULL: *atag; data != NULL: *data; data_size != NULL: *data_size)
/* the element (header + data) lies inside the buffer */
__CPROVER_ensures((__CPROVER_return_value == 0 && offset != NULL) ==>
    (*offset <= buf_size && *offset > __CPROVER_old(*offset)))
__CPROVER_ensures((__CPROVER_return_value == 0 && data != NULL && data_size != NULL) ==>
    VF_INSIDE(*data, *data_size, buf, buf_size))
__CPROVER_ensures((__CPROVER_return_value == 0 && data != NULL) ==> VF_PTR_INSIDE(*data, buf, buf_size))
__CPROVER_ensures((__CPROVER_return_value == 0 && hdr_size != NULL) ==> (*hdr_size >= 2 && *hdr_size <= buf_size))
__CPROVER_ensures((__CPROVER_return_value != 0 && offset != NULL) ==> *offset == __CPROVER_old(*offset))
;
#endif
#endif
