/*
 * Contracts for include/crypto/hash/md5.h (C04: MD5 == RFC 1321; C07: HMAC-MD5 == RFC 2104).
 * Redeclarations only; the header is compiled unmodified, with the SIMD macros removed
 * exactly as tests/hash/main.c does.  Ghost vocabulary: stubs/hash_ghost.h.
 *
 * Build modes (job "defines"):
 *   (none)                 md5_transform carries contract T (== vf_md5_compress, RFC 1321 3.4)
 *   VF_TRANSFORM_LOG       md5_transform carries the block-logging contract used when it is
 *                          REPLACED inside md5_update / md5_final (contracts U and F)
 *   VF_HASH_STREAM         md5_init/_update/_final carry the byte-stream contracts used when
 *                          they are REPLACED inside hmac_md5_* and the one-shot entry points
 *   VF_U_NMAX=n            contract U, content half: the data object has exactly n bytes and
 *                          data_size <= n (bounded); without it data is an exact span of
 *                          unbounded symbolic length
 *   VF_T_ALIAS             contract T for the call shape md5_transform(ctx, ctx->buffer)
 */
#ifndef VF_CONTRACTS_MD5_H
#define VF_CONTRACTS_MD5_H
#include "vf/vf.h"
#include "stubs/hash_ghost.h"
#include "specs/md5_spec.h"
#undef __SSE2__
#include "crypto/hash/md5.h"
#include "stubs/hash_libc.h"

#ifndef VF_REPLAY

#define VF_MD5_B	64
#define VF_MD5_CTXBUF(ctx)	((const uint8_t *)(ctx)->buffer)

/* ------------------------------------------------------------------ T / LOG ---- */
#ifndef VF_TRANSFORM_LOG
static inline _Bool
vf_md5_T_post(uint32_t h0, uint32_t h1, uint32_t h2, uint32_t h3, const uint8_t *block,
    const uint32_t *now) {
	uint32_t e[4];
	e[0] = h0; e[1] = h1; e[2] = h2; e[3] = h3;
	vf_md5_compress(e, block);
	return (now[0] == e[0] && now[1] == e[1] && now[2] == e[2] && now[3] == e[3]);
}

/* T: one call == one application of the RFC 1321 block function to ctx->hash */
static inline void
md5_transform(md5_ctx_p ctx, const uint8_t *block)
__CPROVER_requires(__CPROVER_is_fresh(ctx, sizeof(md5_ctx_t)))
#ifdef VF_T_ALIAS
__CPROVER_requires(block == (const uint8_t *)ctx->buffer)
#else
__CPROVER_requires(__CPROVER_r_ok(block, VF_MD5_B))
#endif
__CPROVER_assigns(__CPROVER_object_upto(ctx->hash, sizeof(ctx->hash)))
/* scratch: the unaligned path copies the block into ctx->buffer */
__CPROVER_assigns((((size_t)block) & 3) != 0: __CPROVER_object_upto(ctx->buffer, sizeof(ctx->buffer)))
__CPROVER_ensures(vf_md5_T_post(__CPROVER_old(ctx->hash[0]), __CPROVER_old(ctx->hash[1]),
    __CPROVER_old(ctx->hash[2]), __CPROVER_old(ctx->hash[3]), block, ctx->hash))
;
#else /* VF_TRANSFORM_LOG */
/* LOG: the abstraction of T used inside U and F: appends the 64-byte block to the ghost
 * block log, leaves an arbitrary chaining value (recorded in vf_blk_h), may clobber the
 * scratch buffer on the unaligned path.  Preconditions are asserted at every call site. */
static inline void
md5_transform(md5_ctx_p ctx, const uint8_t *block)
__CPROVER_requires(__CPROVER_w_ok(ctx, sizeof(md5_ctx_t)))
__CPROVER_requires(__CPROVER_r_ok(block, VF_MD5_B))
__CPROVER_assigns(__CPROVER_object_upto(ctx->hash, sizeof(ctx->hash)))
__CPROVER_assigns((((size_t)block) & 3) != 0: __CPROVER_object_upto(ctx->buffer, sizeof(ctx->buffer)))
__CPROVER_assigns(vf_blk_len, vf_blk_at, __CPROVER_object_whole(vf_blk_h))
__CPROVER_ensures(vf_blk_len == __CPROVER_old(vf_blk_len) + VF_MD5_B)
__CPROVER_ensures(vf_blk_at ==
    ((vf_blk_k >= __CPROVER_old(vf_blk_len) && vf_blk_k - __CPROVER_old(vf_blk_len) < VF_MD5_B) ?
	__CPROVER_old(block[(vf_blk_k - vf_blk_len) & (VF_MD5_B - 1)]) : __CPROVER_old(vf_blk_at)))
__CPROVER_ensures(ctx->hash[0] == (uint32_t)vf_blk_h[0] && ctx->hash[1] == (uint32_t)vf_blk_h[1] &&
    ctx->hash[2] == (uint32_t)vf_blk_h[2] && ctx->hash[3] == (uint32_t)vf_blk_h[3])
;
#endif

/* ------------------------------------------------------------------ U / F ------ */
#ifndef VF_HASH_STREAM

/* I: RFC 1321 3.3 initial value, nothing absorbed yet */
static inline void
md5_init(md5_ctx_p ctx)
__CPROVER_requires(__CPROVER_is_fresh(ctx, sizeof(md5_ctx_t)))
__CPROVER_assigns(ctx->count, __CPROVER_object_upto(ctx->hash, sizeof(ctx->hash)))
__CPROVER_ensures(ctx->hash[0] == VF_MD5_IV0 && ctx->hash[1] == VF_MD5_IV1 &&
    ctx->hash[2] == VF_MD5_IV2 && ctx->hash[3] == VF_MD5_IV3 && ctx->count == 0)
;

/* U entry tail length and what the call feeds to the compression function */
#define VF_MD5_T0(ctx)		((size_t)(__CPROVER_old((ctx)->count) & (VF_MD5_B - 1)))
#define VF_MD5_FED(ctx, n)	((VF_MD5_T0(ctx) + (n)) & ~(size_t)(VF_MD5_B - 1))
/* position of the ghost index relative to the log length at entry */
#define VF_BLK_J		(vf_blk_k - __CPROVER_old(vf_blk_len))
#define VF_BLK_IN(fed)		(vf_blk_k >= __CPROVER_old(vf_blk_len) && VF_BLK_J < (fed))
/* byte of the entry tail under the ghost index (evaluated in the pre-state) */
#define VF_MD5_OLDTAIL(ctx)	__CPROVER_old(((const uint8_t *)(ctx)->buffer)[(vf_blk_k - vf_blk_len) & (VF_MD5_B - 1)])

static inline void
md5_update(md5_ctx_p ctx, const uint8_t *data, const size_t data_size)
__CPROVER_requires(__CPROVER_is_fresh(ctx, sizeof(md5_ctx_t)))
#ifdef VF_TAIL	/* case split on the entry tail length (one harness per value) */
__CPROVER_requires((ctx->count & (VF_MD5_B - 1)) == VF_TAIL)
#endif
#ifdef VF_U_NMAX
__CPROVER_requires(data_size <= VF_U_NMAX && __CPROVER_is_fresh(data, VF_U_NMAX))
#elif defined(VF_U_NSAFE)	/* exact span, bounded length */
__CPROVER_requires(data_size <= VF_U_NSAFE && (data_size == 0 || __CPROVER_is_fresh(data, data_size)))
#else
__CPROVER_requires(data_size == 0 || __CPROVER_is_fresh(data, data_size))
#endif
__CPROVER_assigns(ctx->count, __CPROVER_object_upto(ctx->hash, sizeof(ctx->hash)),
    __CPROVER_object_upto(ctx->buffer, sizeof(ctx->buffer)))
__CPROVER_assigns(vf_blk_len, vf_blk_at, __CPROVER_object_whole(vf_blk_h))
/* length accounting */
__CPROVER_ensures(ctx->count == __CPROVER_old(ctx->count) + data_size)
/* exactly the complete blocks of tail || data are fed, in order, nothing else */
__CPROVER_ensures(vf_blk_len == __CPROVER_old(vf_blk_len) + VF_MD5_FED(ctx, data_size))
#ifndef VF_U_NOCONTENT	/* content half (which byte lands where) */
__CPROVER_ensures(VF_BLK_IN(VF_MD5_FED(ctx, data_size)) ==>
    vf_blk_at == ((VF_BLK_J < VF_MD5_T0(ctx)) ? VF_MD5_OLDTAIL(ctx) : data[VF_BLK_J - VF_MD5_T0(ctx)]))
__CPROVER_ensures(!VF_BLK_IN(VF_MD5_FED(ctx, data_size)) ==> vf_blk_at == __CPROVER_old(vf_blk_at))
/* the new tail is the rest of tail || data */
__CPROVER_ensures(vf_t_k < ((VF_MD5_T0(ctx) + data_size) & (VF_MD5_B - 1)) ==>
    VF_MD5_CTXBUF(ctx)[vf_t_k] ==
	((VF_MD5_FED(ctx, data_size) + vf_t_k < VF_MD5_T0(ctx)) ?
	    __CPROVER_old(((const uint8_t *)ctx->buffer)[vf_t_k & (VF_MD5_B - 1)]) :
	    data[VF_MD5_FED(ctx, data_size) + vf_t_k - VF_MD5_T0(ctx)]))
#endif
/* chaining value: untouched without a complete block, else whatever the last transform left */
__CPROVER_ensures(VF_MD5_FED(ctx, data_size) == 0 ==>
    (ctx->hash[0] == __CPROVER_old(ctx->hash[0]) && ctx->hash[1] == __CPROVER_old(ctx->hash[1]) &&
     ctx->hash[2] == __CPROVER_old(ctx->hash[2]) && ctx->hash[3] == __CPROVER_old(ctx->hash[3])))
__CPROVER_ensures(VF_MD5_FED(ctx, data_size) != 0 ==>
    (ctx->hash[0] == (uint32_t)vf_blk_h[0] && ctx->hash[1] == (uint32_t)vf_blk_h[1] &&
     ctx->hash[2] == (uint32_t)vf_blk_h[2] && ctx->hash[3] == (uint32_t)vf_blk_h[3]))
;

/* F: RFC 1321 3.1/3.2 padding of the tail, 3.5 output, wipe */
#define VF_MD5_FFED(ctx)	((VF_MD5_T0(ctx) > VF_MD5_B - 9) ? (size_t)(2 * VF_MD5_B) : (size_t)VF_MD5_B)
static inline void
md5_final(md5_ctx_p ctx, uint8_t *digest)
__CPROVER_requires(__CPROVER_is_fresh(ctx, sizeof(md5_ctx_t)))
#ifdef VF_TAIL
__CPROVER_requires((ctx->count & (VF_MD5_B - 1)) == VF_TAIL)
#endif
__CPROVER_requires(__CPROVER_is_fresh(digest, MD5_HASH_SIZE))
__CPROVER_assigns(__CPROVER_object_whole(ctx), __CPROVER_object_upto(digest, MD5_HASH_SIZE))
__CPROVER_assigns(vf_blk_len, vf_blk_at, __CPROVER_object_whole(vf_blk_h))
/* one block if the tail leaves room for 0x80 and the 8 length bytes (tail <= 55), else two */
__CPROVER_ensures(vf_blk_len == __CPROVER_old(vf_blk_len) + VF_MD5_FFED(ctx))
/* fed bytes == tail || 0x80 || 0...0 || bit length, low-order byte first (RFC 1321 3.2) */
__CPROVER_ensures(VF_BLK_IN(VF_MD5_FFED(ctx)) ==> vf_blk_at == (
    (VF_BLK_J < VF_MD5_T0(ctx)) ? VF_MD5_OLDTAIL(ctx) :
    (VF_BLK_J == VF_MD5_T0(ctx)) ? (uint8_t)0x80 :
    (VF_BLK_J < VF_MD5_FFED(ctx) - 8) ? (uint8_t)0x00 :
    VF_BYTE_LE(__CPROVER_old(ctx->count) << 3, VF_BLK_J - (VF_MD5_FFED(ctx) - 8))))
__CPROVER_ensures(!VF_BLK_IN(VF_MD5_FFED(ctx)) ==> vf_blk_at == __CPROVER_old(vf_blk_at))
/* digest == A,B,C,D low-order byte first (RFC 1321 3.5) of the final chaining value */
__CPROVER_ensures(vf_d_k < MD5_HASH_SIZE ==>
    digest[vf_d_k] == VF_BYTE_LE(vf_blk_h[vf_d_k >> 2], vf_d_k & 3))
/* every byte of the context is zero on return */
__CPROVER_ensures(vf_c_k < sizeof(md5_ctx_t) ==> ((const uint8_t *)ctx)[vf_c_k] == 0)
;

#else /* VF_HASH_STREAM ------------------------------------------------ STREAM -- */
/* The abstract hash used inside HMAC and the one-shot entry points.  These contracts are
 * U/F seen through the representation relation  count == vf_s_len, tail == last
 * (vf_s_len mod 64) stream bytes, block log == the rest  (DESIGN.md, C07). */
static inline void
md5_init(md5_ctx_p ctx)
__CPROVER_requires(__CPROVER_w_ok(ctx, sizeof(md5_ctx_t)))
__CPROVER_assigns(__CPROVER_object_upto(ctx, sizeof(md5_ctx_t)))
__CPROVER_assigns(vf_s_len, vf_s_open, vf_s_ctx)
__CPROVER_ensures(vf_s_len == 0 && vf_s_open == 1 && vf_s_ctx == ctx)
;
static inline void
md5_update(md5_ctx_p ctx, const uint8_t *data, const size_t data_size)
__CPROVER_requires(__CPROVER_w_ok(ctx, sizeof(md5_ctx_t)))
__CPROVER_requires(vf_s_open == 1 && vf_s_ctx == ctx)
__CPROVER_requires(data_size == 0 || __CPROVER_r_ok(data, data_size))
__CPROVER_assigns(__CPROVER_object_upto(ctx, sizeof(md5_ctx_t)))
__CPROVER_assigns(vf_s_len, vf_s_at)
__CPROVER_ensures(vf_s_len == __CPROVER_old(vf_s_len) + data_size)
__CPROVER_ensures(vf_s_at ==
    ((vf_s_k >= __CPROVER_old(vf_s_len) && vf_s_k - __CPROVER_old(vf_s_len) < data_size) ?
	data[vf_s_k - __CPROVER_old(vf_s_len)] : __CPROVER_old(vf_s_at)))
;
static inline void
md5_final(md5_ctx_p ctx, uint8_t *digest)
__CPROVER_requires(__CPROVER_w_ok(ctx, sizeof(md5_ctx_t)))
__CPROVER_requires(vf_s_open == 1 && vf_s_ctx == ctx)
__CPROVER_requires(__CPROVER_w_ok(digest, MD5_HASH_SIZE))
__CPROVER_requires(vf_d_n < VF_D_MAX)
__CPROVER_assigns(__CPROVER_object_upto(ctx, sizeof(md5_ctx_t)), __CPROVER_object_upto(digest, MD5_HASH_SIZE))
__CPROVER_assigns(vf_s_open, vf_d_n, vf_d_len[vf_d_n], vf_d_at[vf_d_n], vf_d_size[vf_d_n], vf_d_dig[vf_d_n])
__CPROVER_ensures(vf_s_open == 0 && vf_d_n == __CPROVER_old(vf_d_n) + 1)
__CPROVER_ensures(vf_d_len[__CPROVER_old(vf_d_n)] == vf_s_len && vf_d_at[__CPROVER_old(vf_d_n)] == vf_s_at &&
    vf_d_size[__CPROVER_old(vf_d_n)] == MD5_HASH_SIZE)
__CPROVER_ensures(vf_d_k < MD5_HASH_SIZE ==> digest[vf_d_k] == vf_d_dig[__CPROVER_old(vf_d_n)])
__CPROVER_ensures(vf_c_k < sizeof(md5_ctx_t) ==> ((const uint8_t *)ctx)[vf_c_k] == 0)
;

/* ---- C07: HMAC-MD5 (RFC 2104); B = 64, digest 16 bytes ---- */
static inline void
hmac_md5_init(const uint8_t *key, const size_t key_len, hmac_md5_ctx_p hctx)
__CPROVER_requires(__CPROVER_is_fresh(hctx, sizeof(hmac_md5_ctx_t)))
__CPROVER_requires(VF_KEY_FRESH(key, key_len))
__CPROVER_requires(vf_d_n == 0)
__CPROVER_assigns(__CPROVER_object_whole(hctx))
VF_STREAM_GHOST_ASSIGNS
VF_HMAC_INIT_POST(key, key_len, hctx, VF_MD5_B, MD5_HASH_SIZE)
;
static inline void
hmac_md5_update(hmac_md5_ctx_p hctx, const uint8_t *data, const size_t data_size)
__CPROVER_requires(__CPROVER_is_fresh(hctx, sizeof(hmac_md5_ctx_t)))
__CPROVER_requires(data_size == 0 || __CPROVER_is_fresh(data, data_size))
__CPROVER_requires(vf_s_open == 1 && vf_s_ctx == &hctx->ctx)
/* only the hash context: k_opad is preserved by the frame */
__CPROVER_assigns(__CPROVER_object_upto(&hctx->ctx, sizeof(md5_ctx_t)), vf_s_len, vf_s_at)
__CPROVER_ensures(vf_s_open == 1 && vf_s_len == __CPROVER_old(vf_s_len) + data_size)
__CPROVER_ensures(vf_s_at ==
    ((vf_s_k >= __CPROVER_old(vf_s_len) && vf_s_k - __CPROVER_old(vf_s_len) < data_size) ?
	data[vf_s_k - __CPROVER_old(vf_s_len)] : __CPROVER_old(vf_s_at)))
;
static inline void
hmac_md5_final(hmac_md5_ctx_p hctx, uint8_t *digest)
__CPROVER_requires(__CPROVER_is_fresh(hctx, sizeof(hmac_md5_ctx_t)))
__CPROVER_requires(__CPROVER_is_fresh(digest, MD5_HASH_SIZE))
__CPROVER_requires(vf_s_open == 1 && vf_s_ctx == &hctx->ctx && vf_d_n <= 1)
__CPROVER_assigns(__CPROVER_object_whole(hctx), __CPROVER_object_upto(digest, MD5_HASH_SIZE))
VF_STREAM_GHOST_ASSIGNS
VF_HMAC_FINAL_POST(hctx, hmac_md5_ctx_t, digest, VF_MD5_B, MD5_HASH_SIZE)
;
static inline void
hmac_md5(const uint8_t *key, const size_t key_len, const uint8_t *data,
    const size_t data_size, uint8_t *digest)
__CPROVER_requires(VF_KEY_FRESH(key, key_len))
__CPROVER_requires(data_size == 0 || __CPROVER_is_fresh(data, data_size))
__CPROVER_requires(__CPROVER_is_fresh(digest, MD5_HASH_SIZE))
__CPROVER_requires(vf_d_n == 0)
__CPROVER_assigns(__CPROVER_object_upto(digest, MD5_HASH_SIZE))
VF_STREAM_GHOST_ASSIGNS
VF_HMAC_ONESHOT_POST(key, key_len, data, data_size, digest, VF_MD5_B, MD5_HASH_SIZE)
;
static inline void
md5_hmac_get_digest(const void *key, const size_t key_size,
    const void *data, const size_t data_size, uint8_t *digest)
__CPROVER_requires(VF_KEY_FRESH(key, key_size))
__CPROVER_requires(data_size == 0 || __CPROVER_is_fresh(data, data_size))
__CPROVER_requires(__CPROVER_is_fresh(digest, MD5_HASH_SIZE))
__CPROVER_requires(vf_d_n == 0)
__CPROVER_assigns(__CPROVER_object_upto(digest, MD5_HASH_SIZE))
VF_STREAM_GHOST_ASSIGNS
VF_HMAC_ONESHOT_POST(key, key_size, data, data_size, digest, VF_MD5_B, MD5_HASH_SIZE)
;
static inline void
md5_hmac_get_digest_str(const char *key, size_t key_size,
    const char *data, size_t data_size, char *digest_str)
__CPROVER_requires(VF_KEY_FRESH(key, key_size))
__CPROVER_requires(data_size == 0 || __CPROVER_is_fresh(data, data_size))
__CPROVER_requires(__CPROVER_is_fresh(digest_str, MD5_HASH_STR_SIZE + 1))
__CPROVER_requires(vf_d_n == 0)
__CPROVER_assigns(__CPROVER_object_upto(digest_str, MD5_HASH_STR_SIZE + 1))
VF_STREAM_GHOST_ASSIGNS
__CPROVER_ensures(vf_d_n == VF_HMAC_NK(key_size, VF_MD5_B) + 2)
VF_HEXSTR_POST(digest_str, MD5_HASH_SIZE, vf_d_dig[VF_HMAC_NK(key_size, VF_MD5_B) + 1])
;

/* ---- C04: one-shot and hex-string entry points ---- */
static inline void
md5_cvt_hex(const uint8_t *bin, uint8_t *hex)
__CPROVER_requires(__CPROVER_r_ok(bin, MD5_HASH_SIZE) && __CPROVER_w_ok(hex, MD5_HASH_STR_SIZE + 1))
__CPROVER_assigns(__CPROVER_object_upto(hex, MD5_HASH_STR_SIZE + 1))
VF_HEXSTR_POST(hex, MD5_HASH_SIZE, bin[vf_d_k])
;
static inline void
md5_get_digest(const void *data, const size_t data_size, uint8_t *digest)
__CPROVER_requires(data_size == 0 || __CPROVER_is_fresh(data, data_size))
__CPROVER_requires(__CPROVER_is_fresh(digest, MD5_HASH_SIZE))
__CPROVER_requires(vf_d_n == 0)
__CPROVER_assigns(__CPROVER_object_upto(digest, MD5_HASH_SIZE))
VF_STREAM_GHOST_ASSIGNS
VF_HASH_ONESHOT_POST(data, data_size, MD5_HASH_SIZE)
__CPROVER_ensures(vf_d_k < MD5_HASH_SIZE ==> digest[vf_d_k] == vf_d_dig[0])
;
static inline void
md5_get_digest_str(const char *data, const size_t data_size, char *digest_str)
__CPROVER_requires(data_size == 0 || __CPROVER_is_fresh(data, data_size))
__CPROVER_requires(__CPROVER_is_fresh(digest_str, MD5_HASH_STR_SIZE + 1))
__CPROVER_requires(vf_d_n == 0)
__CPROVER_assigns(__CPROVER_object_upto(digest_str, MD5_HASH_STR_SIZE + 1))
VF_STREAM_GHOST_ASSIGNS
VF_HASH_ONESHOT_POST(data, data_size, MD5_HASH_SIZE)
VF_HEXSTR_POST(digest_str, MD5_HASH_SIZE, vf_d_dig[0])
;
#endif /* VF_HASH_STREAM */

#endif /* !VF_REPLAY */
#endif
