/* Native replay runtime: feeds the verifier's counterexample values to a harness
 * compiled with -DVF_REPLAY (see vf.h). Value file: lines "<name> <hex bytes>". */
#include <stdio.h>
#include <stdlib.h>
#include <string.h>
#include <stdint.h>

static int
vf_lookup(const char *name, uint8_t *dst, size_t size) {
	const char *fn = getenv("VF_REPLAY_FILE");
	char line[1 << 16], key[256];
	FILE *f;
	size_t i, klen;

	if (fn == NULL || (f = fopen(fn, "r")) == NULL)
		return (0);
	snprintf(key, sizeof(key), "%s ", name);
	klen = strlen(key);
	while (fgets(line, sizeof(line), f) != NULL) {
		if (strncmp(line, key, klen) != 0)
			continue;
		const char *p = line + klen;
		for (i = 0; i < size; i ++) {
			unsigned v;
			if (sscanf(p + 2 * i, "%2x", &v) != 1)
				break;
			dst[i] = (uint8_t)v;
		}
		fclose(f);
		return (1);
	}
	fclose(f);
	return (0);
}

static uint64_t vf_rng_state;
static uint8_t
vf_rng_byte(void) {
	static const uint8_t interesting[] = " \r\n\t:=<>/&;\"'[]-+0129aAzZ.,%?#@\\\x00\x7f\x80\xff\xc0";
	vf_rng_state = vf_rng_state * 6364136223846793005ull + 1442695040888963407ull;
	uint32_t r = (uint32_t)(vf_rng_state >> 33);
	if ((r & 3) != 0)
		return (interesting[(r >> 2) % (sizeof(interesting) - 1)]);
	return ((uint8_t)(r >> 8));
}

void
vf_replay_get(const char *name, void *dst, size_t size) {
	memset(dst, 0, size);
	if (!vf_lookup(name, (uint8_t *)dst, size))
		fprintf(stderr, "REPLAY-NOTE no value for %s, using zero\n", name);
}

void *
vf_replay_alloc(const char *name, size_t size, int optional) {
	char key[256];
	uint8_t isnull = 0;
	uint8_t *p;
	size_t i;
	const char *att = getenv("VF_ATTEMPT");
	unsigned long attempt = (att != NULL) ? strtoul(att, NULL, 10) : 0;

	snprintf(key, sizeof(key), "%s.null", name);
	if (optional && vf_lookup(key, &isnull, 1) && isnull)
		return (NULL);
	if (size > (1u << 26)) {
		fprintf(stderr, "REPLAY-NOTE %s: size %zu too large for native replay\n", name, size);
		exit(78);
	}
	p = (uint8_t *)malloc(size);
	if (p == NULL && size != 0)
		exit(78);
	if (vf_lookup(name, p, size))
		return (p);
	/* Content of objects created by is_fresh() is not part of CBMC's trace:
	 * the replay searches contents (attempt number selects the fill). */
	vf_rng_state = 0x9e3779b97f4a7c15ull * (attempt + 1);
	for (i = 0; name[i] != 0; i ++)
		vf_rng_state = (vf_rng_state ^ (uint8_t)name[i]) * 1099511628211ull;
	for (i = 0; i < size; i ++) {
		switch (attempt) {
		case 0: p[i] = 0; break;
		case 1: p[i] = 0xff; break;
		case 2: p[i] = 'A'; break;
		case 3: p[i] = '1'; break;
		default: p[i] = vf_rng_byte(); break;
		}
	}
	return (p);
}

void
vf_replay_fail(const char *msg) {
	fprintf(stderr, "REPLAY-FAIL %s\n", msg);
	exit(1);
}
