#!/usr/bin/env python3
"""Confirm a seeded change delivered by a red-team sub-agent, independently:
   (1) patch applies to /repo HEAD in a scratch worktree, (2) test suite builds and passes there,
   (3) the demo passes on the unchanged tree and fails on the changed tree.
   On success copies it to /verif/seeded/<id>/ with meta.json extended by what was run.
   usage: confirm_mutant.py <mutant dir> <seeded id> [--skip-tests]"""
import json, os, shutil, subprocess, sys, tempfile, time
src, sid = os.path.abspath(sys.argv[1]), sys.argv[2]
skip_tests = "--skip-tests" in sys.argv
extra_cflags = []
if "--cflags" in sys.argv:
    extra_cflags = sys.argv[sys.argv.index("--cflags") + 1].split()
V = os.path.dirname(os.path.dirname(os.path.abspath(__file__)))
D = ("-D_GNU_SOURCE -D__USE_GNU=1 -DLINUX -DHAVE_EXPLICIT_BZERO -DHAVE_MEMMEM -DHAVE_MEMRCHR -DHAVE_REALLOCARRAY "
     "-DHAVE_STRNCASECMP -DHAVE_PIPE2 -DHAVE_ACCEPT4 -DHAVE_SOCK_CLOEXEC -DHAVE_SOCK_NONBLOCK").split()
def sh(cmd, cwd=None, timeout=1800):
    p = subprocess.run(cmd, cwd=cwd, capture_output=True, text=True, timeout=timeout)
    return p.returncode, (p.stdout + p.stderr)[-3000:]
wt = tempfile.mkdtemp(prefix="mutconf-"); os.rmdir(wt)
res = {"at": time.strftime("%Y-%m-%d %H:%M:%S"), "repo_head": sh(["git", "-C", "/repo", "rev-parse", "--short", "HEAD"])[1].strip()}
ok = False
try:
    rc, out = sh(["git", "-C", "/repo", "worktree", "add", "--detach", wt, "HEAD"])
    rc, out = sh(["git", "-C", wt, "apply", os.path.join(src, "patch.diff")])
    if rc != 0:
        print("PATCH DOES NOT APPLY", out); sys.exit(2)
    if not skip_tests:
        rc, out = sh(["cmake", "-G", "Ninja", "-B", "_build", "-S", ".", "-DENABLE_LIBLCB_TESTS=ON"], cwd=wt)
        rc, out = sh(["cmake", "--build", "_build"], cwd=wt)
        if rc != 0:
            print("BUILD FAILS WITH MUTANT", out[-800:]); sys.exit(2)
        rc, out = sh(["ctest", "--test-dir", "_build", "-j4", "--timeout", "900"], cwd=wt)
        tries = 1
        # test_threadpool is timing-sensitive on a loaded host (also fails now and then on the unchanged
        # tree under load): a failure counts only if it persists over three runs
        while rc != 0 and tries < 3:
            rc, out = sh(["ctest", "--test-dir", "_build", "--rerun-failed", "--timeout", "900"], cwd=wt)
            tries += 1
        res["ctest_with_change"] = ("passed" if rc == 0 else "FAILED") + (" (after %d runs)" % tries if tries > 1 else "")
        if rc != 0:
            print("TESTS CATCH THE MUTANT", out[-800:]); sys.exit(2)
    demo_files = [f for f in os.listdir(src) if f not in ("patch.diff", "meta.json")]
    import re
    meta0 = json.load(open(os.path.join(src, "meta.json")))
    # extra library sources the demo links (named in its demo_cmd as <root>/src/....c)
    extra_src = sorted(set(re.findall(r"(?:\$ROOT|<root>|\$\{ROOT\}|/tmp/mut-[A-Za-z0-9]+-wt)/(src/[A-Za-z0-9_/]+\.c)", str(meta0.get("demo_cmd", "")))))
    work = tempfile.mkdtemp(prefix="mutdemo-")
    outcome = {}
    parent = os.path.dirname(src)
    script_mode = None
    if os.path.exists(os.path.join(src, "demo.sh")):
        script_mode = "demo.sh"
    elif "build_demo.sh" in str(meta0.get("demo_cmd", "")) and (os.path.exists(os.path.join(parent, "build_demo.sh")) or os.path.exists(os.path.join(src, "build_demo.sh"))):
        script_mode = "build_demo.sh"
    for label, root in (("unchanged", "/repo"), ("changed", wt)):
        if script_mode:
            sub = os.path.join(work, label, "m"); os.makedirs(sub)
            for f in os.listdir(src):
                if f not in ("patch.diff",):
                    shutil.copy(os.path.join(src, f), sub)
            for f in os.listdir(parent):
                if os.path.isfile(os.path.join(parent, f)) and f.endswith((".sh", ".h", ".py", ".c")):
                    shutil.copy(os.path.join(parent, f), os.path.join(work, label))
            if script_mode == "demo.sh":
                cmdline = "sh demo.sh %s" % root
            else:
                cmdline = "sh %s %s demo.c ./demo_bin && ./demo_bin %s" % ("build_demo.sh" if os.path.exists(os.path.join(sub, "build_demo.sh")) else "../build_demo.sh", root, root)
            try:
                p = subprocess.run(["sh", "-c", cmdline], cwd=sub, capture_output=True, text=True, timeout=600)
                outcome[label] = p.returncode
            except subprocess.TimeoutExpired:
                outcome[label] = "timeout"
            continue
        for san in ([], ["-fsanitize=address,undefined", "-fno-sanitize-recover=all"]):
            for f in demo_files:
                shutil.copy(os.path.join(src, f), work)
            exe = os.path.join(work, "demo_" + label + ("_san" if san else ""))
            cmd = ["gcc", "-g", "-O1", "-w"] + extra_cflags + san + D + ["-I" + root + "/include", "-I" + root, "-I" + root + "/src",
                                                       os.path.join(work, "demo.c")] + [os.path.join(root, e) for e in extra_src] + ["-o", exe, "-lpthread", "-lm"]
            rc, out = sh(cmd, cwd=work)
            if rc != 0:
                outcome[label + ("_san" if san else "")] = "compile error: " + out[-300:]
                continue
            try:
                env = dict(os.environ); env["ASAN_OPTIONS"] = "detect_leaks=0"
                p = subprocess.run([exe, root], cwd=work, capture_output=True, text=True, timeout=300, env=env)
                outcome[label + ("_san" if san else "")] = p.returncode
            except subprocess.TimeoutExpired:
                outcome[label + ("_san" if san else "")] = "timeout"
    shutil.rmtree(work, ignore_errors=True)
    res["demo_exit"] = outcome
    good_unchanged = outcome.get("unchanged") == 0 or outcome.get("unchanged_san") == 0
    bad_unchanged = any(isinstance(outcome.get(k), int) and outcome.get(k) != 0 for k in ("unchanged", "unchanged_san"))
    fails_changed = any(outcome.get(k) not in (0, None) and not str(outcome.get(k)).startswith("compile") for k in ("changed", "changed_san"))
    if script_mode:
        good_unchanged = outcome.get("unchanged") == 0
        bad_unchanged = not good_unchanged
        fails_changed = outcome.get("changed") not in (0, None)
    ok = good_unchanged and not bad_unchanged and fails_changed
    print(sid, "demo:", outcome, "=> CONFIRMED" if ok else "=> NOT CONFIRMED")
    if ok:
        dst = os.path.join(V, "seeded", sid)
        shutil.rmtree(dst, ignore_errors=True)
        shutil.copytree(src, dst)
        m = json.load(open(os.path.join(dst, "meta.json")))
        m["confirmed_by_coordinator"] = res
        m["confirmed_by_coordinator"]["what_was_run"] = ("git apply patch.diff in a scratch worktree of /repo HEAD; cmake+ninja build of the 4 test programs and "
            "ctest there (all passed); demo built (gcc -O1 with and without ASan/UBSan, or the delivered demo.sh/build_demo.sh) against /repo (exit 0) and against the changed worktree (non-zero)")
        json.dump(m, open(os.path.join(dst, "meta.json"), "w"), indent=1)
finally:
    subprocess.run(["git", "-C", "/repo", "worktree", "remove", "--force", wt], capture_output=True)
    shutil.rmtree(wt, ignore_errors=True)
sys.exit(0 if ok else 1)
