/*
 * Common vocabulary for proof harnesses and contract files (DESIGN.md section 4).
 *
 * Two compilation modes:
 *   goto-cc (default)        -- symbolic inputs, contracts active
 *   native  (-DVF_REPLAY)    -- inputs come from a replay value file produced from the
 *                               verifier's counterexample; contracts are compiled out.
 */
#ifndef VF_H
#define VF_H

#include <stddef.h>
#include <stdint.h>
#include <sys/types.h>

#ifndef VF_REPLAY
/* ------------------------------------------------------------------ CBMC ---- */

#define VF_NONDET_DECL(T, tag) T nondet_##tag(void)
VF_NONDET_DECL(_Bool, bool);
VF_NONDET_DECL(char, char);
VF_NONDET_DECL(int, int);
VF_NONDET_DECL(unsigned, uint);
VF_NONDET_DECL(long, long);
VF_NONDET_DECL(size_t, size_t);
VF_NONDET_DECL(uint8_t, uint8_t);
VF_NONDET_DECL(uint16_t, uint16_t);
VF_NONDET_DECL(uint32_t, uint32_t);
VF_NONDET_DECL(uint64_t, uint64_t);
VF_NONDET_DECL(int8_t, int8_t);
VF_NONDET_DECL(int16_t, int16_t);
VF_NONDET_DECL(int32_t, int32_t);
VF_NONDET_DECL(int64_t, int64_t);
VF_NONDET_DECL(ssize_t, ssize_t);
VF_NONDET_DECL(void *, ptr);

/* scalar symbolic input, recorded in the trace under its own name */
#define VF_NONDET_(T, name)	T name = nondet_##T(); __CPROVER_input(#name, name)
#define VF_NONDET(T, name)	VF_NONDET_(T, name)
/* symbolic input of an arbitrary (struct / fixed array wrapped in struct) type */
#define VF_NONDET_OBJ(T, name)	T nondet_obj_##name(void); T name = nondet_obj_##name(); __CPROVER_input(#name, name)
/* fixed-size symbolic byte array `name.b[N]` */
#define VF_NONDET_BYTES(name, N)					\
	struct vf_bytes_##name { uint8_t b[(N)]; };			\
	struct vf_bytes_##name nondet_bytes_##name(void);		\
	struct vf_bytes_##name name = nondet_bytes_##name();		\
	__CPROVER_input(#name, name)
/* pointer that the enforced contract's is_fresh() will allocate (dfcc harnesses) */
#define VF_FRESH_PTR(T, name, nbytes)	T *name
/* optional pointer: NULL or fresh */
#define VF_FRESH_PTR_OPT(T, name, nbytes) T *name

#define VF_ASSUME(c)		__CPROVER_assume(c)
#define VF_ASSERT(c, msg)	__CPROVER_assert((c), msg)
/* reachability canary: must FAIL (i.e. be reachable); see DESIGN 3.1 step 4 */
#define VF_CANARY(tag)		__CPROVER_assert(0, "canary: " tag)
/* native-only post-call check of the contract's postcondition (replay oracle) */
#define VF_NATIVE_POST(c, msg)	do { } while (0)

/* contract vocabulary */
#define VF_SPAN(p, n)		((n) == 0 || __CPROVER_is_fresh((p), (n)))
#define VF_SPAN_OPT(p, n)	((p) == NULL || __CPROVER_is_fresh((p), (n)))
/* Offsets are compared as integers (__CPROVER_POINTER_OFFSET), not as pointer relations:
 * CBMC instruments pointer relations inside contract clauses with its own bounds checks,
 * which fail spuriously when the clause is *assumed* about a nondeterministic pointer
 * (replaced callee) and which are redundant when it is asserted. */
#define VF_OFF(q)		((size_t)__CPROVER_POINTER_OFFSET(q))
#define VF_INSIDE(q, len, p, n)						\
	((len) == 0 || (__CPROVER_same_object((q), (p)) &&		\
	    VF_OFF(p) <= VF_OFF(q) &&					\
	    (VF_OFF(q) - VF_OFF(p)) <= (size_t)(n) &&			\
	    (size_t)(len) <= (size_t)(n) - (VF_OFF(q) - VF_OFF(p))))
#define VF_PTR_INSIDE(q, p, n)						\
	(__CPROVER_same_object((q), (p)) &&				\
	    VF_OFF(p) <= VF_OFF(q) &&					\
	    (VF_OFF(q) - VF_OFF(p)) <= (size_t)(n))
/* r == NULL or p+lo <= r < p+hi */
#define VF_IN_OR_NULL(r, p, lo, hi)					\
	((r) == NULL || (__CPROVER_same_object((r), (p)) &&		\
	    VF_OFF(p) <= VF_OFF(r) &&					\
	    (VF_OFF(r) - VF_OFF(p)) >= (size_t)(lo) &&			\
	    (VF_OFF(r) - VF_OFF(p)) < (size_t)(hi)))

#else
/* ---------------------------------------------------------------- native ---- */
#include <stdio.h>
#include <stdlib.h>
#include <string.h>

void vf_replay_get(const char *name, void *dst, size_t size);
void *vf_replay_alloc(const char *name, size_t size, int optional);
void vf_replay_fail(const char *msg);

#define VF_NONDET(T, name)	T name; vf_replay_get(#name, &name, sizeof(name))
#define VF_NONDET_OBJ(T, name)	T name; vf_replay_get(#name, &name, sizeof(name))
#define VF_NONDET_BYTES(name, N)					\
	struct vf_bytes_##name { uint8_t b[(N)]; } name;		\
	vf_replay_get(#name, &name, sizeof(name))
#define VF_FRESH_PTR(T, name, nbytes)	T *name = (T *)vf_replay_alloc(#name, (nbytes), 0)
#define VF_FRESH_PTR_OPT(T, name, nbytes) T *name = (T *)vf_replay_alloc(#name, (nbytes), 1)
#define VF_ASSUME(c)		do { if (!(c)) { fprintf(stderr, "REPLAY-ASSUME-FALSE %s\n", #c); exit(77); } } while (0)
#define VF_ASSERT(c, msg)	do { if (!(c)) vf_replay_fail(msg); } while (0)
#define VF_CANARY(tag)		do { } while (0)
#define VF_NATIVE_POST(c, msg)	do { if (!(c)) vf_replay_fail(msg); } while (0)
#define __CPROVER_assume(c)	VF_ASSUME(c)
#define __CPROVER_assert(c, m)	VF_ASSERT(c, m)
#define __CPROVER_input(n, v)	do { } while (0)
#endif

#endif /* VF_H */
