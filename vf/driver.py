#!/usr/bin/env python3
"""Contract-verification driver (DESIGN.md section 3).

One run of `./check Cxx --tier T`:
  for every job of obligations/Cxx.json in the tier
     goto-cc   harness TU (= /verif contracts + the *unmodified* /repo file)
     goto-instrument --dfcc … --enforce-contract … [--replace-call-with-contract …]
                     [--loop-contracts-file … --apply-loop-contracts]
     cbmc --json-ui --trace  <checks>  (timeout + RLIMIT_AS)
  classify every generated obligation, compare with the ledger (vacuity guard),
  match failures against known_findings.json, write replay + evidence.

Exit status: 0 held / only known findings, 1 violation, 2 undecided (infrastructure:
timeout, out of memory, compile error, missing function or loop, vacuous harness).
"""
import argparse
import concurrent.futures as cf
import json
import os
import re
import resource
import shutil
import subprocess
import sys
import tempfile
import time

VERIF = os.path.dirname(os.path.dirname(os.path.abspath(__file__)))
REPO = os.environ.get("VF_REPO", "/repo")

STD_CHECKS = ["--bounds-check", "--pointer-check", "--pointer-overflow-check",
              "--div-by-zero-check", "--undefined-shift-check",
              "--signed-overflow-check", "--pointer-primitive-check"]
# --conversion-check is deliberately NOT a standard check: it flags narrowing conversions
# to unsigned types (uint8_t)(x << 2), which are well defined in C and used on purpose
# by the codecs, hashes and bignum code; jobs may add it where it is meaningful.
# cmake feature macros of the project's own build (CMakeLists.txt checks), needed
# when a src/*.c file is #included into a harness translation unit
SRC_DEFINES = ["-D_GNU_SOURCE", "-DLINUX", "-D__USE_GNU=1", "-DHAVE_MEMMEM",
               "-DHAVE_MEMRCHR", "-DHAVE_REALLOCARRAY", "-DHAVE_STRNCASECMP",
               "-DHAVE_EXPLICIT_BZERO", "-DHAVE_PIPE2", "-DHAVE_ACCEPT4",
               "-DHAVE_SOCK_CLOEXEC", "-DHAVE_SOCK_NONBLOCK", "-DHAVE_MEMSET_S=0"]
SRC_DEFINES = SRC_DEFINES[:-1]

KIND_PATTERNS = [
    ("canary", re.compile(r"^canary:")),
    ("postcondition", re.compile(r"postcondition", re.I)),
    ("precondition", re.compile(r"precondition", re.I)),
    ("loop_invariant_base", re.compile(r"loop invariant before entry", re.I)),
    ("loop_invariant_step", re.compile(r"loop invariant is preserved", re.I)),
    ("loop_decreases", re.compile(r"decreases|variant", re.I)),
    ("assigns", re.compile(r"is assignable|assigns clause|is freeable", re.I)),
    ("unwind", re.compile(r"unwinding assertion", re.I)),
]


def kind_of(prop):
    d = prop.get("description", "")
    n = prop.get("property", "")
    for k, rx in KIND_PATTERNS:
        if rx.search(d):
            return k
    if ".postcondition." in n or "ensures clause" in d:
        return "postcondition"
    if ".precondition." in n or "requires clause" in d:
        return "precondition"
    if ".assertion." in n:
        return "assertion"
    return "safety"


def load_jobs(prop_id):
    path = os.path.join(VERIF, "obligations", prop_id + ".json")
    with open(path) as f:
        reg = json.load(f)
    jobs = []
    defaults = reg.get("defaults", {})
    alljobs = list(reg.get("jobs", []))
    # fragments: obligations/Cxx.d/*.json (same format; jobs, assumptions, not_covered appended)
    import glob
    for frag in sorted(glob.glob(os.path.join(VERIF, "obligations", prop_id + ".d", "*.json"))):
        with open(frag) as f:
            fr = json.load(f)
        fd = dict(defaults)
        fd.update(fr.get("defaults", {}))
        for j in fr.get("jobs", []):
            jj = dict(fd)
            jj.update(j)
            jj["_nodefaults"] = True
            alljobs.append(jj)
        for key in ("assumptions", "not_covered", "trusted_base"):
            reg.setdefault(key, [])
            reg[key] = list(reg[key]) + list(fr.get(key, []))
    for j in alljobs:
        base = dict(defaults) if not j.get("_nodefaults") else {}
        base.update(j)
        base.pop("_nodefaults", None)
        if "foreach" in base:
            rows = base.pop("foreach")
            for row in rows:
                jj = json.loads(subst(json.dumps(base), row))
                jj["_row"] = row
                jobs.append(jj)
        else:
            jobs.append(base)
    names = set()
    for j in jobs:
        if j["name"] in names:
            raise SystemExit("duplicate job name " + j["name"])
        names.add(j["name"])
    return reg, jobs


def subst(text, row):
    for k, v in row.items():
        text = text.replace("${" + k + "}", str(v))
    return text


def limit_mem(gb):
    def f():
        lim = int(gb * (1 << 30))
        resource.setrlimit(resource.RLIMIT_AS, (lim, lim))
        os.setsid()
    return f


def run(cmd, cwd, timeout, mem_gb=None, log=None):
    t0 = time.time()
    try:
        p = subprocess.Popen(cmd, cwd=cwd, stdout=subprocess.PIPE, stderr=subprocess.PIPE,
                             preexec_fn=limit_mem(mem_gb) if mem_gb else os.setsid)
        try:
            out, err = p.communicate(timeout=timeout)
        except subprocess.TimeoutExpired:
            try:
                os.killpg(p.pid, 9)
            except ProcessLookupError:
                pass
            out, err = p.communicate()
            return {"rc": "timeout", "out": out.decode(errors="replace"),
                    "err": err.decode(errors="replace"), "s": time.time() - t0}
        return {"rc": p.returncode, "out": out.decode(errors="replace"),
                "err": err.decode(errors="replace"), "s": time.time() - t0}
    except OSError as e:
        return {"rc": "oserror", "out": "", "err": str(e), "s": time.time() - t0}


def include_flags():
    return ["-I" + os.path.join(REPO, "include"), "-I" + REPO,
            "-I" + os.path.join(REPO, "src"), "-I" + VERIF]


def value_bytes(v):
    """CBMC json value -> little-endian byte string (integers, arrays, structs)."""
    if v is None:
        return b""
    if "binary" in v:
        b = v["binary"]
        w = (len(b) + 7) // 8
        return int(b, 2).to_bytes(w, "little")
    if "elements" in v:
        return b"".join(value_bytes(e["value"]) for e in v["elements"])
    if "members" in v:
        return b"".join(value_bytes(m["value"]) for m in v["members"])
    if v.get("name") == "pointer":
        return (0).to_bytes(8, "little")
    return b""


def value_py(v):
    if v is None:
        return None
    if "binary" in v:
        b = v["binary"]
        x = int(b, 2)
        t = v.get("type", "")
        if (t.startswith("signed") or t.startswith("int") or t in ("char", "ssize_t", "long", "int")) \
                and not t.startswith("unsigned") and b[0] == "1" and "uint" not in t:
            x -= 1 << len(b)
        return x
    if "elements" in v:
        return [value_py(e["value"]) for e in v["elements"]]
    if "members" in v:
        return {m["name"]: value_py(m["value"]) for m in v["members"]}
    return v.get("data")


def trace_inputs(trace):
    vals, raw = {}, {}
    for s in trace or []:
        if s.get("stepType") == "input":
            vs = s.get("values") or []
            if vs:
                vals[s["inputID"]] = value_py(vs[0])
                raw[s["inputID"]] = value_bytes(vs[0])
    return vals, raw


def brief_trace(trace, limit=90):
    out = []
    for s in trace or []:
        st = s.get("stepType")
        loc = s.get("sourceLocation", {})
        if s.get("hidden") or s.get("internal"):
            continue
        f = loc.get("file", "")
        if f.startswith("<builtin"):
            continue
        lhs = s.get("lhs", "") or ""
        if lhs.startswith("__") or "$$" in lhs or "write_set" in lhs or "_ctx" in lhs:
            continue
        if st == "function-call" and "__CPROVER" in json.dumps(s.get("function", {})):
            continue
        if st == "assignment" and not loc.get("function"):
            continue
        where = "%s:%s %s" % (os.path.basename(f), loc.get("line", "?"), loc.get("function", ""))
        if st == "assignment":
            v = s.get("value", {})
            d = v.get("data", v.get("name"))
            out.append("  %-40s %s = %s" % (where, s.get("lhs"), d))
        elif st == "input":
            out.append("  %-40s INPUT %s = %s" % (where, s.get("inputID"),
                                                  json.dumps(value_py((s.get("values") or [None])[0]))[:300]))
        elif st == "function-call":
            out.append("  %-40s CALL %s" % (where, s.get("function", {}).get("displayName")))
        elif st == "failure":
            out.append("  %-40s FAILURE %s" % (where, s.get("reason")))
    if len(out) > limit:
        out = out[:limit // 3] + ["  … (%d steps omitted) …" % (len(out) - limit)] + out[-(2 * limit // 3):]
    return out


class JobResult:
    def __init__(self, job):
        self.job = job
        self.name = job["name"]
        self.status = "undecided"     # ok | violation | known | undecided
        self.reason = ""
        self.props = []               # list of dict(name, desc, status, kind, loc)
        self.failed = []              # non-canary FAILUREs
        self.solver_s = 0.0
        self.total_s = 0.0
        self.cmds = []
        self.replay_path = None
        self.replayed = False
        self.known = []
        self.log = ""


def run_job(job, prop_id, workroot, tier, deadline=None):
    res = JobResult(job)
    t_start = time.time()
    if deadline is not None and time.time() >= deadline:
        res.status, res.reason = "skipped", "quick-tier wall budget exhausted before this job started"
        return res
    wd = os.path.join(workroot, re.sub(r"[^A-Za-z0-9_.-]", "_", job["name"]))
    os.makedirs(wd, exist_ok=True)
    harness = os.path.join(VERIF, job["harness"])
    entry = job.get("entry", "harness")
    defines = ["-D" + d for d in job.get("defines", [])]
    if job.get("src_defines", False):
        defines = SRC_DEFINES + defines
    timeout = job.get("timeout", 300)
    if tier == "thorough":
        timeout = job.get("timeout_thorough", timeout * 2)
    mem = job.get("mem_gb", 12)

    if job.get("mode") == "native":
        return run_native_job(job, res, wd, defines, timeout, t_start)

    # 1. compile
    cmd = ["goto-cc"] + include_flags() + defines + ["-DVF_CBMC", "--function", entry, harness, "-o", "a.gb"]
    res.cmds.append(" ".join(cmd))
    r = run(cmd, wd, 300)
    if r["rc"] != 0:
        res.reason = "goto-cc failed: " + (r["err"] + r["out"])[-1500:]
        res.total_s = time.time() - t_start
        return res
    cur = "a.gb"
    step = 0

    def gi(args, what):
        nonlocal cur, step
        step += 1
        nxt = "g%d.gb" % step
        c = ["goto-instrument"] + args + [cur, nxt]
        res.cmds.append(" ".join(c))
        rr = run(c, wd, 600, mem)
        res.log += rr["out"][-4000:] + rr["err"][-4000:]
        if rr["rc"] != 0:
            res.reason = "%s failed: %s" % (what, (rr["err"] + rr["out"])[-2000:])
            return False
        cur = nxt
        return True

    # loop-contract files may be templates over the job's foreach row (${FN} ...)
    loops_file = None
    if job.get("loops"):
        loops_file = os.path.join(VERIF, job["loops"])
        if job.get("_row"):
            loops_file = os.path.join(wd, "loops.json")
            with open(os.path.join(VERIF, job["loops"])) as lf:
                txt = subst(lf.read(), job["_row"])
            with open(loops_file, "w") as lf:
                lf.write(txt)

    for args in job.get("pre_instrument", []):
        if not gi(list(args), "goto-instrument (pre)"):
            res.total_s = time.time() - t_start
            return res

    if job.get("mode", "dfcc") == "dfcc":
        args = ["--dfcc", entry]
        for f in job.get("enforce", []):
            args += ["--enforce-contract", f]
        for f in job.get("enforce_rec", []):
            args += ["--enforce-contract-rec", f]
        for f in job.get("replace", []):
            args += ["--replace-call-with-contract", f]
        if job.get("loops"):
            args += ["--loop-contracts-file", loops_file, "--apply-loop-contracts"]
        elif job.get("inline_loop_contracts"):
            args += ["--apply-loop-contracts"]
        args += [a.replace("${REPO}", REPO) for a in job.get("dfcc_flags", [])]
        if not gi(args, "goto-instrument --dfcc"):
            res.total_s = time.time() - t_start
            return res
    elif job.get("loops"):
        args = ["--loop-contracts-file", loops_file, "--apply-loop-contracts"]
        if not gi(args, "goto-instrument --apply-loop-contracts"):
            res.total_s = time.time() - t_start
            return res

    for args in job.get("post_instrument", []):
        if not gi(list(args), "goto-instrument (post)"):
            res.total_s = time.time() - t_start
            return res

    # 2. solve
    checks = job.get("checks", STD_CHECKS)
    backend = job.get("backend", "sat")
    bflags = {"sat": [], "z3": ["--z3"], "cvc5": ["--cvc5"],
              "cadical": ["--sat-solver", "cadical"],
              "kissat": ["--external-sat-solver", "kissat"]}[backend]
    cmd = ["cbmc", cur] + checks + job.get("cbmc", []) + bflags + (["--trace"] if job.get("trace", True) else []) + ["--json-ui"]
    if "--object-bits" not in " ".join(cmd):
        pass
    res.cmds.append(" ".join(cmd))
    eff_timeout, budget_cut = timeout, False
    if deadline is not None and deadline - time.time() < timeout:
        eff_timeout, budget_cut = max(1, int(deadline - time.time())), True
    r = run(cmd, wd, eff_timeout, mem)
    res.solver_s = r["s"]
    res.total_s = time.time() - t_start
    if r["rc"] == "timeout":
        if budget_cut:
            res.status = "skipped"
            res.reason = "stopped after %ds by the quick-tier wall budget (job timeout is %ds)" % (eff_timeout, timeout)
            return res
        res.reason = "cbmc timeout after %ds" % timeout
        return res
    try:
        doc = json.loads(r["out"])
    except Exception:
        res.reason = "cbmc produced no JSON (rc=%s): %s" % (r["rc"], (r["out"][-800:] + r["err"][-800:]))
        return res
    results = None
    msgs = []
    for e in doc:
        if "result" in e:
            results = e["result"]
        if "messageText" in e:
            msgs.append(e["messageText"])
    alltext = "\n".join(msgs)
    if results is None:
        res.reason = "cbmc gave no result list (rc=%s): %s" % (r["rc"], alltext[-1500:])
        return res
    if re.search(r"ignoring (forall|exists)", alltext) or "Parse Error" in alltext:
        res.reason = "back end ignored a quantifier / SMT parse error: not trusted"
        return res
    for p in results:
        k = kind_of(p)
        loc = p.get("sourceLocation", {})
        ent = {"name": p.get("property"), "desc": p.get("description"), "status": p.get("status"),
               "kind": k, "file": loc.get("file"), "line": loc.get("line"), "function": loc.get("function"),
               "trace": p.get("trace") if p.get("status") == "FAILURE" and k != "canary" else None}
        res.props.append(ent)
    canaries = [p for p in res.props if p["kind"] == "canary"]
    real = [p for p in res.props if p["kind"] != "canary"]
    res.failed = [p for p in real if p["status"] == "FAILURE"]
    if not job.get("unwind_violation", False):
        # a failed unwinding assertion means "unwind bound too small for this code": that is
        # an undecided run, not a property violation - unless the job declares the bound to
        # be the loop's type bound (termination clause), see DESIGN 3.1
        uw = [p for p in res.failed if p["kind"] == "unwind"]
        res.failed = [p for p in res.failed if p["kind"] != "unwind"]
        if uw and not res.failed:
            res.reason = "unwinding assertion failed (%s at %s:%s): bound too small, nothing decided" % (
                uw[0]["name"], uw[0]["file"], uw[0]["line"])
            return res
    if res.failed:
        res.status = "violation"
        return res
    bad = [p for p in real if p["status"] != "SUCCESS"]
    if bad:
        res.reason = "%d obligations not decided (e.g. %s: %s)" % (len(bad), bad[0]["name"], bad[0]["status"])
        return res
    if not canaries:
        res.reason = "harness has no reachability canary"
        return res
    dead = [p for p in canaries if p["status"] != "FAILURE"]
    if dead:
        res.reason = "VACUOUS: canary not reachable (%s) - contradictory precondition?" % dead[0]["desc"]
        return res
    if not real:
        res.reason = "VACUOUS: no obligations generated"
        return res
    res.status = "ok"
    return res


def run_native_job(job, res, wd, defines, timeout, t_start):
    """Exhaustive native enumeration of a finite input space against the real code
    (labelled exhaustive_native in the evidence; NOT a deductive obligation)."""
    harness = os.path.join(VERIF, job["harness"])
    exe = os.path.join(wd, "native.exe")
    cmd = ["gcc", "-O2", "-w", "-fopenmp", "-DVF_NATIVE"] + include_flags() + defines + [harness, "-o", exe] + job.get("replay_ldflags", [])
    res.cmds.append(" ".join(cmd))
    r = run(cmd, wd, 300)
    if r["rc"] != 0:
        res.reason = "native build failed: " + r["err"][-1500:]
        res.total_s = time.time() - t_start
        return res
    r = run([exe], wd, timeout)
    res.solver_s = r["s"]
    res.total_s = time.time() - t_start
    res.cmds.append(exe)
    out = r["out"]
    m = re.search(r"CASES (\d+)", out)
    cases = int(m.group(1)) if m else 0
    res.native_cases = cases
    if r["rc"] == "timeout":
        res.reason = "native enumeration timeout after %ds" % timeout
        return res
    ent = {"name": job["name"] + ".exhaustive_native", "desc": "exhaustive native enumeration: %d cases; %s" % (cases, job.get("bound", "")),
           "status": "SUCCESS" if (r["rc"] == 0 and cases > 0) else "FAILURE", "kind": "exhaustive_native",
           "file": job["harness"], "line": "0", "function": "main", "trace": None}
    res.props.append(ent)
    if r["rc"] != 0:
        ent["native_output"] = (out + r["err"])[-2000:]
        res.failed = [ent]
        res.status = "violation"
        res.native_fail_text = (out + r["err"])[-3000:]
        return res
    if cases == 0:
        res.reason = "VACUOUS: native enumeration reported no cases"
        res.status = "undecided"
        return res
    res.status = "ok"
    return res


def kinds_count(props):
    c = {}
    for p in props:
        c[p["kind"]] = c.get(p["kind"], 0) + 1
    return c


def load_known():
    p = os.path.join(VERIF, "known_findings.json")
    if not os.path.exists(p):
        return []
    with open(p) as f:
        ents = json.load(f).get("entries", [])
    import glob
    for frag in sorted(glob.glob(os.path.join(VERIF, "known_findings.d", "*.json"))):
        with open(frag) as f:
            ents += json.load(f).get("entries", [])
    return ents


def match_known(known, prop_id, job, p, inputs):
    for k in known:
        if k.get("kind") != "finding" or k.get("property") != prop_id:
            continue
        if not re.search(k.get("job", ".*"), job["name"]):
            continue
        if not re.search(k.get("obligation", ".*"), "%s: %s" % (p["name"], p["desc"])):
            continue
        cond = k.get("when")
        if cond:
            try:
                env = dict(inputs)
                env.update(job.get("_row", {}))
                if not eval(cond, {"__builtins__": {"len": len, "min": min, "max": max, "abs": abs}}, env):
                    continue
            except Exception:
                continue
        return k
    return None


def native_replay(job, res, raw_inputs, wd):
    """Compile the same harness natively (ASan+UBSan) and feed it the counterexample."""
    harness = os.path.join(VERIF, job["harness"])
    entry = job.get("entry", "harness")
    defines = ["-D" + d for d in job.get("defines", [])]
    if job.get("src_defines", False):
        defines = SRC_DEFINES + defines
    vals = os.path.join(wd, "replay.values")
    with open(vals, "w") as f:
        for k, b in raw_inputs.items():
            f.write("%s %s\n" % (k, b.hex()))
    mainc = os.path.join(wd, "replay_main.c")
    with open(mainc, "w") as f:
        f.write("void %s(void);\nint main(void){ %s(); return 0; }\n" % (entry, entry))
    exe = os.path.join(wd, "replay.exe")
    cmd = ["gcc", "-g", "-O0", "-w", "-fsanitize=address,undefined", "-fno-sanitize-recover=all",
           "-DVF_REPLAY"] + include_flags() + defines + [harness, os.path.join(VERIF, "vf", "vf_replay.c"),
                                                         mainc, "-o", exe] + job.get("replay_ldflags", [])
    r = run(cmd, wd, 300)
    if r["rc"] != 0:
        return False, "native replay build failed:\n" + r["err"][-3000:], " ".join(cmd)
    attempts = job.get("replay_attempts", 400)
    env = dict(os.environ)
    env["VF_REPLAY_FILE"] = vals
    env["ASAN_OPTIONS"] = "detect_leaks=0:abort_on_error=0"
    notes = []
    for a in range(attempts):
        env["VF_ATTEMPT"] = str(a)
        try:
            p = subprocess.run([exe], env=env, cwd=wd, capture_output=True, timeout=60)
        except subprocess.TimeoutExpired:
            return True, "attempt %d: native run did not terminate within 60 s" % a, " ".join(cmd)
        if p.returncode in (77, 78):
            notes.append("attempt %d: %s" % (a, p.stderr.decode(errors="replace")[-300:]))
            if a > 8:
                break
            continue
        err_txt = p.stderr.decode(errors="replace")
        if p.returncode != 0 and re.search(r"requested allocation size|allocator is out of memory|failed to allocate|allocation-size-too-big|out-of-memory", err_txt):
            notes.append("attempt %d: the native run could not allocate the counterexample's object sizes (not a reproduction)" % a)
            if a > 8:
                break
            continue
        if p.returncode != 0:
            return True, "attempt %d (buffer-content fill #%d), exit %d:\n%s" % (
                a, a, p.returncode, "\n".join(p.stderr.decode(errors="replace").splitlines()[:24])), " ".join(cmd)
    return False, "native replay: %d attempts, no failure reproduced\n%s" % (attempts, "\n".join(notes[-3:])), " ".join(cmd)


def main():
    ap = argparse.ArgumentParser()
    ap.add_argument("prop")
    ap.add_argument("--tier", default=os.environ.get("VERIF_TIER", "quick"), choices=["quick", "thorough"])
    ap.add_argument("--jobs", type=int, default=int(os.environ.get("VF_JOBS", "16")))
    ap.add_argument("--only", default=None, help="regex on job names (development)")
    ap.add_argument("--update-ledger", action="store_true")
    ap.add_argument("--keep", action="store_true")
    ap.add_argument("--no-evidence", action="store_true")
    ap.add_argument("--replay", default=None, help="print a stored replay file")
    ap.add_argument("-v", action="store_true")
    args = ap.parse_args()

    if args.replay:
        sys.stdout.write(open(args.replay).read())
        return 0

    prop_id = args.prop
    seed = int(os.environ.get("VERIF_SEED", "0") or 0)
    t0 = time.time()
    reg, jobs = load_jobs(prop_id)
    sel = [j for j in jobs if args.tier == "thorough" or j.get("tier", "quick") == "quick"]
    if args.only:
        sel = [j for j in sel if re.search(args.only, j["name"])]
    ledger_path = os.path.join(VERIF, "ledger", prop_id + ".json")
    ledger = {}
    if os.path.exists(ledger_path):
        ledger = json.load(open(ledger_path))
    known = load_known()

    workroot = tempfile.mkdtemp(prefix="vf-%s-" % prop_id)
    results = []
    # heavier jobs first
    sel.sort(key=lambda j: -ledger.get(j["name"], {}).get("s", 1))
    try:
        with cf.ThreadPoolExecutor(max_workers=args.jobs) as ex:
            budget = float(os.environ.get("VF_QUICK_BUDGET", "780"))
            deadline = (t0 + budget) if (args.tier == "quick" and budget > 0 and not args.update_ledger) else None
            futs = {ex.submit(run_job, j, prop_id, workroot, args.tier, deadline): j for j in sel}
            for fu in cf.as_completed(futs):
                r = fu.result()
                results.append(r)
                if args.v:
                    print("  [%s] %-44s %6.1fs  %d obligations %s" % (
                        r.status, r.name, r.total_s, len(r.props), r.reason[:200].replace("\n", " ")), flush=True)

        results.sort(key=lambda r: r.name)
        exit_code = 0
        violations = 0
        known_lines = []
        undecided = []
        os.makedirs(os.path.join(VERIF, "replays"), exist_ok=True)

        for r in results:
            # ledger / vacuity guard
            if r.status == "ok" and not args.update_ledger:
                led = ledger.get(r.name)
                if led is None:
                    r.status, r.reason = "undecided", "job not in ledger (run --update-ledger on the pinned tree)"
                else:
                    kc = kinds_count(r.props)
                    for k in ("postcondition", "loop_invariant_step", "loop_invariant_base", "assertion", "canary", "exhaustive_native"):
                        if kc.get(k, 0) < led["kinds"].get(k, 0):
                            r.status = "undecided"
                            r.reason = "VACUITY: %d %s obligations, ledger has %d (contract silently dropped?)" % (
                                kc.get(k, 0), k, led["kinds"].get(k, 0))
                    if len(r.props) * 2 < led["n"]:
                        r.status = "undecided"
                        r.reason = "VACUITY: %d obligations, ledger has %d" % (len(r.props), led["n"])
            if r.status == "violation":
                inputs, raw = {}, {}
                for p in r.failed:
                    i2, r2 = trace_inputs(p["trace"])
                    if i2 and not inputs:
                        inputs, raw = i2, r2
                unknown_fail = []
                for p in r.failed:
                    pin, _ = trace_inputs(p["trace"])
                    k = match_known(known, prop_id, r.job, p, pin or inputs)
                    if k:
                        r.known.append((p, k))
                    else:
                        unknown_fail.append(p)
                if not unknown_fail:
                    r.status = "known"
                    seen = set()
                    for p, k in r.known:
                        if k["id"] in seen:
                            continue
                        seen.add(k["id"])
                        known_lines.append("KNOWN-FINDING: property=%s %s [%s, job %s]" % (
                            prop_id, k["what"], k["id"], r.name))
                else:
                    violations += 1
                    exit_code = max(exit_code, 1)
                    rp = os.path.join(VERIF, "replays", "%s-%s.txt" % (prop_id, re.sub(r"[^A-Za-z0-9_.-]", "_", r.name)))
                    wd = os.path.join(workroot, re.sub(r"[^A-Za-z0-9_.-]", "_", r.name))
                    reproduced, text, rcmd = (False, "native replay not available for this job", "")
                    if r.job.get("mode") == "native":
                        reproduced, text, rcmd = True, getattr(r, "native_fail_text", ""), " ; ".join(r.cmds)
                    elif r.job.get("replay", True):
                        p0 = unknown_fail[0]
                        _, raw0 = trace_inputs(p0["trace"])
                        reproduced, text, rcmd = native_replay(r.job, r, raw0 or raw, wd)
                    r.replayed = reproduced
                    with open(rp, "w") as f:
                        f.write("property: %s\njob: %s\nharness: %s\nfunctions under contract: %s\n" % (
                            prop_id, r.name, r.job["harness"], ", ".join(r.job.get("functions", r.job.get("enforce", [])))))
                        f.write("repo: %s\n\nFAILED OBLIGATIONS (%d):\n" % (REPO, len(unknown_fail)))
                        for p in unknown_fail:
                            f.write("  %s  [%s]  %s  (%s:%s in %s)\n" % (p["name"], p["kind"], p["desc"],
                                                                      p["file"], p["line"], p["function"]))
                        f.write("\nVERIFIER COMMANDS:\n  " + "\n  ".join(r.cmds) + "\n")
                        p0 = unknown_fail[0]
                        pin, _ = trace_inputs(p0["trace"])
                        f.write("\nCOUNTEREXAMPLE INPUTS (from the verifier's trace, first failed obligation):\n")
                        f.write("  " + json.dumps(pin)[:4000] + "\n")
                        f.write("\nNATIVE REPLAY AGAINST THE REAL CODE (gcc -fsanitize=address,undefined):\n")
                        f.write("  " + rcmd + "\n")
                        f.write("  result: %s\n%s\n" % ("REPRODUCED" if reproduced else "not reproduced / not available", text))
                        f.write("\nVERIFIER TRACE (abridged) for %s:\n" % p0["name"])
                        f.write("\n".join(brief_trace(p0["trace"])) + "\n")
                    r.replay_path = rp
                    print("VIOLATION property=%s replay=%s%s" % (
                        prop_id, rp, "" if reproduced else " no-failing-input-found"))
                    for p in unknown_fail[:6]:
                        print("  failed obligation: %s: %s (%s:%s)" % (p["name"], p["desc"], p["file"], p["line"]))
            if r.status == "undecided":
                undecided.append(r)
                exit_code = max(exit_code, 2) if exit_code != 1 else 1

        exit_code = 1 if violations else (2 if undecided else 0)
        if exit_code == 0 and not any(r.status in ("ok", "known") for r in results):
            print("UNDECIDED property=%s: no job was decided in this run" % prop_id)
            exit_code = 2
        skipped = [r for r in results if r.status == "skipped"]
        for r in skipped:
            print("SKIPPED property=%s job=%s: %s" % (prop_id, r.name, r.reason))
        for l in known_lines:
            print(l)
        for r in undecided:
            print("UNDECIDED property=%s job=%s: %s" % (prop_id, r.name, r.reason[:1200]))

        if args.update_ledger:
            import fcntl
            os.makedirs(os.path.dirname(ledger_path), exist_ok=True)
            with open(ledger_path + ".lock", "w") as lk:
                fcntl.flock(lk, fcntl.LOCK_EX)
                if os.path.exists(ledger_path):
                    ledger = json.load(open(ledger_path))
                for r in results:
                    if r.status in ("ok", "known"):
                        ledger[r.name] = {"n": len(r.props), "kinds": kinds_count(r.props), "s": round(r.total_s, 1)}
                with open(ledger_path, "w") as f:
                    json.dump(ledger, f, indent=1, sort_keys=True)
            print("ledger updated: %s (%d jobs)" % (ledger_path, len(ledger)))

        # evidence
        wall = time.time() - t0
        if not args.no_evidence and not args.only:
            write_evidence(prop_id, reg, results, args.tier, seed, wall, violations, known_lines, undecided)
        n_ob = sum(len([p for p in r.props if p["kind"] not in ("canary", "exhaustive_native")]) for r in results)
        n_ok = sum(len([p for p in r.props if p["kind"] not in ("canary", "exhaustive_native") and p["status"] == "SUCCESS"]) for r in results)
        print("%s tier=%s jobs=%d obligations=%d discharged=%d violations=%d known=%d undecided=%d wall=%.0fs" % (
            prop_id, args.tier, len(results), n_ob, n_ok, violations, len(known_lines), len(undecided), wall))
        return exit_code
    finally:
        if not args.keep:
            shutil.rmtree(workroot, ignore_errors=True)
        else:
            print("work dir kept:", workroot)


def write_evidence(prop_id, reg, results, tier, seed, wall, violations, known_lines, undecided):
    routes = {"unbounded": 0, "finite": 0, "bounded": 0}
    routes_ok = {"unbounded": 0, "finite": 0, "bounded": 0}
    bounds = []
    per_job = []
    funcs = set()
    replaced = set()
    backends = {}
    samples = []
    n_ob = n_ok = 0
    solver_s = 0.0
    assumptions = set(reg.get("assumptions", []))
    native = []
    for r in results:
        j = r.job
        real = [p for p in r.props if p["kind"] not in ("canary", "exhaustive_native")]
        ok = [p for p in real if p["status"] == "SUCCESS"]
        for p in r.props:
            if p["kind"] == "exhaustive_native":
                native.append({"job": r.name, "cases": getattr(r, "native_cases", 0), "status": p["status"],
                               "space": j.get("bound", ""), "seconds": round(r.solver_s, 1)})
        route = j.get("route", "finite")
        routes[route] += len(real)
        routes_ok[route] += len(ok)
        n_ob += len(real)
        n_ok += len(ok)
        solver_s += r.solver_s
        if route == "bounded" or j.get("bound"):
            bounds.append("%s: %s" % (r.name, j.get("bound", "")))
        for f in j.get("functions", j.get("enforce", [])):
            funcs.add(f)
        for f in j.get("replace", []):
            replaced.add(f)
        for a in j.get("assumptions", []):
            assumptions.add(a)
        b = j.get("backend", "sat")
        backends[b] = backends.get(b, 0) + len(real)
        per_job.append({"job": r.name, "status": r.status, "route": route, "bound": j.get("bound", ""),
                        "backend": b, "obligations": len(real), "discharged": len(ok),
                        "kinds": kinds_count(real), "solver_s": round(r.solver_s, 2),
                        "enforced": j.get("enforce", []) + j.get("enforce_rec", []),
                        "replaced_by_contract": j.get("replace", []),
                        "reason": r.reason[:300]})
        contract_props = [p for p in real if p["kind"] in ("postcondition", "loop_invariant_step", "assigns", "assertion")]
        for p in (contract_props[:2] + [p for p in real if p["kind"] == "safety"][:1]):
            if len(samples) < 40:
                samples.append({"job": r.name, "obligation": p["name"], "description": p["desc"],
                                "status": p["status"], "at": "%s:%s" % (p["file"], p["line"])})
    level = reg.get("level", "proof")
    all_ok = (n_ob > 0 and n_ob == n_ok)
    cov = {
        "obligations": n_ob,
        "discharged": n_ok,
        "checker_cmd": "goto-cc <harness TU incl. unmodified /repo file> ; goto-instrument --dfcc <h> --enforce-contract <f> "
                       "[--replace-call-with-contract <g>] [--loop-contracts-file <l> --apply-loop-contracts] ; "
                       "cbmc --json-ui --trace <checks> [--unwind N --unwinding-assertions] (cbmc 6.11.0); "
                       "exact commands per job are in the replay files / printed with -v",
        "trusted_base": reg.get("trusted_base", []) + [
            "CBMC 6.11.0 front end, DFCC contract instrumentation and bit-precise C semantics (x86-64 LP64)",
            "SAT/SMT back ends: " + ", ".join(sorted(backends)),
        ],
        "routes": {"obligations": routes, "discharged": routes_ok,
                   "meaning": "unbounded = loop contracts close every loop, symbolic sizes; finite = loop-free or "
                              "type/width-bounded loops fully unwound with unwinding assertions (complete); "
                              "bounded = stated non-type bound, NOT counted as proved"},
        "bounds": bounds,
        "functions_under_contract": sorted(funcs),
        "callees_replaced_by_contract": sorted(replaced),
        "backends": backends,
        "solver_s": round(solver_s, 1),
        "jobs": per_job,
        "samples": samples,
        "exhaustive_native": native,
        "exhaustive_native_note": "complete native enumerations of a finite input space against the real code; reported separately, NOT counted among the deductive obligations",
        "known_findings_reported": known_lines,
        "undecided_jobs": [r.name for r in undecided],
        "skipped_for_wall_budget": [r.name for r in results if r.status == "skipped"],
        "explanation": reg.get("explanation", ""),
        "not_covered": reg.get("not_covered", []),
    }
    if level != "proof":
        nontrivial = set()
        for r in results:
            for p_ in r.props:
                if p_["kind"] in ("postcondition", "precondition", "loop_invariant_base", "loop_invariant_step",
                                  "assigns", "assertion"):
                    nontrivial.add((r.name, p_["name"]))
        cov["evaluations"] = n_ob
        cov["distinct_nontrivial"] = len(nontrivial)
        cov["rule"] = ("one evaluation = one CBMC proof obligation generated from /repo's current source and decided "
                       "on this run; non-trivial = obligations that come from a contract clause or a harness assertion "
                       "(postcondition, precondition at a call, loop invariant, assigns/frame, assertion), counted as "
                       "distinct (job, obligation name) pairs - the automatically generated pointer/bounds/overflow "
                       "checks and the vacuity canary are not counted")
    ev = {"property_id": prop_id, "tier": tier, "seed": seed, "level": level, "coverage": cov,
          "assumptions": sorted(assumptions), "wall_s": round(wall, 1), "violations": violations}
    os.makedirs(os.path.join(VERIF, "evidence"), exist_ok=True)
    with open(os.path.join(VERIF, "evidence", prop_id + ".json"), "w") as f:
        json.dump(ev, f, indent=1)


if __name__ == "__main__":
    sys.exit(main())
