#!/usr/bin/env python3
"""Development-time: run every confirmed seeded change in /verif/seeded/<id>/ against the check of the
property it breaks (scratch worktree of /repo HEAD + VF_REPO; /repo itself is never touched) and record
which obligations catch it.  usage: vf/seedall.py [--tier quick|thorough] [id-regex]   -> seeded/RESULTS.json"""
import json, os, re, subprocess, sys, tempfile, shutil, time
V = os.path.dirname(os.path.dirname(os.path.abspath(__file__)))
tier = "quick"
args = sys.argv[1:]
if "--tier" in args:
    tier = args[args.index("--tier") + 1]; del args[args.index("--tier"):args.index("--tier") + 2]
rx = re.compile(args[0]) if args else re.compile(".")
resf = os.path.join(V, "seeded", "RESULTS.json")
results = json.load(open(resf)) if os.path.exists(resf) else {}
for sid in sorted(os.listdir(os.path.join(V, "seeded"))):
    d = os.path.join(V, "seeded", sid)
    if not os.path.isdir(d) or sid.startswith("_") or not rx.search(sid):
        continue
    meta = json.load(open(os.path.join(d, "meta.json")))
    prop = meta.get("property", sid.split("-")[0])
    if not os.path.exists(os.path.join(V, "obligations", prop + ".json")):
        results[sid] = {"property": prop, "outcome": "no check yet"}; continue
    wt = tempfile.mkdtemp(prefix="seed-wt-"); os.rmdir(wt)
    t0 = time.time()
    try:
        subprocess.run(["git", "-C", "/repo", "worktree", "add", "--detach", wt, "HEAD"], check=True, capture_output=True)
        r = subprocess.run(["git", "-C", wt, "apply", os.path.join(d, "patch.diff")], capture_output=True, text=True)
        if r.returncode != 0:
            results[sid] = {"property": prop, "outcome": "patch does not apply to current /repo HEAD", "detail": r.stderr[-300:]}
            continue
        env = dict(os.environ); env["VF_REPO"] = wt
        # the change is run against the check of the property it breaks and, where the code it touches
        # is under contract in another property's registry, against that check too (meta.also_check)
        caught, out, rcs = [], [], []
        for pr in [prop] + list(meta.get("also_check", [])):
            r = subprocess.run(["nice", "-n", "5", os.path.join(V, "check"), pr, "--no-evidence", "--tier", tier],
                               env=env, capture_output=True, text=True, cwd=V)
            o = r.stdout.splitlines(); out += o; rcs.append(r.returncode)
            for i, l in enumerate(o):
                if l.startswith("VIOLATION"):
                    job = re.sub(r".*replays/%s-(.*)\.txt.*" % pr, r"\1", l)
                    ob = o[i + 1].strip()[len("failed obligation: "):][:160] if i + 1 < len(o) and "failed obligation" in o[i + 1] else ""
                    caught.append({"check": pr, "job": job, "first_obligation": ob, "native_replay": "reproduced" if "no-failing-input-found" not in l else "not reproduced"})
        class R: pass
        r = R(); r.returncode = 1 if 1 in rcs else (2 if 2 in rcs else 0)
        results[sid] = {"property": prop, "tier": tier, "title": meta.get("title", ""), "checks_run": [prop] + list(meta.get("also_check", [])),
                        "outcome": {0: "MISSED", 1: "DETECTED", 2: "UNDECIDED"}.get(r.returncode, str(r.returncode)),
                        "caught_by": caught[:8], "undecided": [l[:160] for l in out if l.startswith("UNDECIDED")][:4],
                        "seconds": round(time.time() - t0), "repo_head": subprocess.run(["git", "-C", "/repo", "rev-parse", "--short", "HEAD"], capture_output=True, text=True).stdout.strip()}
        print(sid, results[sid]["outcome"], [c["job"] for c in caught][:4], flush=True)
    finally:
        subprocess.run(["git", "-C", "/repo", "worktree", "remove", "--force", wt], capture_output=True)
        shutil.rmtree(wt, ignore_errors=True)
        cur = json.load(open(resf)) if os.path.exists(resf) else {}
        if sid in results:
            cur[sid] = results[sid]
        json.dump(cur, open(resf, "w"), indent=1, sort_keys=True)
