#!/usr/bin/env python3
"""Regenerates MANIFEST.json from obligations/*.json + manifest_meta.json (claims, texts)."""
import json, os, glob
V = os.path.dirname(os.path.dirname(os.path.abspath(__file__)))
meta = json.load(open(os.path.join(V, "manifest_meta.json")))
props = [json.loads(l)["id"] for l in open(os.path.join(V, "properties.jsonl"))]
checks, na = [], []
for pid in props:
    m = meta["properties"].get(pid, {})
    reg = os.path.join(V, "obligations", pid + ".json")
    if m.get("claim") and os.path.exists(reg):
        checks.append({
            "property_id": pid,
            "quick_cmd": "./check %s --tier quick" % pid,
            "thorough_cmd": "./check %s --tier thorough" % pid,
            "evidence_file": "/verif/evidence/%s.json" % pid,
            "replay_cmd_template": "./check %s --replay {path}" % pid,
            "engine": "cbmc-dfcc",
            "level_claimed": {"category": m.get("category", "proof"), "text": m["text"], "design_ref": m.get("design_ref", "DESIGN.md section 5")},
            "level_note": m["note"],
            "technique": m.get("technique", "contract-based deductive verification: CBMC function/loop contracts (goto-instrument --dfcc) on the unmodified source"),
        })
    else:
        na.append({"property_id": pid, "reason": m.get("na_reason", "not constructed yet: no contract registry for this property has been built and self-tested")})
man = {
    "version": 1,
    "setup_cmd": meta["setup_cmd"],
    "hooks": meta["hooks"],
    "engines": [{"name": "cbmc-dfcc", "path": "/verif/vf/driver.py",
                 "serves_properties": [c["property_id"] for c in checks],
                 "kind_free_text": "CBMC 6.11 code contracts (requires/ensures/assigns on redeclarations in /verif/contracts, loop contracts in /verif/loops) enforced per function with goto-instrument --dfcc against the unmodified /repo sources; SAT/SMT back ends; native ASan/UBSan replay of counterexamples"}],
    "checks": checks,
    "notes": meta.get("notes", ""),
    "not_applicable": na,
}
json.dump(man, open(os.path.join(V, "MANIFEST.json"), "w"), indent=1)
print("MANIFEST.json: %d checks, %d not_applicable" % (len(checks), len(na)))
