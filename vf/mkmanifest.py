#!/usr/bin/env python3
"""Regenerates MANIFEST.json from obligations/*.json + manifest_meta.json (claims, texts)."""
import json, os, glob, sys
V = os.path.dirname(os.path.dirname(os.path.abspath(__file__)))
sys.path.insert(0, os.path.join(V, "vf"))
import driver


def measured(pid):
    """job counts per mode and route, measured from the registry (so the technique text cannot drift)"""
    reg, jobs = driver.load_jobs(pid)
    modes, routes = {}, {}
    for j in jobs:
        mo = j.get("mode", "dfcc")
        modes[mo] = modes.get(mo, 0) + 1
        ro = "native" if mo == "native" else j.get("route", "finite")
        routes[ro] = routes.get(ro, 0) + 1
    names = {"dfcc": "contract enforcement with goto-instrument --dfcc", "plain": "harness-level postconditions on the real function (no contract instrumentation)",
             "native": "exhaustive native enumeration (not a deductive obligation)"}
    return (" [registered jobs, all tiers: " + "; ".join("%d x %s" % (n, names.get(k, k)) for k, n in sorted(modes.items())) +
            " | routes: " + ", ".join("%s %d" % (k, routes[k]) for k in ("unbounded", "finite", "bounded", "native") if routes.get(k)) +
            " (bounded jobs are labelled stand-ins, never counted as proved)]")

meta = json.load(open(os.path.join(V, "manifest_meta.json")))
props = [json.loads(l)["id"] for l in open(os.path.join(V, "properties.jsonl"))]
checks, na = [], []
for pid in props:
    m = meta["properties"].get(pid, {})
    reg = os.path.join(V, "obligations", pid + ".json")
    if m.get("claim") and os.path.exists(reg):
        checks.append({
            "property_id": pid,
            "quick_cmd": "./check %s --tier quick" % pid,
            "thorough_cmd": "./check %s --tier thorough" % pid,
            "evidence_file": "/verif/evidence/%s.json" % pid,
            "replay_cmd_template": "./check %s --replay {path}" % pid,
            "engine": "cbmc-dfcc",
            "level_claimed": {"category": m.get("category", "proof"), "text": m["text"], "design_ref": m.get("design_ref", "DESIGN.md section 5")},
            "level_note": m["note"],
            "technique": m.get("technique", "contract-based deductive verification: CBMC function/loop contracts (goto-instrument --dfcc) on the unmodified source") + measured(pid),
        })
    else:
        na.append({"property_id": pid, "reason": m.get("na_reason", "not constructed yet: no contract registry for this property has been built and self-tested")})
man = {
    "version": 1,
    "setup_cmd": meta["setup_cmd"],
    "hooks": meta["hooks"],
    "engines": [{"name": "cbmc-dfcc", "path": "/verif/vf/driver.py",
                 "serves_properties": [c["property_id"] for c in checks],
                 "kind_free_text": "CBMC 6.11 code contracts (requires/ensures/assigns on redeclarations in /verif/contracts, loop contracts in /verif/loops) enforced per function with goto-instrument --dfcc against the unmodified /repo sources; SAT/SMT back ends; native ASan/UBSan replay of counterexamples"}],
    "checks": checks,
    "notes": meta.get("notes", ""),
    "not_applicable": na,
}
json.dump(man, open(os.path.join(V, "MANIFEST.json"), "w"), indent=1)
print("MANIFEST.json: %d checks, %d not_applicable" % (len(checks), len(na)))
