#!/usr/bin/env python3
"""Development-time detection test: apply a seeded change to a scratch worktree of /repo and run
a property's check against it (VF_REPO). Usage: vf/seedtest.py Cxx path/to/patch.diff [--tier T] [--only RX]
Prints DETECTED / MISSED / UNDECIDED and the VIOLATION lines; removes the worktree."""
import os, subprocess, sys, tempfile, shutil
V = os.path.dirname(os.path.dirname(os.path.abspath(__file__)))
prop, patch = sys.argv[1], os.path.abspath(sys.argv[2])
extra = sys.argv[3:]
wt = tempfile.mkdtemp(prefix="seed-wt-")
os.rmdir(wt)
try:
    subprocess.run(["git", "-C", "/repo", "worktree", "add", "--detach", wt, "HEAD"], check=True, capture_output=True)
    r = subprocess.run(["git", "-C", wt, "apply", patch], capture_output=True, text=True)
    if r.returncode != 0:
        print("PATCH DOES NOT APPLY:", r.stderr); sys.exit(3)
    env = dict(os.environ); env["VF_REPO"] = wt
    r = subprocess.run([os.path.join(V, "check"), prop, "--no-evidence"] + extra, env=env, capture_output=True, text=True, cwd=V)
    out = r.stdout.splitlines()
    lines = []
    for i, l in enumerate(out):
        if l.startswith(("VIOLATION", "UNDECIDED", "KNOWN", prop)):
            lines.append(l[:200])
            if l.startswith("VIOLATION") and i + 1 < len(out) and out[i + 1].startswith("  failed"):
                lines.append(out[i + 1][:200])
    print("\n".join(lines[:30]))
    print({0: "MISSED (exit 0)", 1: "DETECTED (exit 1)", 2: "UNDECIDED (exit 2)"}.get(r.returncode, "rc=%s" % r.returncode))
    sys.exit(0)
finally:
    subprocess.run(["git", "-C", "/repo", "worktree", "remove", "--force", wt], capture_output=True)
    shutil.rmtree(wt, ignore_errors=True)
