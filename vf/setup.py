#!/usr/bin/env python3
"""Offline setup: nothing to build (python stdlib + pre-installed cbmc). Verifies tools."""
import shutil, subprocess, sys
missing = [t for t in ("cbmc", "goto-cc", "goto-instrument", "gcc") if shutil.which(t) is None]
if missing:
    print("missing tools:", missing); sys.exit(1)
print(subprocess.run(["cbmc", "--version"], capture_output=True, text=True).stdout.strip())
sys.exit(0)
