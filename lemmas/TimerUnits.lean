import Mathlib.Tactic
-- Glue lemma for C06 (timer unit conversion): if the programmed timespec is
--   sec = data / K,  nsec = (data % K) * U   with  K * U = 10^9,
-- then sec * 10^9 + nsec = data * U  and  nsec < 10^9.   (pure arithmetic, no statement about the C code)
theorem timer_units (data K U : Nat) (hK : 0 < K) (hKU : K * U = 1000000000) :
    (data / K) * 1000000000 + (data % K) * U = data * U ∧ (data % K) * U < 1000000000 := by
  constructor
  · have h := Nat.div_add_mod data K
    calc (data / K) * 1000000000 + (data % K) * U
        = (data / K) * (K * U) + (data % K) * U := by rw [hKU]
      _ = (K * (data / K) + data % K) * U := by ring
      _ = data * U := by rw [h]
  · have hlt : data % K < K := Nat.mod_lt _ hK
    have hU : 0 < U := by
      rcases Nat.eq_zero_or_pos U with h | h
      · simp [h] at hKU
      · exact h
    calc (data % K) * U < K * U := Nat.mul_lt_mul_of_pos_right hlt hU
      _ = 1000000000 := hKU
