/*
 * GOST 28147-89 reference specification, written from the standard's text as published in
 * RFC 5830 (GOST 28147-89: sections 4 "basic step", 5.1 32-З encryption cycle, 5.2 32-Р
 * decryption cycle, 5.3 16-З MAC cycle) and RFC 8891 (GOST R 34.12-2015 "Magma": the same
 * cipher with the S-box fixed; sections 4.1 - 4.4 t, g, G, G*, key schedule, E, D).
 *
 *   t(a)      : a = a7 || ... || a0 (4-bit groups, a0 least significant);
 *               t(a) = pi7(a7) || ... || pi0(a0)
 *   g[k](a)   : (t((a + k) mod 2^32)) <<< 11
 *   G[k]      : (a1, a0) -> (a0, g[k](a0) ^ a1)
 *   G*[k]     : (a1, a0) -> (g[k](a0) ^ a1) || a0          (last round: no swap)
 *   round keys: K1..K8 = the 8 key words; K(i+8) = K(i+16) = Ki; K(i+24) = K(9-i)
 *   E         = G*[K32] G[K31] ... G[K1]      D = G*[K1] G[K2] ... G[K32]
 *   MAC core  : (N1, N2) ^= data block; 16 rounds G[K1..K8], G[K1..K8] (RFC 5830 5.3)
 *
 * In RFC 5830 terms N1 = a0, N2 = a1.  S-box table layout as in RFC 4357 / the library:
 * 8 rows of 16 entries, row i is the substitution pi_i applied to 4-bit group a_i.
 * Byte conventions of GOST 28147-89 (RFC 5830, little-endian): key word K(i+1) = bytes
 * 4i .. 4i+3 little-endian; block bytes 0..3 = N1 little-endian, 4..7 = N2.
 *
 * Not derived from the library code.  Compiled natively and run against the RFC 8891
 * appendix A vectors by harness/C08/spec_selftest.c.
 */
#ifndef VF_GOST28147_SPEC_H
#define VF_GOST28147_SPEC_H
#include <stdint.h>
#include <stddef.h>

#define VF_GOST_ROTL(v, n)	((((uint32_t)(v)) << (n)) | (((uint32_t)(v)) >> (32 - (n))))

/* RFC 8891 4.2: t */
static inline uint32_t
vf_gost_t(const uint8_t sbox[128], uint32_t a) {
	uint32_t r = 0;
	unsigned i;
	for (i = 0; i < 8; i ++)
		r |= ((uint32_t)sbox[16 * i + ((a >> (4 * i)) & 15)]) << (4 * i);
	return (r);
}

/* the substitution + rotation part of g, as a function of the 32-bit sum.  Proof jobs that
 * establish the Feistel / key-schedule structure for an ARBITRARY round function
 * (contracts/gost28147.h, -DVF_G_ABSTRACT_ROUND) pre-define this hook as an uninterpreted
 * function; everywhere else it is the standard's text. */
#ifndef VF_GOST_ROUND_T
#define VF_GOST_ROUND_T(sbox, x)	VF_GOST_ROTL(vf_gost_t((sbox), (x)), 11)
#endif

/* RFC 8891 4.2: g[k](a) = t(a + k mod 2^32) <<< 11 */
static inline uint32_t
vf_gost_g(const uint8_t sbox[128], uint32_t k, uint32_t a) {
	return (VF_GOST_ROUND_T(sbox, (uint32_t)(a + k)));
}

/* round key number r (1..32) of the encryption schedule, as an index 0..7 into the key words */
static inline unsigned
vf_gost_enc_key_index(unsigned r) {
	return ((r <= 24) ? ((r - 1) % 8) : (32 - r));
}

/* RFC 8891 4.4 / RFC 5830 5.1: E.  (n1, n2) = (a0, a1). */
static inline void
vf_gost_encrypt_words(const uint32_t k[8], const uint8_t sbox[128], uint32_t n1, uint32_t n2,
    uint32_t *o1, uint32_t *o2) {
	unsigned r;
	uint32_t t;
	for (r = 1; r <= 31; r ++) {	/* G[K_r] */
		t = n2 ^ vf_gost_g(sbox, k[vf_gost_enc_key_index(r)], n1);
		n2 = n1;
		n1 = t;
	}
	n2 ^= vf_gost_g(sbox, k[vf_gost_enc_key_index(32)], n1);	/* G*[K32] */
	*o1 = n1;
	*o2 = n2;
}

/* RFC 8891 4.4 / RFC 5830 5.2: D = G*[K1] G[K2] ... G[K32] */
static inline void
vf_gost_decrypt_words(const uint32_t k[8], const uint8_t sbox[128], uint32_t n1, uint32_t n2,
    uint32_t *o1, uint32_t *o2) {
	unsigned r;
	uint32_t t;
	for (r = 32; r >= 2; r --) {	/* G[K_r] */
		t = n2 ^ vf_gost_g(sbox, k[vf_gost_enc_key_index(r)], n1);
		n2 = n1;
		n1 = t;
	}
	n2 ^= vf_gost_g(sbox, k[vf_gost_enc_key_index(1)], n1);	/* G*[K1] */
	*o1 = n1;
	*o2 = n2;
}

/* RFC 5830 5.3 / 6: one step of the MAC: accumulator ^= block, then the 16-З cycle
 * (the first 16 rounds of the encryption cycle, every round with the swap) */
static inline void
vf_gost_mac_words(const uint32_t k[8], const uint8_t sbox[128], uint32_t *m1, uint32_t *m2,
    uint32_t d1, uint32_t d2) {
	uint32_t n1 = *m1 ^ d1, n2 = *m2 ^ d2, t;
	unsigned r;
	for (r = 1; r <= 16; r ++) {
		t = n2 ^ vf_gost_g(sbox, k[vf_gost_enc_key_index(r)], n1);
		n2 = n1;
		n1 = t;
	}
	*m1 = n1;
	*m2 = n2;
}

/* ---- byte conventions of GOST 28147-89 (little-endian words) ---- */
static inline uint32_t
vf_gost_le32(const uint8_t *p) {
	return ((uint32_t)p[0] | ((uint32_t)p[1] << 8) | ((uint32_t)p[2] << 16) | ((uint32_t)p[3] << 24));
}
static inline void
vf_gost_put_le32(uint8_t *p, uint32_t v) {
	p[0] = (uint8_t)v; p[1] = (uint8_t)(v >> 8); p[2] = (uint8_t)(v >> 16); p[3] = (uint8_t)(v >> 24);
}
static inline void
vf_gost_key_words(const uint8_t key[32], uint32_t k[8]) {
	unsigned i;
	for (i = 0; i < 8; i ++)
		k[i] = vf_gost_le32(key + 4 * i);
}
static inline void
vf_gost_encrypt_block(const uint8_t key[32], const uint8_t sbox[128], const uint8_t in[8], uint8_t out[8]) {
	uint32_t k[8], o1, o2;
	vf_gost_key_words(key, k);
	vf_gost_encrypt_words(k, sbox, vf_gost_le32(in), vf_gost_le32(in + 4), &o1, &o2);
	vf_gost_put_le32(out, o1);
	vf_gost_put_le32(out + 4, o2);
}
static inline void
vf_gost_decrypt_block(const uint8_t key[32], const uint8_t sbox[128], const uint8_t in[8], uint8_t out[8]) {
	uint32_t k[8], o1, o2;
	vf_gost_key_words(key, k);
	vf_gost_decrypt_words(k, sbox, vf_gost_le32(in), vf_gost_le32(in + 4), &o1, &o2);
	vf_gost_put_le32(out, o1);
	vf_gost_put_le32(out + 4, o2);
}

/* The table form of g: entry i of table j (j = 0..3) is the contribution of byte j of the
 * argument having the value i:  ROTL11 of t restricted to that byte.  Because t acts on
 * 4-bit groups independently and the rotation permutes bit positions,
 *   g[k](a) = XOR_j entry(j, byte j of (a + k)).  (used for gost28147_init) */
static inline uint32_t
vf_gost_table_entry(const uint8_t sbox[128], unsigned j, unsigned i) {
	uint32_t lo = sbox[16 * (2 * j) + (i & 15)];
	uint32_t hi = sbox[16 * (2 * j + 1) + ((i >> 4) & 15)];
	uint32_t v = (lo | (hi << 4)) << (8 * j);
	return (VF_GOST_ROTL(v, 11));
}
#endif
