/*
 * Specification vocabulary for include/math/elliptic_curve.h and include/crypto/dsa/ecdsa.h
 * (properties C02, C03, C09; DESIGN.md section 4 "ghost status / ghost log").
 *
 * Include AFTER "crypto/dsa/ecdsa.h" (contracts/ecdsa.h does everything in the right order).
 *
 * What is modelled and what is not
 * --------------------------------
 * Big numbers are treated at the *modular* level: a bn_t is either well-formed (VF_BN_WF of
 * specs/bn_spec.h) or unspecified; its value VF_BN_VAL is only ever *compared* (range tests
 * r, s, d against n; zero tests; final v == r), never computed with.  No product, quotient or
 * inverse of values appears anywhere in C02/C03/C09 specifications: the algebra on 192..521-bit
 * fields is outside every installed solver (DESIGN section 2).
 *
 * Ghost state (file-scope objects written ONLY by the contracts of replaced callees):
 *   vf_ec_fail            sticky: some replaced status-returning callee returned != 0
 *   vf_ec_calls           number of replaced status-returning calls so far
 *   vf_st_<f>, vf_n_<f>   last status / call count of the point-level callees
 *   vf_<f>_<arg>          recorded operand identities of the last call, as integers VF_ID(p): cbmc 6.11
 *                         rewrites pointer equalities in ensures clauses into __CPROVER_pointer_equals,
 *                         which makes a SECOND assumed `ghost_ptr == p` infeasible (measured), so
 *                         identities are kept as unsigned long
 *   vf_io_*               byte-string traffic of bn_import_* / bn_export_* (first two calls of each)
 */
#ifndef VF_SPECS_EC_SPEC_H
#define VF_SPECS_EC_SPEC_H

#include "vf/vf.h"
#ifndef VF_REPLAY

/* identity of an object: the integer encoding of its address (object id + offset) */
#define VF_ID(p)	((unsigned long)(const void *)(p))

/* ---------------------------------------------------------------- ghost state ---- */
/* ONE object (so that the frame of an enforced function has a single ghost target: the cost of
 * DFCC's write-set checks grows with the number of targets - 70 separate ghost words made symex
 * ten times slower); every replaced contract assigns the sub-structs it owns, whole. */
#define VF_IO_LOG	4
struct vf_ec_ghost {
	struct { _Bool fail; unsigned calls; } st;
	struct { int st; unsigned n; unsigned long d, curve, res; } mult_bp;
	struct { int st; unsigned n; unsigned long Gd, b, bd, curve, res; } twin;
	struct { int st; unsigned n; unsigned long point, d, curve; int inf; } unkpt;
	struct { int st; unsigned n; unsigned long point, curve; } chk_pub;
	struct { int st; unsigned n; } chk_affine, chk_scalar;
	struct { int st; unsigned n; int odd; unsigned long point; } restore_y;
	struct { int st; unsigned n; unsigned long a0, a1, a2, a3, a4; long flag; } core, pk_import, pk_export;
	struct { unsigned n; unsigned long bn[VF_IO_LOG], m[VF_IO_LOG], last_bn, last_m; vf_bnv_t val; } mod;
	struct { unsigned n; unsigned long dst[VF_IO_LOG], src[VF_IO_LOG]; } assign;
	struct { unsigned n; unsigned long bn[2], m[2]; } reduce;
	struct { unsigned n, n3; unsigned long d, bn, m; } mult_digit;
	struct { unsigned n; unsigned long a, b; int r, r0, r1; } cmp;
	struct { int st; unsigned n; int fn; unsigned long a, b, c; int fnk[VF_IO_LOG]; unsigned long ak[VF_IO_LOG], bk[VF_IO_LOG], ck[VF_IO_LOG]; } pop;
	struct { unsigned n; _Bool z0, z1; unsigned long bn0, n0, m0; } msub;
	struct { unsigned n; unsigned long bn[VF_IO_LOG]; int r[VF_IO_LOG]; } iz;
	struct { unsigned n; unsigned long bn[VF_IO_LOG], nn[VF_IO_LOG]; } mmul;
	struct { unsigned n; unsigned long buf[VF_IO_LOG]; size_t size[VF_IO_LOG]; unsigned long bn[VF_IO_LOG]; } imp, exp;
} vf_g;

#define vf_ec_fail		vf_g.st.fail
#define vf_ec_calls		vf_g.st.calls
#define vf_st_mult_bp		vf_g.mult_bp.st
#define vf_n_mult_bp		vf_g.mult_bp.n
#define vf_mult_bp_d		vf_g.mult_bp.d
#define vf_mult_bp_curve	vf_g.mult_bp.curve
#define vf_mult_bp_res		vf_g.mult_bp.res
#define vf_st_twin		vf_g.twin.st
#define vf_n_twin		vf_g.twin.n
#define vf_twin_Gd		vf_g.twin.Gd
#define vf_twin_b		vf_g.twin.b
#define vf_twin_bd		vf_g.twin.bd
#define vf_twin_curve		vf_g.twin.curve
#define vf_twin_res		vf_g.twin.res
#define vf_st_unkpt		vf_g.unkpt.st
#define vf_n_unkpt		vf_g.unkpt.n
#define vf_unkpt_point		vf_g.unkpt.point
#define vf_unkpt_d		vf_g.unkpt.d
#define vf_unkpt_curve		vf_g.unkpt.curve
#define vf_unkpt_inf		vf_g.unkpt.inf	/* infinity flag of its result */
#define vf_st_chk_pub		vf_g.chk_pub.st
#define vf_n_chk_pub		vf_g.chk_pub.n
#define vf_chk_pub_point	vf_g.chk_pub.point
#define vf_chk_pub_curve	vf_g.chk_pub.curve
#define vf_st_chk_affine	vf_g.chk_affine.st
#define vf_n_chk_affine		vf_g.chk_affine.n
#define vf_st_chk_scalar	vf_g.chk_scalar.st
#define vf_n_chk_scalar		vf_g.chk_scalar.n
#define vf_st_restore_y		vf_g.restore_y.st
#define vf_n_restore_y		vf_g.restore_y.n
#define vf_restore_y_odd	vf_g.restore_y.odd
#define vf_restore_y_point	vf_g.restore_y.point
/* projective / affine point operations of elliptic_curve.h as replaced callees: last status, call
 * count, WHICH function (VF_POP_*), operand identities */
#define vf_st_pop		vf_g.pop.st
#define vf_n_pop		vf_g.pop.n
#define vf_pop_fn		vf_g.pop.fn
#define vf_pop_a		vf_g.pop.a
#define vf_pop_b		vf_g.pop.b
#define vf_pop_c		vf_g.pop.c
/* the first four point operations, in order */
#define vf_pop_fnk		vf_g.pop.fnk
#define vf_pop_ak		vf_g.pop.ak
#define vf_pop_bk		vf_g.pop.bk
#define vf_pop_ck		vf_g.pop.ck
enum { VF_POP_none, VF_POP_import_affine, VF_POP_norm, VF_POP_export_affine, VF_POP_add, VF_POP_sub, VF_POP_dbl_n,
	VF_POP_add_mix, VF_POP_sub_mix, VF_POP_fpx_mult, VF_POP_unkpt_mult, VF_POP_unkpt_pre, VF_POP_fpx_mult_affine,
	VF_POP_unkpt_mult_affine, VF_POP_twin_mult, VF_POP_bin_mult, VF_POP_affine_add, VF_POP_affine_sub, VF_POP_inter_pre };
/* the bn_t-level sign / verify / dh / key_gen when they are callees of the byte-string wrappers */
#define vf_st_core		vf_g.core.st
#define vf_n_core		vf_g.core.n
#define vf_core_a0		vf_g.core.a0
#define vf_core_a1		vf_g.core.a1
#define vf_core_a2		vf_g.core.a2
#define vf_core_a3		vf_g.core.a3
#define vf_core_a4		vf_g.core.a4
#define vf_core_flag		vf_g.core.flag
/* ecdsa_pub_key_import_* / _export_* as callees: a0 curve, a1 pub_key_x, a2 pub_key_y, a3 size (import) or
 * size pointer (export), a4 point, flag = compress (export) */
#define vf_st_pk_import		vf_g.pk_import.st
#define vf_n_pk_import		vf_g.pk_import.n
#define vf_st_pk_export		vf_g.pk_export.st
#define vf_n_pk_export		vf_g.pk_export.n
/* bn_mod / bn_assign: operand identities of the first four calls; last bn_mod: operands and the
 * value it produced */
#define vf_n_mod		vf_g.mod.n
#define vf_mod_bn		vf_g.mod.bn
#define vf_mod_m		vf_g.mod.m
#define vf_mod_last_bn		vf_g.mod.last_bn
#define vf_mod_last_m		vf_g.mod.last_m
#define vf_mod_val		vf_g.mod.val
#define vf_n_assign		vf_g.assign.n
#define vf_assign_dst		vf_g.assign.dst
#define vf_assign_src		vf_g.assign.src
/* "x was assigned from src" / "x was reduced modulo m by bn_mod" / "x went through bn_mod_reduce"
 * somewhere among the logged calls */
#define VF_SL(cnt, k, c)	((cnt) > (k) && (c))
#define VF_ASSIGNED_FROM(x, s)	(VF_SL(vf_n_assign, 0, vf_assign_dst[0] == (x) && vf_assign_src[0] == (s)) ||	\
	VF_SL(vf_n_assign, 1, vf_assign_dst[1] == (x) && vf_assign_src[1] == (s)) ||			\
	VF_SL(vf_n_assign, 2, vf_assign_dst[2] == (x) && vf_assign_src[2] == (s)) ||			\
	VF_SL(vf_n_assign, 3, vf_assign_dst[3] == (x) && vf_assign_src[3] == (s)))
#define VF_MOD_BY(x, mm)	(VF_SL(vf_n_mod, 0, vf_mod_bn[0] == (x) && vf_mod_m[0] == (mm)) ||	\
	VF_SL(vf_n_mod, 1, vf_mod_bn[1] == (x) && vf_mod_m[1] == (mm)) ||				\
	VF_SL(vf_n_mod, 2, vf_mod_bn[2] == (x) && vf_mod_m[2] == (mm)) ||				\
	VF_SL(vf_n_mod, 3, vf_mod_bn[3] == (x) && vf_mod_m[3] == (mm)))
#define VF_REDUCED(x)		(VF_SL(vf_n_reduce, 0, vf_reduce_bn[0] == (x)) || VF_SL(vf_n_reduce, 1, vf_reduce_bn[1] == (x)))
/* the copy of `src` (made by some logged bn_assign) was reduced modulo m by bn_mod and never went
 * through bn_mod_reduce */
#define VF_COPY_MOD(k, s, mm)	VF_SL(vf_n_assign, k, vf_assign_src[k] == (s) && VF_MOD_BY(vf_assign_dst[k], (mm)) && !VF_REDUCED(vf_assign_dst[k]))
#define VF_COPY_OF_MOD(s, mm)	(VF_COPY_MOD(0, s, mm) || VF_COPY_MOD(1, s, mm) || VF_COPY_MOD(2, s, mm) || VF_COPY_MOD(3, s, mm))
/* bn_mod_reduce ((x mod (m-1)) + 1, the NONCE reduction): first two calls */
#define vf_n_reduce		vf_g.reduce.n
#define vf_reduce_bn		vf_g.reduce.bn
#define vf_reduce_m		vf_g.reduce.m
/* last bn_cmp: operands and result */
#define vf_n_cmp			vf_g.cmp.n
#define vf_cmp_a		vf_g.cmp.a
#define vf_cmp_b		vf_g.cmp.b
#define vf_cmp_r		vf_g.cmp.r
#define vf_cmp_r0		vf_g.cmp.r0	/* result of the first / second bn_cmp */
#define vf_cmp_r1		vf_g.cmp.r1
/* bn_mod_sub: was the result of the first / second call zero (digits == 0)? */
#define vf_n_msub		vf_g.msub.n
#define vf_msub_z0		vf_g.msub.z0
#define vf_msub_z1		vf_g.msub.z1
/* operands of the FIRST bn_mod_sub: bn = (bn - n) mod m */
#define vf_msub_bn0		vf_g.msub.bn0
#define vf_msub_n0		vf_g.msub.n0
#define vf_msub_m0		vf_g.msub.m0
/* bn_is_zero as a replaced callee (only where a job lists it): operand and result of the first four calls */
#define vf_n_iz			vf_g.iz.n
#define vf_iz_bn		vf_g.iz.bn
#define vf_iz_r			vf_g.iz.r
/* bn_mod_mult: bn = (bn * nn) mod m, operands of the first four calls */
#define vf_n_mmul		vf_g.mmul.n
#define vf_mmul_bn		vf_g.mmul.bn
#define vf_mmul_nn		vf_g.mmul.nn
#define vf_n_mult_digit		vf_g.mult_digit.n
#define vf_n_mult_digit3	vf_g.mult_digit.n3	/* calls with digit 3 (the 3 X^2 of the doubling formulas) */
#define vf_mult_digit_d		vf_g.mult_digit.d
#define vf_mult_digit_bn	vf_g.mult_digit.bn
#define vf_mult_digit_m		vf_g.mult_digit.m
/* byte-string traffic: k-th import (k < 4) read exactly buf[k][0 .. size[k]) into number bn[k] */
#define vf_n_imp		vf_g.imp.n
#define vf_imp_buf		vf_g.imp.buf
#define vf_imp_size		vf_g.imp.size
#define vf_imp_bn		vf_g.imp.bn
#define vf_n_exp		vf_g.exp.n
#define vf_exp_buf		vf_g.exp.buf
#define vf_exp_size		vf_g.exp.size
#define vf_exp_bn		vf_g.exp.bn

/* every status-returning replaced callee: sticky failure flag + call counter */
#define VF_EC_STATUS_ASSIGNS	vf_g.st
#define VF_EC_STATUS_ENSURES							\
	(vf_ec_fail == (__CPROVER_old(vf_ec_fail) || __CPROVER_return_value != 0) &&	\
	 vf_ec_calls == __CPROVER_old(vf_ec_calls) + 1u)

/* reset by the harness before the call under test */
/* (struct assignment, not memset: a byte-wise memset of the struct costs seconds of symex) */
static const struct vf_ec_ghost vf_g_zero;
#define VF_EC_GHOST_RESET()	do { vf_g = vf_g_zero; } while (0)

/* frame of every enforced ecdsa_ / ec_ function: the whole ghost state */
#define VF_EC_GHOST_FRAME	vf_g

/* ------------------------------------------------------- well-formedness ---- */
/* by-value forms: ONE dereference per number (each p->num[i] inside a clause costs a pointer
 * check on a large object; measured 3 s of symex per VF_EC_CURVE_WF written with macros only) */
static inline _Bool
vf_bn_wf(bn_t s) {
	return (VF_BN_WF(s));
}
static inline _Bool
vf_bn_ge2(bn_t s) {
	return (s.digits >= 2 || (s.digits == 1 && s.num[0] >= 2));
}
/* point: both coordinates well-formed numbers (whatever the infinity flag says) */
#ifdef VF_EC_WF_FIELDS
/* field-wise form for the ladder jobs: a by-value copy of a table slot at a SYMBOLIC index is a
 * 511-way multiplexer over 400 bytes (formula > 10 GB); reading count / digits / top digit is not */
#define VF_BN_WF_F(n)		((n).count >= 1 && (n).count <= BN_MAX_DIGITS && (n).digits <= (n).count &&	\
	((n).digits == 0 || (n).num[(n).digits - 1] != 0))
#define VF_EC_POINT_WF(pt)	(VF_BN_WF_F((pt).x) && VF_BN_WF_F((pt).y))
#else
#define VF_EC_POINT_WF(pt)	(vf_bn_wf((pt).x) && vf_bn_wf((pt).y))
#endif
#define VF_EC_POINT_OK(p)	(__CPROVER_rw_ok((p), sizeof(ec_point_t)))
/* result point of a successful multiplication: infinity, or two well-formed coordinates */
#define VF_EC_POINT_RES(pt)	((pt).infinity != 0 || VF_EC_POINT_WF(pt))
/* point frame: coordinates' digits and num[], infinity flag (count never changes) */
#define VF_EC_POINT_FRAME(p)	VF_BN_FRAME(&(p)->x), VF_BN_FRAME(&(p)->y), (p)->infinity

/* curve object: caller-owned, numbers well-formed, order n >= 2, bit size 1..BN_BIT_LEN.
 * Nothing is said about p being prime, G being on the curve, n being the order of G:
 * the obligations below hold for every such object. */
#define VF_EC_CURVE_OK(c)	(__CPROVER_rw_ok((c), sizeof(ec_curve_t)))
#define VF_EC_CURVE_WF(c)	((c).m >= 1 && (c).m <= BN_BIT_LEN &&			\
	vf_bn_wf((c).p) && vf_bn_wf((c).a) && vf_bn_wf((c).b) &&			\
	vf_bn_wf((c).G.x) && vf_bn_wf((c).G.y) && vf_bn_wf((c).n) && vf_bn_ge2((c).n))
#define VF_EC_BYTES(c)		(((c)->m + 7) / 8)

#endif /* !VF_REPLAY */
#endif /* VF_SPECS_EC_SPEC_H */
