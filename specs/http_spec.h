/*
 * Reference delimiting rules for HTTP/1.1 messages -- RFC 7230 section 3 (message format),
 * section 5.3 (request-target forms), RFC 3986 section 3 (URI components).
 *
 * Written from the RFC text and the statement of property C20, NOT from src/proto/http.c.
 * Plain C over (bytes, length): compiled by goto-cc for the bounded C20 harnesses (loops are
 * unwound completely) and natively for the replay oracle.  All results are byte offsets
 * into the input ("spans"): [pos, pos+len).
 *
 * Where the library documents a choice that the RFC leaves open, the choice is named here:
 *   L1  the block handed to the header functions starts with the start-line: fields are the
 *       lines AFTER the first CRLF;
 *   L2  runs of SP/HTAB (bytes < 33) between the three request-line parts are tolerated
 *       (RFC 7230 3.5 permits such leniency); a strictly well-formed line has single SPs;
 *   L3  abs_path is the path with a leading run of '/' collapsed to its last '/', and, when
 *       there is no query, trailing '/' removed down to at least one byte ("trimming of
 *       redundant slashes");
 *   L4  rule 2 of http_req_sec_chk treats every byte > 126 as a control byte (DEL, obs-text);
 *   L5  field values are trimmed of SP, HTAB, CR, LF at both ends (OWS plus the remains of
 *       obs-fold, RFC 7230 3.2.4).
 */
#ifndef VF_HTTP_SPEC_H
#define VF_HTTP_SPEC_H
#include <stddef.h>
#include <stdint.h>

#define VS_NPOS ((size_t)-1)

typedef struct vs_span { size_t pos, len; } vs_span;

static inline int vs_is_digit(uint8_t c) { return (c >= '0' && c <= '9'); }
static inline int vs_is_alpha(uint8_t c) { return ((c >= 'A' && c <= 'Z') || (c >= 'a' && c <= 'z')); }
static inline uint8_t vs_lower(uint8_t c) { return ((c >= 'A' && c <= 'Z') ? (uint8_t)(c + 32) : c); }
/* RFC 7230 3.2.6 tchar */
static inline int
vs_is_tchar(uint8_t c) {
	if (vs_is_digit(c) || vs_is_alpha(c))
		return (1);
	switch (c) {
	case '!': case '#': case '$': case '%': case '&': case '\'': case '*': case '+':
	case '-': case '.': case '^': case '_': case '`': case '|': case '~':
		return (1);
	}
	return (0);
}
/* RFC 3986 3.1: scheme = ALPHA *( ALPHA / DIGIT / "+" / "-" / "." ) */
static inline int vs_is_scheme_char(uint8_t c) { return (vs_is_alpha(c) || vs_is_digit(c) || c == '+' || c == '-' || c == '.'); }
static inline int vs_is_lws(uint8_t c) { return (c == ' ' || c == '\t' || c == '\r' || c == '\n'); }

/* first index i in [from, to) with b[i] == c, else VS_NPOS */
static inline size_t
vs_find_byte(const uint8_t *b, size_t from, size_t to, uint8_t c) {
	for (size_t i = from; i < to; i ++) {
		if (b[i] == c)
			return (i);
	}
	return (VS_NPOS);
}
/* first index i in [from, to-1) with b[i..i+2) == CR LF, else VS_NPOS */
static inline size_t
vs_find_crlf(const uint8_t *b, size_t from, size_t to) {
	for (size_t i = from; i + 1 < to; i ++) {
		if (b[i] == '\r' && b[i + 1] == '\n')
			return (i);
	}
	return (VS_NPOS);
}
/* RFC 7230 3: the start-line ends at the first CRLF (or at the end of a truncated block) */
static inline size_t
vs_line_end(const uint8_t *b, size_t n) {
	size_t e = vs_find_crlf(b, 0, n);
	return ((e == VS_NPOS) ? n : e);
}

/* ------------------------------------------------------------------ request-line ---- */
/* RFC 7230 3.1.1: request-line = method SP request-target SP HTTP-version CRLF */
typedef struct vs_req {
	size_t	line_len;
	vs_span	method, target, version;
	int	strict;		/* single SP separators, version is exactly 8 bytes at the line end */
	unsigned ver_major, ver_minor;
} vs_req;

/* HTTP-version = "HTTP/" DIGIT "." DIGIT at b[p..p+8) */
static inline int
vs_is_http_version(const uint8_t *b, size_t p, size_t end) {
	return (end >= p && end - p >= 8 &&
	    b[p] == 'H' && b[p + 1] == 'T' && b[p + 2] == 'T' && b[p + 3] == 'P' && b[p + 4] == '/' &&
	    vs_is_digit(b[p + 5]) && b[p + 6] == '.' && vs_is_digit(b[p + 7]));
}

/* Splits the start-line of b[0..n) (leniency L2). Returns 1 when the three parts exist. */
static inline int
vs_req_split(const uint8_t *b, size_t n, vs_req *r) {
	size_t e = vs_line_end(b, n), m, t, u, v;

	r->line_len = e;
	r->strict = 0;
	m = vs_find_byte(b, 0, e, ' ');		/* method ends at the first SP */
	if (m == VS_NPOS || m == 0)
		return (0);
	r->method.pos = 0;
	r->method.len = m;
	for (t = m; t < e && b[t] < 33; t ++)	/* separator run */
		;
	if (t == e)
		return (0);
	u = vs_find_byte(b, t, e, ' ');		/* target ends at the next SP */
	if (u == VS_NPOS)
		return (0);
	r->target.pos = t;
	r->target.len = u - t;
	for (v = u; v < e && b[v] < 33; v ++)
		;
	if (!vs_is_http_version(b, v, e))
		return (0);
	r->version.pos = v;
	r->version.len = 8;
	r->ver_major = (unsigned)(b[v + 5] - '0');
	r->ver_minor = (unsigned)(b[v + 7] - '0');
	r->strict = (t == m + 1 && v == u + 1 && v + 8 == e);
	return (1);
}

/* method = token (RFC 7230 3.1.1): every byte a tchar */
static inline int
vs_is_token(const uint8_t *b, size_t pos, size_t len) {
	if (len == 0)
		return (0);
	for (size_t i = 0; i < len; i ++) {
		if (!vs_is_tchar(b[pos + i]))
			return (0);
	}
	return (1);
}

/* request-target forms, RFC 7230 5.3 */
#define VS_TGT_OTHER		0
#define VS_TGT_ORIGIN		1	/* absolute-path [ "?" query ] */
#define VS_TGT_ABSOLUTE		2	/* scheme "://" authority path-abempty [ "?" query ] */
#define VS_TGT_ASTERISK		3
#define VS_TGT_AUTHORITY	4	/* CONNECT only */

typedef struct vs_target {
	int	form;
	vs_span	scheme, authority, path, query;	/* raw components; len == 0 when absent */
	int	has_query;
	vs_span	trimmed_path;			/* L3 */
} vs_target;

static inline int
vs_method_is(const uint8_t *b, vs_span m, const char *name, size_t name_len) {
	if (m.len != name_len)
		return (0);
	for (size_t i = 0; i < name_len; i ++) {
		if (b[m.pos + i] != (uint8_t)name[i])
			return (0);
	}
	return (1);
}

/* L3: collapse the leading '/' run to its last '/'; without a query strip trailing '/'
 * but keep at least one byte */
static inline vs_span
vs_trim_path(const uint8_t *b, vs_span p, int has_query) {
	vs_span r = p;

	while (r.len >= 2 && b[r.pos] == '/' && b[r.pos + 1] == '/') {
		r.pos ++;
		r.len --;
	}
	if (!has_query) {
		while (r.len >= 2 && b[r.pos + r.len - 1] == '/')
			r.len --;
	}
	return (r);
}

/* Decomposes the request-target b[t.pos .. t.pos+t.len) (RFC 3986 3: the authority ends
 * at the first "/", "?" or at the end; the query starts after the first "?"). */
static inline void
vs_target_split(const uint8_t *b, vs_span t, int method_is_connect, vs_target *o) {
	size_t end = t.pos + t.len, i, q, path_pos;

	o->form = VS_TGT_OTHER;
	o->scheme.pos = o->authority.pos = o->path.pos = o->query.pos = t.pos;
	o->scheme.len = o->authority.len = o->path.len = o->query.len = 0;
	o->has_query = 0;
	o->trimmed_path = o->path;
	if (method_is_connect) {
		o->form = VS_TGT_AUTHORITY;
		o->authority = t;
		return;
	}
	if (t.len == 1 && b[t.pos] == '*') {
		o->form = VS_TGT_ASTERISK;
		return;
	}
	if (t.len >= 1 && b[t.pos] == '/') {
		o->form = VS_TGT_ORIGIN;
		path_pos = t.pos;
	} else {
		/* absolute-form: valid scheme followed by "://" */
		if (t.len == 0 || !vs_is_alpha(b[t.pos]))
			return;
		for (i = t.pos; i < end && vs_is_scheme_char(b[i]); i ++)
			;
		if (!(end - i >= 3 && b[i] == ':' && b[i + 1] == '/' && b[i + 2] == '/'))
			return;
		o->form = VS_TGT_ABSOLUTE;
		o->scheme.pos = t.pos;
		o->scheme.len = i - t.pos;
		o->authority.pos = i + 3;
		for (i = i + 3; i < end && b[i] != '/' && b[i] != '?'; i ++)
			;
		o->authority.len = i - o->authority.pos;
		path_pos = i;
	}
	q = vs_find_byte(b, path_pos, end, '?');
	o->path.pos = path_pos;
	if (q == VS_NPOS) {
		o->path.len = end - path_pos;
	} else {
		o->path.len = q - path_pos;
		o->has_query = 1;
		o->query.pos = q + 1;
		o->query.len = end - (q + 1);
	}
	o->trimmed_path = vs_trim_path(b, o->path, o->has_query);
}

/* -------------------------------------------------------------------- status-line ---- */
/* RFC 7230 3.1.2: status-line = HTTP-version SP status-code SP reason-phrase CRLF */
typedef struct vs_resp {
	size_t	line_len;
	unsigned ver_major, ver_minor, status;
	vs_span	reason;
} vs_resp;

static inline int
vs_resp_split(const uint8_t *b, size_t n, vs_resp *r) {
	size_t e = vs_line_end(b, n);

	r->line_len = e;
	if (e < 13 || !vs_is_http_version(b, 0, e) || b[8] != ' ' ||
	    !vs_is_digit(b[9]) || !vs_is_digit(b[10]) || !vs_is_digit(b[11]) || b[12] != ' ')
		return (0);
	r->ver_major = (unsigned)(b[5] - '0');
	r->ver_minor = (unsigned)(b[7] - '0');
	r->status = (unsigned)(b[9] - '0') * 100 + (unsigned)(b[10] - '0') * 10 + (unsigned)(b[11] - '0');
	r->reason.pos = 13;
	r->reason.len = e - 13;
	return (1);
}

/* ------------------------------------------------------------------ header fields ---- */
/* RFC 7230 3.2: header-field = field-name ":" OWS field-value OWS, one per line; a line is
 * continued by obs-fold = CRLF 1*( SP / HTAB ).  End of the logical line starting at s: the
 * first CRLF not followed by SP/HTAB (a CRLF that ends the block ends the line), else n. */
static inline size_t
vs_field_line_end(const uint8_t *b, size_t n, size_t s) {
	size_t i = s;

	for (;;) {
		i = vs_find_crlf(b, i, n);
		if (i == VS_NPOS)
			return (n);
		if (i + 2 >= n || (b[i + 2] != ' ' && b[i + 2] != '\t'))
			return (i);
		i += 2;
	}
}

static inline int
vs_name_eq_nocase(const uint8_t *b, size_t pos, size_t len, const uint8_t *name, size_t name_len) {
	if (len != name_len)
		return (0);
	for (size_t i = 0; i < len; i ++) {
		if (vs_lower(b[pos + i]) != vs_lower(name[i]))
			return (0);
	}
	return (1);
}

static inline vs_span
vs_trim_lws(const uint8_t *b, size_t from, size_t to) {
	vs_span r;

	while (from < to && vs_is_lws(b[from]))
		from ++;
	while (from < to && vs_is_lws(b[to - 1]))
		to --;
	r.pos = from;
	r.len = to - from;
	return (r);
}

/* Walks the field lines that start after the first CRLF at or after `offset` (L1) in ONE
 * pass over the bytes (equivalent to: split into logical lines with vs_field_line_end, take
 * the bytes before the first ':' of each line as its name).  A field matches iff it starts a
 * line and its name equals `name` ignoring case; an empty line ends the header section.
 * Returns the number of matching fields;
 * for the FIRST match: *val = trimmed value (L5), *next = offset of the CRLF that ends the
 * field (or n).  With stop_at_first != 0 the walk ignores everything after the first match. */
static inline size_t
vs_hdr_walk(const uint8_t *b, size_t n, const uint8_t *name, size_t name_len, size_t offset,
    int stop_at_first, vs_span *val, size_t *next) {
	size_t cnt = 0, s = 0, c = VS_NPOS, vfirst = VS_NPOS, vlast = VS_NPOS;
	int in_fields = 0, done = 0;

	for (size_t i = 0; i <= n; i ++) {
		int at_end = (i == n);
		int crlf = (!at_end && i >= offset && i + 1 < n && b[i] == '\r' && b[i + 1] == '\n');
		int fold = (crlf && i + 2 < n && (b[i + 2] == ' ' || b[i + 2] == '\t'));

		if (done)
			continue;
		if (!in_fields) {
			if (crlf) {		/* end of the start-line */
				in_fields = 1;
				s = i + 2;
				c = VS_NPOS; vfirst = VS_NPOS; vlast = VS_NPOS;
			}
			continue;
		}
		if (crlf && i == s) {		/* empty line: end of the header section (RFC 7230 3) */
			done = 1;
			continue;
		}
		if ((crlf && !fold && i >= s) || (at_end && s < n)) {	/* logical line [s, i) ends */
			if (c != VS_NPOS && vs_name_eq_nocase(b, s, c - s, name, name_len)) {
				if (cnt == 0) {
					if (vfirst == VS_NPOS) {
						val->pos = i;
						val->len = 0;
					} else {
						val->pos = vfirst;
						val->len = vlast + 1 - vfirst;
					}
					*next = i;
				}
				cnt ++;
				if (stop_at_first)
					done = 1;
			}
			s = i + 2;
			c = VS_NPOS; vfirst = VS_NPOS; vlast = VS_NPOS;
			continue;
		}
		if (at_end || i < s)
			continue;
		if (c == VS_NPOS) {
			if (b[i] == ':')
				c = i;
		} else if (!vs_is_lws(b[i])) {
			if (vfirst == VS_NPOS)
				vfirst = i;
			vlast = i;
		}
	}
	return (cnt);
}

static inline int
vs_hdr_find(const uint8_t *b, size_t n, const uint8_t *name, size_t name_len, size_t offset,
    vs_span *val, size_t *next) {
	return (vs_hdr_walk(b, n, name, name_len, offset, 1, val, next) != 0);
}

static inline size_t
vs_hdr_count(const uint8_t *b, size_t n, const uint8_t *name, size_t name_len) {
	vs_span v = { 0, 0 };
	size_t next = 0;

	return (vs_hdr_walk(b, n, name, name_len, 0, 0, &v, &next));
}

/* ------------------------------------------------- request smuggling rule table ---- */
/* Rules of http_req_sec_chk (statement of C20; codes as documented in the source comment):
 *   2  a control byte: < 32 other than HTAB and other than CR LF as a pair, or > 126 (L4)
 *   1  SP directly before ':'
 *   (the first offending byte decides between 1 and 2)
 *   3  more than one Host            4  more than one Content-Length
 *   5  Content-Length on GET         6  more than one Transfer-Encoding
 *   7  Content-Length together with Transfer-Encoding           0  none of these */
static inline int
vs_byte_rule(const uint8_t *b, size_t n, size_t i) {
	uint8_t c = b[i];

	if (c > 126)
		return (2);
	if (c == ' ' && i + 1 < n && b[i + 1] == ':')
		return (1);
	if (c >= 32 || c == '\t')
		return (0);
	if (c == '\r' && i + 1 < n && b[i + 1] == '\n')
		return (0);
	if (c == '\n' && i > 0 && b[i - 1] == '\r')
		return (0);
	return (2);
}
static inline int
vs_sec_bytes(const uint8_t *b, size_t n) {
	for (size_t i = 0; i < n; i ++) {
		int r = vs_byte_rule(b, n, i);
		if (r != 0)
			return (r);
	}
	return (0);
}
static inline int
vs_sec_table(int byte_rule, size_t host_cnt, size_t cl_cnt, size_t te_cnt, int method_is_get) {
	if (byte_rule != 0)
		return (byte_rule);
	if (host_cnt > 1)
		return (3);
	if (cl_cnt > 1)
		return (4);
	if (cl_cnt != 0 && method_is_get)
		return (5);
	if (te_cnt > 1)
		return (6);
	if (cl_cnt != 0 && te_cnt != 0)
		return (7);
	return (0);
}

/* ------------------------------------------------------------------- query string ---- */
/* application/x-www-form-urlencoded (HTML 4.01 17.13.4): pairs name "=" value separated by
 * "&"; empty pairs are skipped.  First pair whose name equals `name` ignoring case. */
static inline int
vs_query_find(const uint8_t *b, size_t n, const uint8_t *name, size_t name_len,
    size_t *name_pos, vs_span *val) {
	size_t s = 0, e, eq;

	while (s < n) {
		e = vs_find_byte(b, s, n, '&');
		if (e == VS_NPOS)
			e = n;
		eq = vs_find_byte(b, s, e, '=');
		if (eq != VS_NPOS && vs_name_eq_nocase(b, s, eq - s, name, name_len)) {
			*name_pos = s;
			val->pos = eq + 1;
			val->len = e - (eq + 1);
			return (1);
		}
		s = e + 1;
	}
	return (0);
}

/* ------------------------------------------------------------ chunked transfer coding ---- */
/* RFC 7230 4.1:  chunked-body = *chunk last-chunk trailer-part CRLF
 *                chunk        = chunk-size [ chunk-ext ] CRLF chunk-data CRLF
 *                chunk-size   = 1*HEXDIG          last-chunk = 1*("0") [ chunk-ext ] CRLF
 * Reference decoder for bodies WITHOUT chunk extensions, one pass over the bytes: returns 1
 * iff b[0..n) is a sequence of well-formed chunks followed by a last-chunk line (whatever
 * follows the last-chunk line - trailer, final CRLF - is ignored); then out[0..*out_len) is the
 * concatenation of the chunk-data.  `out` must have room for n bytes. */
static inline int
vs_hex_val(uint8_t c) {
	if (c >= '0' && c <= '9') return (c - '0');
	if (c >= 'a' && c <= 'f') return (c - 'a' + 10);
	if (c >= 'A' && c <= 'F') return (c - 'A' + 10);
	return (-1);
}
static inline int
vs_chunked_decode(const uint8_t *b, size_t n, uint8_t *out, size_t *out_len) {
	enum { S_SIZE, S_SIZE_LF, S_DATA, S_DATA_CR, S_DATA_LF, S_DONE, S_BAD } st = S_SIZE;
	size_t v = 0, rem = 0, olen = 0;
	int have_digit = 0;

	for (size_t i = 0; i < n; i ++) {
		uint8_t c = b[i];
		int h = vs_hex_val(c);

		switch (st) {
		case S_SIZE:
			if (h >= 0) {
				v = v * 16 + (size_t)h;
				have_digit = 1;
				if (v > n)	/* cannot fit: not a well-formed body of n bytes */
					st = S_BAD;
			} else if (c == '\r' && have_digit) {
				st = S_SIZE_LF;
			} else {
				st = S_BAD;
			}
			break;
		case S_SIZE_LF:
			if (c != '\n') {
				st = S_BAD;
			} else if (v == 0) {
				st = S_DONE;
			} else {
				rem = v;
				st = S_DATA;
			}
			break;
		case S_DATA:
			out[olen ++] = c;
			rem --;
			if (rem == 0)
				st = S_DATA_CR;
			break;
		case S_DATA_CR:
			st = (c == '\r') ? S_DATA_LF : S_BAD;
			break;
		case S_DATA_LF:
			if (c == '\n') {
				st = S_SIZE;
				v = 0;
				have_digit = 0;
			} else {
				st = S_BAD;
			}
			break;
		default:
			break;
		}
	}
	*out_len = olen;
	return (st == S_DONE);
}

/* ------------------------------------------------------------------ method table ---- */
/* the registered method names of include/proto/http.h, by code */
static inline uint32_t
vs_method_code(const uint8_t *m, size_t len) {
	static const char *const names[] = { "", "OPTIONS", "GET", "HEAD", "POST", "PUT", "DELETE",
	    "TRACE", "CONNECT", "NOTIFY", "M-SEARCH", "M-POST", "SUBSCRIBE", "UNSUBSCRIBE" };
	static const size_t lens[] = { 0, 7, 3, 4, 4, 3, 6, 5, 7, 6, 8, 6, 9, 11 };

	for (uint32_t c = 1; c < 14; c ++) {
		if (lens[c] != len)
			continue;
		size_t i;
		for (i = 0; i < len && m[i] == (uint8_t)names[c][i]; i ++)
			;
		if (i == len)
			return (c);
	}
	return (0);
}

#endif
