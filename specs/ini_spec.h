/*
 * Specification vocabulary for src/utils/ini.c (property C17, INI part of C12; DESIGN.md
 * section 5 "C17").  The store types (ini_t, ini_line_t) are private to ini.c, therefore
 * this file is included AFTER `#include "src/utils/ini.c"` in the harness translation unit.
 *
 * Abstract view of a store: the sequence of its non-NULL lines (type, data bytes, name,
 * val).  Everything below is plain C so that it also compiles for the native replay
 * (-DVF_REPLAY); the CBMC-only memory primitives are guarded.
 *
 *   vf_ini_line_wf(l)        representation invariant of one line record
 *   vf_ini_wf(ini)           representation invariant of the store
 *   vf_ini_spec_*            the dictionary model: independent re-statement of what the
 *                            lookups / enumerations / size calculation have to return
 *   vf_ini_text_*            the text model: how a byte string splits into lines
 *   vf_ini_mk_line/store     symbolic store builder for the harnesses (bounded in SHAPE:
 *                            <= VF_INI_MAXL lines, <= VF_INI_FLD bytes per field)
 */
#ifndef VF_SPECS_INI_SPEC_H
#define VF_SPECS_INI_SPEC_H

#include "vf/vf.h"

#ifndef VF_INI_MAXL
#define VF_INI_MAXL	4	/* lines in a harness-built store */
#endif
#ifndef VF_INI_FLD
#define VF_INI_FLD	8	/* bytes per symbolic field (name, value, comment text) */
#endif
/* a store can grow by two lines in one ini_val_set (section + value) */
#define VF_INI_MAXL_AFTER	(VF_INI_MAXL + 2)

/* ------------------------------------------------------------ invariant ---- */

/*
 * Capacity of the data area of a line record.  Heap objects are registered with their
 * REQUESTED size in the ghost table vf_ini_req[] (indexed by CBMC's object number) by the
 * harness builder below and by the allocator stubs (stubs/ini.h); the invariant bounds
 * data_size and data_allocated_size by that requested capacity.
 */
#define VF_INI_FLDCAP		(2 * VF_INI_FLD + 2)			/* longest line data */
#define VF_INI_CAP		(VF_INI_FLDCAP + INI_LINE_ALLOC_PADDING)	/* + padding */
#define VF_INI_RECSZ		(sizeof(ini_line_t) + VF_INI_CAP)	/* constant record size */
#define VF_INI_SMALLTABLE	((VF_INI_MAXL + 1) * sizeof(ini_line_p)) /* harness-built table */
#ifndef VF_REPLAY
size_t	vf_ini_req[256];
#ifndef VF_INI_NO_REQ
#define VF_INI_REQ(p)		vf_ini_req[__CPROVER_POINTER_OBJECT(p) & 255]
#define VF_INI_REQ_SET(p, n)	(VF_INI_REQ(p) = (n))
#else
/* cheaper model for the heaviest jobs: the capacity of a record is the (constant) size of its
 * heap object instead of the requested size (reads of a 256-entry ghost array at symbolic
 * indices dominate the formula of ini_val_set: 19 M variables); what is lost - a recorded
 * capacity larger than the request - is exactly what the ini.alloc job checks */
#define VF_INI_REQ(p)		__CPROVER_OBJECT_SIZE(p)
#define VF_INI_REQ_SET(p, n)	((void)0)
#endif
#define VF_INI_LINE_CAP(l)	(VF_INI_REQ(l) - sizeof(ini_line_t))
#endif

/* the data area of a record starts right behind its header (part of the invariant); the
 * spec functions address it this way instead of going through the l->data pointer */
#define VF_INI_DATA(l)	((const uint8_t *)((l) + 1))

static inline int
vf_ini_line_wf(const ini_line_t *l) {

#ifndef VF_REPLAY
	/* a live heap record, pointed to at its start, large enough for what it claims */
	if (!__CPROVER_r_ok(l, sizeof(ini_line_t)))
		return (0);
	if (__CPROVER_POINTER_OFFSET(l) != 0 ||
	    VF_INI_REQ(l) < sizeof(ini_line_t) || VF_INI_REQ(l) > __CPROVER_OBJECT_SIZE(l))
		return (0);
	if (l->data_size > VF_INI_LINE_CAP(l) ||
	    l->data_allocated_size > VF_INI_LINE_CAP(l))
		return (0);
#endif
	if (l->data != (const uint8_t *)(l + 1))
		return (0);
	switch (l->type) {
	case INI_LINE_TYPE_EMPTY_LINE:
		return (l->data_size == 0);
	case INI_LINE_TYPE_INVALID:
	case INI_LINE_TYPE_COMMENT:
		return (1);
	case INI_LINE_TYPE_SECTION: /* '[' name ']' rest */
		return (l->name == VF_INI_DATA(l) + 1 &&
		    l->name_size <= l->data_size && 2 <= l->data_size - l->name_size &&
		    VF_INI_DATA(l)[0] == '[' && VF_INI_DATA(l)[1 + l->name_size] == ']');
	case INI_LINE_TYPE_VALUE: /* name '=' val */
		return (l->name == VF_INI_DATA(l) &&
		    l->name_size < l->data_size &&
		    l->val_size == l->data_size - l->name_size - 1 &&
		    l->val == VF_INI_DATA(l) + l->name_size + 1 &&
		    VF_INI_DATA(l)[l->name_size] == '=');
	}
	return (0);
}

static inline int
vf_ini_wf(const ini_t *ini) {

	if (ini->lines_count > ini->lines_allocated)
		return (0);
	if (ini->lines == NULL)
		return (ini->lines_count == 0);
#ifndef VF_REPLAY
	if (ini->lines_allocated > (((size_t)1) << 32) ||
	    !__CPROVER_r_ok(ini->lines, ini->lines_allocated * sizeof(ini_line_p)) ||
	    __CPROVER_POINTER_OFFSET(ini->lines) != 0 ||
	    __CPROVER_OBJECT_SIZE(ini->lines) < ini->lines_allocated * sizeof(ini_line_p))
		return (0);
#endif
	/* unrolled (no loops: usable together with loop contracts); stores of the harnesses
	 * have at most VF_INI_MAXL_AFTER = 6 lines */
	if (ini->lines_count > 6)
		return (0);
#define VF_INI_WF_ENTRY(i)							\
	if ((i) < ini->lines_count && ini->lines[(i)] != NULL &&		\
	    !vf_ini_line_wf(ini->lines[(i)]))					\
		return (0);
#define VF_INI_WF_DISTINCT(i, j) /* records are not shared between entries */	\
	if ((j) < ini->lines_count && ini->lines[(i)] != NULL &&		\
	    ini->lines[(i)] == ini->lines[(j)])					\
		return (0);
	VF_INI_WF_ENTRY(0) VF_INI_WF_ENTRY(1) VF_INI_WF_ENTRY(2)
	VF_INI_WF_ENTRY(3) VF_INI_WF_ENTRY(4) VF_INI_WF_ENTRY(5)
	VF_INI_WF_DISTINCT(0, 1) VF_INI_WF_DISTINCT(0, 2) VF_INI_WF_DISTINCT(0, 3)
	VF_INI_WF_DISTINCT(0, 4) VF_INI_WF_DISTINCT(0, 5) VF_INI_WF_DISTINCT(1, 2)
	VF_INI_WF_DISTINCT(1, 3) VF_INI_WF_DISTINCT(1, 4) VF_INI_WF_DISTINCT(1, 5)
	VF_INI_WF_DISTINCT(2, 3) VF_INI_WF_DISTINCT(2, 4) VF_INI_WF_DISTINCT(2, 5)
	VF_INI_WF_DISTINCT(3, 4) VF_INI_WF_DISTINCT(3, 5) VF_INI_WF_DISTINCT(4, 5)
	return (1);
}

/* ------------------------------------------------------ dictionary model ---- */

static inline uint8_t
vf_ini_fold(uint8_t c) {
	return ((uint8_t)(('A' <= c && c <= 'Z') ? (c | 32) : c));
}

/* names equal: same length and same bytes (ASCII case folded when icase) */
static inline int
vf_ini_name_eq(const uint8_t *a, size_t an, const uint8_t *b, size_t bn, int icase) {
	size_t i;

	if (an != bn)
		return (0);
	for (i = 0; i < an; i ++) {
		if (icase ? (vf_ini_fold(a[i]) != vf_ini_fold(b[i])) : (a[i] != b[i]))
			return (0);
	}
	return (1);
}

/* ini_sect_enum restarts from 0 when the cursor is beyond the store */
#define VF_INI_NORM(ini, off)	(((off) > (ini)->lines_count) ? (size_t)0 : (size_t)(off))

/* strncasecmp() stops at a NUL byte: the case-insensitive variants are specified for
 * names without NUL (stated assumption) */
static inline int
vf_no_nul(const uint8_t *p, size_t n) {
	size_t i;

	for (i = 0; i < n; i ++) {
		if (p[i] == 0)
			return (0);
	}
	return (1);
}

#define VF_INI_IS(ini, i, t)	((ini)->lines[(i)] != NULL && (ini)->lines[(i)]->type == (t))

/* first section line at index >= from */
static inline size_t
vf_ini_spec_sect_next(const ini_t *ini, size_t from) {
	size_t i;

	for (i = from; i < ini->lines_count; i ++) {
		if (VF_INI_IS(ini, i, INI_LINE_TYPE_SECTION))
			return (i);
	}
	return (INI_OFFSET_INVALID);
}

/* first section line whose name equals (name, n) */
static inline size_t
vf_ini_spec_sect_find(const ini_t *ini, const uint8_t *name, size_t n, int icase) {
	size_t i;

	for (i = 0; i < ini->lines_count; i ++) {
		if (VF_INI_IS(ini, i, INI_LINE_TYPE_SECTION) &&
		    vf_ini_name_eq(ini->lines[i]->name, ini->lines[i]->name_size, name, n, icase))
			return (i);
	}
	return (INI_OFFSET_INVALID);
}

/* first value line at index >= max(from, sect_off + 1) that is still inside the section
 * starting at sect_off (i.e. before the next section line) */
static inline size_t
vf_ini_spec_val_next(const ini_t *ini, size_t sect_off, size_t from) {
	size_t i;

	i = (from > (size_t)(sect_off + 1)) ? from : (size_t)(sect_off + 1);
	for (; i < ini->lines_count; i ++) {
		if (VF_INI_IS(ini, i, INI_LINE_TYPE_SECTION))
			break;
		if (VF_INI_IS(ini, i, INI_LINE_TYPE_VALUE))
			return (i);
	}
	return (INI_OFFSET_INVALID);
}

/* first value line of the section at sect_off whose name equals (name, n) */
static inline size_t
vf_ini_spec_val_find(const ini_t *ini, size_t sect_off, const uint8_t *name, size_t n,
    int icase) {
	size_t i;

	if (sect_off == INI_OFFSET_INVALID)
		return (INI_OFFSET_INVALID);
	for (i = sect_off + 1; i < ini->lines_count; i ++) {
		if (VF_INI_IS(ini, i, INI_LINE_TYPE_SECTION))
			break;
		if (VF_INI_IS(ini, i, INI_LINE_TYPE_VALUE) &&
		    vf_ini_name_eq(ini->lines[i]->name, ini->lines[i]->name_size, name, n, icase))
			return (i);
	}
	return (INI_OFFSET_INVALID);
}

/* (section, name) -> line index of the value, INI_OFFSET_INVALID if absent */
static inline size_t
vf_ini_spec_lookup(const ini_t *ini, const uint8_t *sect, size_t sect_n,
    const uint8_t *name, size_t name_n, int icase) {

	return (vf_ini_spec_val_find(ini,
	    vf_ini_spec_sect_find(ini, sect, sect_n, icase), name, name_n, icase));
}

/* ---------------------------------------------- postconditions of the lookups ---- */
/* Each predicate evaluates the model ONCE and states everything the property demands of
 * the call's results (used in the ensures clauses and as native replay oracle). */

/* ini_sect_enum: next section line in file order from the (normalised) cursor */
static inline int
vf_ini_post_sect_enum(const ini_t *ini, size_t off_in, int ret, const size_t *sect_off,
    const uint8_t *const *sect_name, const size_t *sect_name_size) {
	size_t m;

	if (ini == NULL || sect_off == NULL)
		return (ret == EINVAL);
	m = vf_ini_spec_sect_next(ini, VF_INI_NORM(ini, off_in));
	if (m == INI_OFFSET_INVALID)
		return (ret == ENOENT);
	return (ret == 0 && (*sect_off) == m &&
	    (sect_name == NULL || (*sect_name) == ini->lines[m]->name) &&
	    (sect_name_size == NULL || (*sect_name_size) == ini->lines[m]->name_size));
}

/* ini_sect_val_enum: next value line of the section, never beyond the next section */
static inline int
vf_ini_post_val_enum(const ini_t *ini, size_t sect_off, size_t off_in, int ret,
    const size_t *val_off, const uint8_t *const *val_name, const size_t *val_name_size,
    const uint8_t *const *val, const size_t *val_size) {
	size_t m;

	if (ini == NULL || val_off == NULL)
		return (ret == EINVAL);
	m = vf_ini_spec_val_next(ini, sect_off, off_in);
	if (m == INI_OFFSET_INVALID)
		return (ret == ENOENT);
	return (ret == 0 && (*val_off) == m &&
	    (val_name == NULL || (*val_name) == ini->lines[m]->name) &&
	    (val_name_size == NULL || (*val_name_size) == ini->lines[m]->name_size) &&
	    (val == NULL || (*val) == ini->lines[m]->val) &&
	    (val_size == NULL || (*val_size) == ini->lines[m]->val_size));
}

/* ini_val_get / ini_vali_get: ordered-map lookup */
static inline int
vf_ini_post_val_get(const ini_t *ini, const uint8_t *sect, size_t sect_n,
    const uint8_t *name, size_t name_n, int icase, int ret,
    const uint8_t *const *val, const size_t *val_size) {
	size_t m;

	if (ini == NULL || val == NULL || val_size == NULL)
		return (ret == EINVAL);
	m = vf_ini_spec_lookup(ini, sect, sect_n, name, name_n, icase);
	if (m == INI_OFFSET_INVALID)
		return (ret == ENOENT);
	return (ret == 0 && (*val) == ini->lines[m]->val &&
	    (*val_size) == ini->lines[m]->val_size);
}

/* size of the generated text: every stored line followed by CR LF */
static inline size_t
vf_ini_spec_text_size(const ini_t *ini) {
	size_t i, sum = 0;

	for (i = 0; i < ini->lines_count; i ++) {
		if (ini->lines[i] != NULL)
			sum += ini->lines[i]->data_size + 2;
	}
	return (sum);
}

/* offset in the generated text at which line k starts */
static inline size_t
vf_ini_spec_text_off(const ini_t *ini, size_t k) {
	size_t i, sum = 0;

	for (i = 0; i < k && i < ini->lines_count; i ++) {
		if (ini->lines[i] != NULL)
			sum += ini->lines[i]->data_size + 2;
	}
	return (sum);
}

/* ini_buf_calc_size: the size ini_buf_gen will write */
static inline int
vf_ini_post_calc_size(const ini_t *ini, int ret, const size_t *file_size) {

	if (ini == NULL || file_size == NULL)
		return (ret == EINVAL);
	return (ret == 0 && (*file_size) == vf_ini_spec_text_size(ini));
}

/*
 * Ghost state of the serialisation contracts (written by the harness before the call,
 * read by the ensures clause and by the loop invariants of loops/ini_gen.json, which may
 * not call functions):
 *   vf_ini_pref[i]   offset of line i in the generated text (= sum over earlier lines of
 *                    data_size + 2); vf_ini_pref[lines_count] = size of the whole text
 *   vf_ini_gk, vf_ini_gj, vf_ini_gbyte, vf_ini_gchk
 *                    ghost position: byte gj of line gk followed by CR LF, i.e. the text
 *                    byte at vf_ini_pref[gk] + gj has to be gbyte (gchk: position exists)
 */
size_t	vf_ini_pref[VF_INI_MAXL_AFTER + 2];
size_t	vf_ini_gk, vf_ini_gj;
uint8_t	vf_ini_gbyte;
int	vf_ini_gchk;

static inline void
vf_ini_ghost_setup(const ini_t *ini, size_t k, size_t j) {

#define VF_INI_PREF_STEP(i)							\
	vf_ini_pref[(i) + 1] = vf_ini_pref[(i)] +				\
	    (((i) < ini->lines_count && ini->lines[(i)] != NULL) ?		\
	    (ini->lines[(i)]->data_size + 2) : 0);
	vf_ini_pref[0] = 0;
	VF_INI_PREF_STEP(0) VF_INI_PREF_STEP(1) VF_INI_PREF_STEP(2)
	VF_INI_PREF_STEP(3) VF_INI_PREF_STEP(4) VF_INI_PREF_STEP(5)
	vf_ini_pref[7] = vf_ini_pref[6];
	vf_ini_gk = k;
	vf_ini_gj = j;
	vf_ini_gchk = 0;
	vf_ini_gbyte = 0;
	if (k < ini->lines_count && ini->lines[k] != NULL &&
	    j < ini->lines[k]->data_size + 2) {
		vf_ini_gchk = 1;
		vf_ini_gbyte = (j < ini->lines[k]->data_size) ? VF_INI_DATA(ini->lines[k])[j] :
		    ((j == ini->lines[k]->data_size) ? 0x0d : 0x0a);
	}
}

/* ini_buf_gen: when the text fits, exactly text_size bytes are written and reported, and
 * the ghost byte (any byte of any line, or of its CR LF) stands at its offset; when it does
 * not fit the call fails and reports no more than the capacity.  (That no byte at index >=
 * buf_size is touched is the assigns clause, checked against the exact-size destination.) */
static inline int
vf_ini_post_gen(const ini_t *ini, const uint8_t *buf, size_t buf_size, int ret,
    const size_t *buf_size_ret) {
	size_t need;

	if (ini == NULL || buf == NULL || buf_size == 0 || buf_size_ret == NULL)
		return (ret == EINVAL);
	need = vf_ini_spec_text_size(ini);
	if (need > buf_size)
		return (ret != 0 && ret != EINVAL && (*buf_size_ret) <= buf_size);
	if (ret != 0 || (*buf_size_ret) != need)
		return (0);
	if (vf_ini_gchk)
		return (buf[vf_ini_spec_text_off(ini, vf_ini_gk) + vf_ini_gj] == vf_ini_gbyte);
	return (1);
}

/* ------------------------------------------------------------ text model ---- */
/*
 * Lines of a text: maximal runs of bytes between LF bytes; one CR directly before the LF
 * belongs to the line terminator; bytes after the last LF form a last line iff there are
 * any.  vf_ini_text_line() returns 1 and the k-th line, 0 if the text has <= k lines.
 */
static inline int
vf_ini_text_line(const uint8_t *t, size_t n, size_t k, size_t *start, size_t *len) {
	size_t pos = 0, j, l;

	for (;; k --) {
		if (pos >= n)
			return (0);
		for (j = pos; j < n && t[j] != 0x0a; j ++)
			;
		l = j - pos;
		if (j < n && l > 0 && t[j - 1] == 0x0d)
			l --;
		if (k == 0) {
			(*start) = pos;
			(*len) = l;
			return (1);
		}
		pos = (j < n) ? (j + 1) : n;
	}
}

static inline size_t
vf_ini_text_line_count(const uint8_t *t, size_t n) {
	size_t pos = 0, j, cnt = 0;

	while (pos < n) {
		for (j = pos; j < n && t[j] != 0x0a; j ++)
			;
		cnt ++;
		pos = (j < n) ? (j + 1) : n;
	}
	return (cnt);
}

/* classification table of one text line (d, n): type, name/value layout */
static inline uint32_t
vf_ini_text_class(const uint8_t *d, size_t n, size_t *name_off, size_t *name_n,
    size_t *val_off, size_t *val_n) {
	size_t i;

	(*name_off) = (*name_n) = (*val_off) = (*val_n) = 0;
	if (n == 0)
		return (INI_LINE_TYPE_EMPTY_LINE);
	if (d[0] == ';' || d[0] == '#')
		return (INI_LINE_TYPE_COMMENT);
	if (d[0] == '[') { /* section name: up to the LAST ']' */
		for (i = n; i > 1; i --) {
			if (d[i - 1] == ']') {
				(*name_off) = 1;
				(*name_n) = i - 2;
				return (INI_LINE_TYPE_SECTION);
			}
		}
		return (INI_LINE_TYPE_INVALID);
	}
	for (i = 0; i < n; i ++) { /* value: name up to the FIRST '=' */
		if (d[i] == '=') {
			(*name_n) = i;
			(*val_off) = i + 1;
			(*val_n) = n - i - 1;
			return (INI_LINE_TYPE_VALUE);
		}
	}
	return (INI_LINE_TYPE_INVALID);
}

/* a stored line says exactly what the parser would say about its own bytes */
static inline int
vf_ini_line_canonical(const ini_line_t *l) {
	size_t no, nn, vo, vn;
	uint32_t t = vf_ini_text_class(VF_INI_DATA(l), l->data_size, &no, &nn, &vo, &vn);

	if (t != l->type)
		return (0);
	if (t == INI_LINE_TYPE_SECTION)
		return (l->name == VF_INI_DATA(l) + no && l->name_size == nn);
	if (t == INI_LINE_TYPE_VALUE)
		return (l->name == VF_INI_DATA(l) + no && l->name_size == nn &&
		    l->val == VF_INI_DATA(l) + vo && l->val_size == vn);
	return (1);
}

/* two lines carry the same abstract content */
static inline int
vf_ini_line_equiv(const ini_line_t *a, const ini_line_t *b) {
	size_t i;

	if (a->type != b->type || a->data_size != b->data_size)
		return (0);
	for (i = 0; i < a->data_size; i ++) {
		if (VF_INI_DATA(a)[i] != VF_INI_DATA(b)[i])
			return (0);
	}
	if (a->type == INI_LINE_TYPE_SECTION || a->type == INI_LINE_TYPE_VALUE) {
		if (a->name_size != b->name_size ||
		    (a->name - VF_INI_DATA(a)) != (b->name - VF_INI_DATA(b)))
			return (0);
	}
	if (a->type == INI_LINE_TYPE_VALUE) {
		if (a->val_size != b->val_size || (a->val - VF_INI_DATA(a)) != (b->val - VF_INI_DATA(b)))
			return (0);
	}
	return (1);
}

/* ini_buf_parse: one record per text line appended in order; record k (ghost index
 * vf_ini_gk, any k) carries exactly the bytes of text line k and the classification the
 * table prescribes, with name/val pointing inside the record; an error return (out of
 * memory) leaves a well-formed store */
static inline int
vf_ini_post_parse(const ini_t *ini, size_t old_count, const uint8_t *buf, size_t n, int ret) {
	size_t st, ln, j;
	const ini_line_t *l;

	if (buf == NULL)
		return (ret == EINVAL && ini->lines_count == old_count);
	if (!vf_ini_wf(ini))
		return (0);
	if (ret != 0)
		return (ret == ENOMEM && ini->lines_count >= old_count);
	if (ini->lines_count != old_count + vf_ini_text_line_count(buf, n))
		return (0);
	if (!vf_ini_text_line(buf, n, vf_ini_gk, &st, &ln))
		return (1);
	l = ini->lines[old_count + vf_ini_gk];
	if (l == NULL || l->data_size != ln)
		return (0);
	for (j = 0; j < ln; j ++) {
		if (VF_INI_DATA(l)[j] != buf[st + j])
			return (0);
	}
	return (vf_ini_line_canonical(l));
}

/* ini_val_set: the store stays well formed whatever happens (also on ENOMEM); after
 * success the case-sensitive lookup of (section, name) finds a line whose value is the
 * new value (size, and byte vf_ini_gj for every gj) */
static inline int
vf_ini_post_val_set(const ini_t *ini, const uint8_t *sect, size_t sect_n,
    const uint8_t *name, size_t name_n, const uint8_t *val, size_t val_n, int ret) {
	size_t m;
	const ini_line_t *l;

	if (!vf_ini_wf(ini))
		return (0);
	if (ret != 0)
		return (ret == ENOMEM);
	m = vf_ini_spec_lookup(ini, sect, sect_n, name, name_n, 0);
	if (m == INI_OFFSET_INVALID)
		return (0);
	l = ini->lines[m];
	if (l->val_size != val_n)
		return (0);
	if (vf_ini_gj < val_n)
		return (VF_INI_DATA(l)[l->name_size + 1 + vf_ini_gj] == val[vf_ini_gj]);
	return (1);
}

/* ------------------------------------------------- symbolic store builder ---- */
/*
 * One line record from symbolic ingredients.  kind: 0..4 = line type, 5 = NULL entry.
 * The record is ONE heap object: header followed by the data area, as ini_line_alloc__int()
 * makes it.  The object has the constant size VF_INI_RECSZ (symbolic-size heap objects
 * make every field access a byte operation on an unbounded array: measured > 300 s for one
 * lookup, 10 s with a constant size); its REQUESTED capacity data_size + pad (pad <= 16) is
 * registered in vf_ini_req[]; data_allocated_size is any value up to that capacity (it is
 * stale after a realloc that did not move the record, see ini_val_set).  The data bytes are the unconstrained initial content of the
 * heap object; they are recorded as input `<tag>_raw` for the native replay.
 */
#define VF_INI_KIND_NULL	5
#define VF_INI_RAW		VF_INI_FLDCAP
struct vf_ini_raw { uint8_t b[VF_INI_RAW]; };

#ifndef VF_REPLAY
void *malloc(__CPROVER_size_t);
#endif

static inline ini_line_p
vf_ini_mk_line(uint8_t kind, size_t nsz, size_t vsz, size_t pad, size_t das,
    const uint8_t *raw) {
	ini_line_p l;
	size_t dsz;

	VF_ASSUME(kind <= VF_INI_KIND_NULL);
	VF_ASSUME(nsz <= VF_INI_FLD && vsz <= VF_INI_FLD && pad <= INI_LINE_ALLOC_PADDING);
	if (kind == VF_INI_KIND_NULL)
		return (NULL);
	switch (kind) {
	case INI_LINE_TYPE_EMPTY_LINE:	dsz = 0; break;
	case INI_LINE_TYPE_SECTION:	dsz = nsz + 2 + vsz; break; /* '[' name ']' trailing */
	case INI_LINE_TYPE_VALUE:	dsz = nsz + 1 + vsz; break;
	default:			dsz = nsz; break;
	}
	l = (ini_line_p)malloc(VF_INI_RECSZ);
	VF_ASSUME(l != NULL);
	/* requested capacity: data_size + pad; data_allocated_size: anything up to it */
	VF_ASSUME(das <= dsz + pad);
#ifndef VF_REPLAY
	VF_INI_REQ_SET(l, sizeof(ini_line_t) + dsz + pad);
#endif
	l->data = (uint8_t *)(l + 1);
	l->data_size = dsz;
	l->data_allocated_size = das;
	l->type = kind;
	l->name = NULL;
	l->name_size = 0;
	l->val = NULL;
	l->val_size = 0;
#ifdef VF_REPLAY
	memcpy(l->data, raw, VF_INI_RAW);
#else
	(void)raw;
#endif
	if (kind == INI_LINE_TYPE_SECTION) {
		l->data[0] = '[';
		l->data[1 + nsz] = ']';
		l->name = l->data + 1;
		l->name_size = nsz;
	} else if (kind == INI_LINE_TYPE_VALUE) {
		l->data[nsz] = '=';
		l->name = l->data;
		l->name_size = nsz;
		l->val = l->data + nsz + 1;
		l->val_size = vsz;
	}
	return (l);
}

/* jobs may fix the SHAPE of the store (line kinds, count, table size) to concrete values:
 * -DVF_INI_KIND_l0=3 -DVF_INI_KIND_l1=4 -DVF_INI_COUNT=2 -DVF_INI_ALLOCATED=3; sizes,
 * capacities and contents stay symbolic */
#ifndef VF_INI_KIND_l0
#define VF_INI_KIND_l0	l0_kind
#endif
#ifndef VF_INI_KIND_l1
#define VF_INI_KIND_l1	l1_kind
#endif
#ifndef VF_INI_KIND_l2
#define VF_INI_KIND_l2	l2_kind
#endif
#ifndef VF_INI_KIND_l3
#define VF_INI_KIND_l3	l3_kind
#endif

#ifndef VF_REPLAY
#define VF_INI_SYM_LINE(dst, tag)						\
	do {									\
		VF_NONDET(uint8_t, tag##_kind);					\
		VF_NONDET(uint8_t, tag##_nsz);					\
		VF_NONDET(uint8_t, tag##_vsz);					\
		VF_NONDET(uint8_t, tag##_pad);					\
		VF_NONDET(uint8_t, tag##_das);					\
		(dst) = vf_ini_mk_line(VF_INI_KIND_##tag, tag##_nsz, tag##_vsz,	\
		    tag##_pad, tag##_das, NULL);				\
		if ((dst) != NULL)						\
			__CPROVER_input(#tag "_raw",				\
			    *(struct vf_ini_raw *)((dst)->data));		\
	} while (0)
#else
#define VF_INI_SYM_LINE(dst, tag)						\
	do {									\
		VF_NONDET(uint8_t, tag##_kind);					\
		VF_NONDET(uint8_t, tag##_nsz);					\
		VF_NONDET(uint8_t, tag##_vsz);					\
		VF_NONDET(uint8_t, tag##_pad);					\
		VF_NONDET(uint8_t, tag##_das);					\
		VF_NONDET_BYTES(tag##_raw, VF_INI_RAW);				\
		(dst) = vf_ini_mk_line(VF_INI_KIND_##tag, tag##_nsz, tag##_vsz,	\
		    tag##_pad, tag##_das, tag##_raw.b);				\
	} while (0)
#endif

/* store with `count` <= VF_INI_MAXL symbolic lines; the pointer table is a heap object of
 * VF_INI_MAXL + 1 entries of which `allocated` (count <= allocated) are claimed;
 * allocated == 0: no table yet (a fresh ini_create() store) */
#ifndef VF_REPLAY
#define VF_INI_REG(p, n)	VF_INI_REQ_SET(p, n)
#else
#define VF_INI_REG(p, n)	((void)0)
#endif
#if defined(VF_INI_COUNT) && defined(VF_INI_ALLOCATED)
#define VF_INI_FIX_SHAPE	ini_count = VF_INI_COUNT; ini_allocated = VF_INI_ALLOCATED
#else
#define VF_INI_FIX_SHAPE	(void)0
#endif
#define VF_INI_SYM_STORE(ini)							\
	do {									\
		VF_NONDET(uint8_t, ini_count);					\
		VF_NONDET(uint8_t, ini_allocated);				\
		VF_INI_FIX_SHAPE;						\
		VF_ASSUME(ini_count <= VF_INI_MAXL);				\
		VF_ASSUME(ini_count <= ini_allocated &&				\
		    ini_allocated <= VF_INI_MAXL + 1);				\
		(ini) = (ini_p)malloc(sizeof(ini_t));				\
		VF_ASSUME((ini) != NULL);					\
		(ini)->lines_count = ini_count;					\
		(ini)->lines_allocated = ini_allocated;				\
		(ini)->lines = NULL;						\
		if (ini_allocated != 0) {					\
			(ini)->lines = (ini_line_p *)malloc((VF_INI_MAXL + 1) *	\
			    sizeof(ini_line_p));				\
			VF_ASSUME((ini)->lines != NULL);			\
			VF_INI_REG((ini)->lines, (VF_INI_MAXL + 1) * sizeof(ini_line_p)); \
		}								\
		if (ini_count > 0) VF_INI_SYM_LINE((ini)->lines[0], l0);	\
		if (ini_count > 1) VF_INI_SYM_LINE((ini)->lines[1], l1);	\
		if (ini_count > 2) VF_INI_SYM_LINE((ini)->lines[2], l2);	\
		if (ini_count > 3) VF_INI_SYM_LINE((ini)->lines[3], l3);	\
	} while (0)

/* harness-owned optional out-parameter: NULL or an exact-size heap object */
#define VF_OWN_OPT(T, name)							\
	VF_NONDET(uint8_t, name##_null);					\
	T *name = name##_null ? NULL : (T *)malloc(sizeof(T));			\
	VF_ASSUME(name##_null || name != NULL)

/* symbolic name argument: (NULL, 0) or an exact-size heap span of 1..VF_INI_FLD bytes */
#define VF_INI_SYM_NAME(ptr, len, tag, allow_null)				\
	VF_NONDET(uint8_t, tag##_len);						\
	VF_NONDET_BYTES(tag##_bytes, VF_INI_FLD);				\
	VF_ASSUME(tag##_len <= VF_INI_FLD);					\
	VF_ASSUME((allow_null) || tag##_len != 0);				\
	size_t len = tag##_len;							\
	uint8_t *ptr = NULL;							\
	if (len != 0) {								\
		ptr = (uint8_t *)malloc(len);					\
		VF_ASSUME(ptr != NULL);						\
		memcpy(ptr, tag##_bytes.b, len);				\
	}

#endif /* VF_SPECS_INI_SPEC_H */
