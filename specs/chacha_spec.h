/*
 * ChaCha reference specification, written from RFC 7539 sections 2.1 - 2.4
 * (quarter round, inner block = 4 column + 4 diagonal quarter rounds, final
 * word-wise addition of the input state, little-endian serialisation), adapted to
 *   - the original 64-bit block counter layout the library documents
 *     ("const(16) + key(32) + counter(8) + iv(8)": words 12,13 = counter lo,hi;
 *     words 14,15 = nonce), D. J. Bernstein, "ChaCha, a variant of Salsa20";
 *   - a round-count parameter (8 / 12 / 20 = 4 / 6 / 10 inner blocks);
 *   - 128-bit keys: key bytes used twice with the constant "expand 16-byte k".
 * HChaCha / XChaCha from draft-irtf-cfrg-xchacha section 2.2 / 2.3 (same layout,
 * round count as parameter): HChaCha = the rounds WITHOUT the final addition,
 * output = words 0..3 and 12..15; XChaCha = ChaCha keyed with
 * HChaCha(key, nonce[0..15]) and nonce[16..23].
 *
 * Not derived from the library code.  The only concession to the solver is the
 * operand order of the final addition (working + input instead of input + working;
 * 32-bit addition commutes) - see DESIGN.md section 2 (ARX equivalences).
 *
 * The same text is compiled natively by harness/C08/spec_selftest.c and run against
 * the published vectors (RFC 7539 2.1.1, 2.3.2, 2.4.2; draft-irtf-cfrg-xchacha 2.2.1).
 */
#ifndef VF_CHACHA_SPEC_H
#define VF_CHACHA_SPEC_H
#include <stdint.h>
#include <stddef.h>

#define VF_CC_ROTL(v, n)	((((uint32_t)(v)) << (n)) | (((uint32_t)(v)) >> (32 - (n))))

/* RFC 7539 2.1 */
static inline void
vf_chacha_quarter_round(uint32_t s[16], unsigned a, unsigned b, unsigned c, unsigned d) {
	s[a] += s[b]; s[d] ^= s[a]; s[d] = VF_CC_ROTL(s[d], 16);
	s[c] += s[d]; s[b] ^= s[c]; s[b] = VF_CC_ROTL(s[b], 12);
	s[a] += s[b]; s[d] ^= s[a]; s[d] = VF_CC_ROTL(s[d], 8);
	s[c] += s[d]; s[b] ^= s[c]; s[b] = VF_CC_ROTL(s[b], 7);
}

/* RFC 7539 2.3: inner_block */
static inline void
vf_chacha_inner_block(uint32_t s[16]) {
	vf_chacha_quarter_round(s, 0, 4,  8, 12);
	vf_chacha_quarter_round(s, 1, 5,  9, 13);
	vf_chacha_quarter_round(s, 2, 6, 10, 14);
	vf_chacha_quarter_round(s, 3, 7, 11, 15);
	vf_chacha_quarter_round(s, 0, 5, 10, 15);
	vf_chacha_quarter_round(s, 1, 6, 11, 12);
	vf_chacha_quarter_round(s, 2, 7,  8, 13);
	vf_chacha_quarter_round(s, 3, 4,  9, 14);
}

/* the permutation alone: rounds/2 inner blocks (this is HChaCha's core) */
static inline void
vf_chacha_permute(uint32_t w[16], unsigned rounds) {
	unsigned i;
	for (i = 0; i < rounds / 2; i ++)
		vf_chacha_inner_block(w);
}

/* RFC 7539 2.3: chacha_block, on words: out = permute(in) + in */
static inline void
vf_chacha_block_words(const uint32_t in[16], unsigned rounds, uint32_t out[16]) {
	uint32_t w[16];
	unsigned i;
	for (i = 0; i < 16; i ++)
		w[i] = in[i];
	vf_chacha_permute(w, rounds);
	for (i = 0; i < 16; i ++)
		out[i] = w[i] + in[i];
}

/* RFC 7539 2.3: serialisation = each word little-endian, words in order */
static inline uint8_t
vf_chacha_ser_byte(const uint32_t words[16], unsigned i) {
	return ((uint8_t)(words[i >> 2] >> (8 * (i & 3))));
}

static inline uint32_t
vf_chacha_le32(const uint8_t *p) {
	return ((uint32_t)p[0] | ((uint32_t)p[1] << 8) | ((uint32_t)p[2] << 16) | ((uint32_t)p[3] << 24));
}

/* the 64-bit block counter as a number, and the successor state */
static inline uint64_t
vf_chacha_counter(const uint32_t st[16]) {
	return ((uint64_t)st[12] | ((uint64_t)st[13] << 32));
}
static inline void
vf_chacha_state_at(const uint32_t st0[16], uint64_t block, uint32_t st[16]) {
	unsigned i;
	uint64_t c = vf_chacha_counter(st0) + block; /* mod 2^64 */
	for (i = 0; i < 16; i ++)
		st[i] = st0[i];
	st[12] = (uint32_t)c;
	st[13] = (uint32_t)(c >> 32);
}

/* initial state: constants | key | counter | nonce.
 * key_bytes = 32: "expand 32-byte k", key words 4..11;
 * key_bytes = 16: "expand 16-byte k", the 16 key bytes in words 4..7 and again in 8..11. */
static inline void
vf_chacha_state_init(uint32_t st[16], const uint8_t *key, unsigned key_bytes,
    uint64_t counter, const uint8_t nonce[8]) {
	static const char sigma[16] = { 'e','x','p','a','n','d',' ','3','2','-','b','y','t','e',' ','k' };
	static const char tau[16]   = { 'e','x','p','a','n','d',' ','1','6','-','b','y','t','e',' ','k' };
	const uint8_t *c = (const uint8_t *)((key_bytes == 32) ? sigma : tau);
	unsigned i;
	for (i = 0; i < 4; i ++)
		st[i] = vf_chacha_le32(c + 4 * i);
	for (i = 0; i < 4; i ++)
		st[4 + i] = vf_chacha_le32(key + 4 * i);
	for (i = 0; i < 4; i ++)
		st[8 + i] = vf_chacha_le32(key + ((key_bytes == 32) ? 16 : 0) + 4 * i);
	st[12] = (uint32_t)counter;
	st[13] = (uint32_t)(counter >> 32);
	st[14] = vf_chacha_le32(nonce + 0);
	st[15] = vf_chacha_le32(nonce + 4);
}

/* HChaCha (draft-irtf-cfrg-xchacha 2.2): words 12..15 = the 16 nonce bytes, permutation
 * only, sub-key = words 0..3 | 12..15 serialised little-endian. */
static inline void
vf_hchacha(const uint8_t *key, unsigned key_bytes, const uint8_t nonce16[16], unsigned rounds,
    uint8_t out[32]) {
	static const uint8_t zero8[8] = { 0 };
	uint32_t w[16];
	unsigned i;
	vf_chacha_state_init(w, key, key_bytes, 0, zero8);
	for (i = 0; i < 4; i ++)
		w[12 + i] = vf_chacha_le32(nonce16 + 4 * i);
	vf_chacha_permute(w, rounds);
	for (i = 0; i < 16; i ++) {
		out[i]      = (uint8_t)(w[i >> 2] >> (8 * (i & 3)));
		out[16 + i] = (uint8_t)(w[12 + (i >> 2)] >> (8 * (i & 3)));
	}
}

/* XChaCha initial state (draft-irtf-cfrg-xchacha 2.3, 64-bit counter layout):
 * ChaCha with the 256-bit key HChaCha(key, nonce[0..15]) and the nonce nonce[16..23]. */
static inline void
vf_xchacha_state_init(uint32_t st[16], const uint8_t *key, unsigned key_bytes,
    uint64_t counter, const uint8_t nonce24[24], unsigned rounds) {
	uint8_t subkey[32];
	vf_hchacha(key, key_bytes, nonce24, rounds, subkey);
	vf_chacha_state_init(st, subkey, 32, counter, nonce24 + 16);
}

/* reference stream cipher: out[i] = in[i] ^ key-stream byte i (in == NULL: key stream) */
static inline void
vf_chacha_stream_xor(const uint32_t st0[16], unsigned rounds, const uint8_t *in, size_t len,
    uint8_t *out) {
	uint32_t st[16], ks[16];
	size_t i;
	for (i = 0; i < len; i ++) {
		if ((i & 63) == 0) {
			vf_chacha_state_at(st0, (uint64_t)(i >> 6), st);
			vf_chacha_block_words(st, rounds, ks);
		}
		out[i] = (uint8_t)((in != NULL ? in[i] : 0) ^ vf_chacha_ser_byte(ks, (unsigned)(i & 63)));
	}
}
#endif
