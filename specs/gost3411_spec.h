/*
 * GOST R 34.11-2012 ("Streebog") as defined by RFC 6986 (= the national standard's English
 * text), written from the RFC, NOT from include/crypto/hash/gost3411-2012.h:
 *
 *   section 5.2  pi      (vf_gost_pi)        5.3  tau (computed: the 8x8 byte transpose)
 *   section 5.4  A       (vf_gost_A, rows of the linear map l)
 *   section 5.5  C_1..C_12 (vf_gost_C)
 *   section 6    X, S, P, L;  section 7  K_i, E(K, m), g_N(h, m);  section 8  the hash function
 *
 * The three constant tables are data of the standard; they were transcribed mechanically and
 * are validated, together with the functions, by executing this text natively against the
 * examples of RFC 6986 section 10 and the HMAC examples of RFC 7836 (vf_gost_selftest below,
 * run by harness/C04/spec_selftest.c).
 *
 * Conventions: a 512-bit vector is eight uint64_t words, word 0 least significant, i.e. the
 * byte string in memory order is the RFC's vector read from its LEAST significant byte;
 * digests are byte strings in memory order (least significant byte first), as every
 * implementation emits them; RFC 6986 section 10 prints the same values as one hexadecimal
 * number, most significant byte first (e.g. H512(M1) = 486f64c1...1ad0541b there, bytes
 * 1b 54 d0 1a ... 6f 48 here).
 */
#ifndef VF_GOST3411_SPEC_H
#define VF_GOST3411_SPEC_H
#include <stdint.h>
#include <stddef.h>

/* RFC 6986 5.2: the substitution pi */
static const uint8_t vf_gost_pi[256] = {
	0xfc, 0xee, 0xdd, 0x11, 0xcf, 0x6e, 0x31, 0x16, 0xfb, 0xc4, 0xfa, 0xda, 0x23, 0xc5, 0x04, 0x4d,
	0xe9, 0x77, 0xf0, 0xdb, 0x93, 0x2e, 0x99, 0xba, 0x17, 0x36, 0xf1, 0xbb, 0x14, 0xcd, 0x5f, 0xc1,
	0xf9, 0x18, 0x65, 0x5a, 0xe2, 0x5c, 0xef, 0x21, 0x81, 0x1c, 0x3c, 0x42, 0x8b, 0x01, 0x8e, 0x4f,
	0x05, 0x84, 0x02, 0xae, 0xe3, 0x6a, 0x8f, 0xa0, 0x06, 0x0b, 0xed, 0x98, 0x7f, 0xd4, 0xd3, 0x1f,
	0xeb, 0x34, 0x2c, 0x51, 0xea, 0xc8, 0x48, 0xab, 0xf2, 0x2a, 0x68, 0xa2, 0xfd, 0x3a, 0xce, 0xcc,
	0xb5, 0x70, 0x0e, 0x56, 0x08, 0x0c, 0x76, 0x12, 0xbf, 0x72, 0x13, 0x47, 0x9c, 0xb7, 0x5d, 0x87,
	0x15, 0xa1, 0x96, 0x29, 0x10, 0x7b, 0x9a, 0xc7, 0xf3, 0x91, 0x78, 0x6f, 0x9d, 0x9e, 0xb2, 0xb1,
	0x32, 0x75, 0x19, 0x3d, 0xff, 0x35, 0x8a, 0x7e, 0x6d, 0x54, 0xc6, 0x80, 0xc3, 0xbd, 0x0d, 0x57,
	0xdf, 0xf5, 0x24, 0xa9, 0x3e, 0xa8, 0x43, 0xc9, 0xd7, 0x79, 0xd6, 0xf6, 0x7c, 0x22, 0xb9, 0x03,
	0xe0, 0x0f, 0xec, 0xde, 0x7a, 0x94, 0xb0, 0xbc, 0xdc, 0xe8, 0x28, 0x50, 0x4e, 0x33, 0x0a, 0x4a,
	0xa7, 0x97, 0x60, 0x73, 0x1e, 0x00, 0x62, 0x44, 0x1a, 0xb8, 0x38, 0x82, 0x64, 0x9f, 0x26, 0x41,
	0xad, 0x45, 0x46, 0x92, 0x27, 0x5e, 0x55, 0x2f, 0x8c, 0xa3, 0xa5, 0x7d, 0x69, 0xd5, 0x95, 0x3b,
	0x07, 0x58, 0xb3, 0x40, 0x86, 0xac, 0x1d, 0xf7, 0x30, 0x37, 0x6b, 0xe4, 0x88, 0xd9, 0xe7, 0x89,
	0xe1, 0x1b, 0x83, 0x49, 0x4c, 0x3f, 0xf8, 0xfe, 0x8d, 0x53, 0xaa, 0x90, 0xca, 0xd8, 0x85, 0x61,
	0x20, 0x71, 0x67, 0xa4, 0x2d, 0x2b, 0x09, 0x5b, 0xcb, 0x9b, 0x25, 0xd0, 0xbe, 0xe5, 0x6c, 0x52,
	0x59, 0xa6, 0x74, 0xd2, 0xe6, 0xf4, 0xb4, 0xc0, 0xd1, 0x66, 0xaf, 0xc2, 0x39, 0x4b, 0x63, 0xb6
};
/* RFC 6986 5.4: l(b63..b0) = b63*A[0] xor ... xor b0*A[63] */
static const uint64_t vf_gost_A[64] = {
	0x8e20faa72ba0b470ull, 0x47107ddd9b505a38ull, 0xad08b0e0c3282d1cull, 0xd8045870ef14980eull,
	0x6c022c38f90a4c07ull, 0x3601161cf205268dull, 0x1b8e0b0e798c13c8ull, 0x83478b07b2468764ull,
	0xa011d380818e8f40ull, 0x5086e740ce47c920ull, 0x2843fd2067adea10ull, 0x14aff010bdd87508ull,
	0x0ad97808d06cb404ull, 0x05e23c0468365a02ull, 0x8c711e02341b2d01ull, 0x46b60f011a83988eull,
	0x90dab52a387ae76full, 0x486dd4151c3dfdb9ull, 0x24b86a840e90f0d2ull, 0x125c354207487869ull,
	0x092e94218d243cbaull, 0x8a174a9ec8121e5dull, 0x4585254f64090fa0ull, 0xaccc9ca9328a8950ull,
	0x9d4df05d5f661451ull, 0xc0a878a0a1330aa6ull, 0x60543c50de970553ull, 0x302a1e286fc58ca7ull,
	0x18150f14b9ec46ddull, 0x0c84890ad27623e0ull, 0x0642ca05693b9f70ull, 0x0321658cba93c138ull,
	0x86275df09ce8aaa8ull, 0x439da0784e745554ull, 0xafc0503c273aa42aull, 0xd960281e9d1d5215ull,
	0xe230140fc0802984ull, 0x71180a8960409a42ull, 0xb60c05ca30204d21ull, 0x5b068c651810a89eull,
	0x456c34887a3805b9ull, 0xac361a443d1c8cd2ull, 0x561b0d22900e4669ull, 0x2b838811480723baull,
	0x9bcf4486248d9f5dull, 0xc3e9224312c8c1a0ull, 0xeffa11af0964ee50ull, 0xf97d86d98a327728ull,
	0xe4fa2054a80b329cull, 0x727d102a548b194eull, 0x39b008152acb8227ull, 0x9258048415eb419dull,
	0x492c024284fbaec0ull, 0xaa16012142f35760ull, 0x550b8e9e21f7a530ull, 0xa48b474f9ef5dc18ull,
	0x70a6a56e2440598eull, 0x3853dc371220a247ull, 0x1ca76e95091051adull, 0x0edd37c48a08a6d8ull,
	0x07e095624504536cull, 0x8d70c431ac02a736ull, 0xc83862965601dd1bull, 0x641c314b2b8ee083ull
};
/* RFC 6986 5.5: iteration constants C_1..C_12 (word 0 least significant) */
static const uint64_t vf_gost_C[12][8] = {
	{
		0xdd806559f2a64507ull, 0x05767436cc744d23ull, 0xa2422a08a460d315ull, 0x4b7ce09192676901ull,
		0x714eb88d7585c4fcull, 0x2f6a76432e45d016ull, 0xebcb2f81c0657c1full, 0xb1085bda1ecadae9ull
	},
	{
		0xe679047021b19bb7ull, 0x55dda21bd7cbcd56ull, 0x5cb561c2db0aa7caull, 0x9ab5176b12d69958ull,
		0x61d55e0f16b50131ull, 0xf3feea720a232b98ull, 0x4fe39d460f70b5d7ull, 0x6fa3b58aa99d2f1aull
	},
	{
		0x991e96f50aba0ab2ull, 0xc2b6f443867adb31ull, 0xc1c93a376062db09ull, 0xd3e20fe490359eb1ull,
		0xf2ea7514b1297b7bull, 0x06f15e5f529c1f8bull, 0x0a39fc286a3d8435ull, 0xf574dcac2bce2fc7ull
	},
	{
		0x220cbebc84e3d12eull, 0x3453eaa193e837f1ull, 0xd8b71333935203beull, 0xa9d72c82ed03d675ull,
		0x9d721cad685e353full, 0x488e857e335c3c7dull, 0xf948e1a05d71e4ddull, 0xef1fdfb3e81566d2ull
	},
	{
		0x601758fd7c6cfe57ull, 0x7a56a27ea9ea63f5ull, 0xdfff00b723271a16ull, 0xbfcd1747253af5a3ull,
		0x359e35d7800fffbdull, 0x7f151c1f1686104aull, 0x9a3f410c6ca92363ull, 0x4bea6bacad474799ull
	},
	{
		0xfa68407a46647d6eull, 0xbf71c57236904f35ull, 0x0af21f66c2bec6b6ull, 0xcffaa6b71c9ab7b4ull,
		0x187f9ab49af08ec6ull, 0x2d66c4f95142a46cull, 0x6fa4c33b7a3039c0ull, 0xae4faeae1d3ad3d9ull
	},
	{
		0x8886564d3a14d493ull, 0x3517454ca23c4af3ull, 0x06476983284a0504ull, 0x0992abc52d822c37ull,
		0xd3473e33197a93c9ull, 0x399ec6c7e6bf87c9ull, 0x51ac86febf240954ull, 0xf4c70e16eeaac5ecull
	},
	{
		0xa47f0dd4bf02e71eull, 0x36acc2355951a8d9ull, 0x69d18d2bd1a5c42full, 0xf4892bcb929b0690ull,
		0x89b4443b4ddbc49aull, 0x4eb7f8719c36de1eull, 0x03e7aa020c6e4141ull, 0x9b1f5b424d93c9a7ull
	},
	{
		0x7261445183235adbull, 0x0e38dc92cb1f2a60ull, 0x7b2b8a9aa6079c54ull, 0x800a440bdbb2ceb1ull,
		0x3cd955b7e00d0984ull, 0x3a7d3a1b25894224ull, 0x944c9ad8ec165fdeull, 0x378f5a541631229bull
	},
	{
		0x74b4c7fb98459cedull, 0x3698fad1153bb6c3ull, 0x7a1e6c303b7652f4ull, 0x9fe76702af69334bull,
		0x1fffe18a1b336103ull, 0x8941e71cff8a78dbull, 0x382ae548b2e4f3f3ull, 0xabbedea680056f52ull
	},
	{
		0x6bcaa4cd81f32d1bull, 0xdea2594ac06fd85dull, 0xefbacd1d7d476e98ull, 0x8a1d71efea48b9caull,
		0x2001802114846679ull, 0xd8fa6bbbebab0761ull, 0x3002c6cd635afe94ull, 0x7bcd9ed0efc889fbull
	},
	{
		0x48bc924af11bd720ull, 0xfaf417d5d9b21b99ull, 0xe71da4aa88e12852ull, 0x5d80ef9d1891cc86ull,
		0xf82012d430219f9bull, 0xcda43c32bcdf1d77ull, 0xd21380b00449b17aull, 0x378ee767f11631baull
	}
};

/* 6.2 S: pi on every byte; 6.3 P: byte i <- byte tau(i), tau = transpose of the 8x8 byte
 * matrix; 6.4 L: l on every 64-bit word.  LPS = L o P o S. */
/* VF_GOST_PI / VF_GOST_AROW: the tables read by the definitional LPS.  By default the
 * specification's own; the small-table T job reads the library's (proved equal entry by entry
 * to the specification's by job gost.small.tables) so that both sides index the same array. */
#ifndef VF_GOST_PI
#define VF_GOST_PI(x)	vf_gost_pi[x]
#define VF_GOST_AROW(t)	vf_gost_A[t]
#endif
/* P o S, two spellings: gather (new byte i <- pi(old byte tau(i))) into bytes then words ... */
static inline void
vf_gost_ps_gather(uint64_t w[8], const uint64_t in[8]) {
	uint8_t s[64], p[64];
	unsigned i, j;
	for (i = 0; i < 64; i++)
		s[i] = VF_GOST_PI((uint8_t)(in[i >> 3] >> (8 * (i & 7))));
	for (i = 0; i < 64; i++)
		p[i] = s[8 * (i & 7) + (i >> 3)];		/* tau(i) = 8 * (i mod 8) + i div 8 */
	for (i = 0; i < 8; i++) {
		w[i] = 0;
		for (j = 0; j < 8; j++) w[i] |= (uint64_t)p[8 * i + j] << (8 * j);
	}
}
/* ... and scatter (pi(old byte i) -> new byte tau(i)) through a byte view of the word array
 * (little-endian hosts); tau is an involution, so this is the same permutation */
static inline void
vf_gost_ps_scatter(uint64_t w[8], const uint64_t in[8]) {
	for (unsigned i = 0; i < 64; i++)
		((uint8_t *)w)[8 * (i & 7) + (i >> 3)] = VF_GOST_PI(((const uint8_t *)in)[i]);
}
/* 5.4 / 6.4: l(b63 .. b0) = b63*A[0] xor b62*A[1] xor ... xor b0*A[63]: walk the bits of the word
 * from the most significant one downwards */
static inline uint64_t
vf_gost_l(uint64_t w) {
	uint64_t c = 0, val = w;
	for (unsigned t = 0; t < 64; t++) {
		if (val & 0x8000000000000000ull) c ^= VF_GOST_AROW(t);	/* b(63-t) */
		val = (val << 1);
	}
	return c;
}
/* LPS by definition (RFC 6986 6.2-6.4) */
static inline void
vf_gost_lps_def(uint64_t out[8], const uint64_t in[8]) {
	uint64_t w[8];
	vf_gost_ps_gather(w, in);
	for (unsigned i = 0; i < 8; i++) out[i] = vf_gost_l(w[i]);
}
/* The same function with the scatter spelling of P o S.  Used under CBMC for the small-table
 * build only, because the SMT back end needs the same term shapes on both sides.  Job
 * gost.lemma.lps_forms proves vf_gost_ps_scatter == vf_gost_ps_gather for all arguments,
 * hence vf_gost_lps_scatter == vf_gost_lps_def; the native
 * self test compares them on random inputs as well. */
static inline void
vf_gost_lps_scatter(uint64_t out[8], const uint64_t in[8]) {
	uint64_t w[8];
	vf_gost_ps_scatter(w, in);
	for (unsigned i = 0; i < 8; i++) out[i] = vf_gost_l(w[i]);
}

/* The contribution of one input byte to LPS: L is linear over GF(2) and S, P act on bytes, so
 *     LPS(x) word i  ==  xor over j = 0..7 of  vf_gost_expand(j, byte i of word j of x)
 * for every x.  The library's big tables gost3411_2012_Ax[j][b] claim to be exactly these
 * values; job "gost.tables" proves Ax[j][b] == vf_gost_expand(j, b) for all 8 x 256 entries. */
static inline uint64_t
vf_gost_expand(unsigned j, uint8_t b) {
	uint8_t v = vf_gost_pi[b];
	uint64_t c = 0;
	/* byte j of a word occupies bits 8j..8j+7; bit t of the word selects row A[63 - t] */
	for (unsigned u = 0; u < 8; u++)
		if ((v >> u) & 1) c ^= vf_gost_A[63 - (8 * j + u)];
	return c;
}
static inline void
vf_gost_lps_tab(uint64_t out[8], const uint64_t in[8]) {
	for (unsigned i = 0; i < 8; i++) {
		uint64_t c = 0;
		for (unsigned j = 0; j < 8; j++)
#ifdef VF_GOST_USE_LIB_TABLE	/* T jobs: the library's table, justified entry by entry by job gost.tables */
			c ^= gost3411_2012_Ax[j][(in[j] >> (8 * i)) & 0xff];
#else
			c ^= vf_gost_expand(j, (uint8_t)(in[j] >> (8 * i)));
#endif
		out[i] = c;
	}
}
/* LPS as an ABSTRACT function (CBMC uninterpreted functions, one per output word).  Used by
 * the composition jobs gost.T.gN*: the g_N step of the library, with gost3411_2012_XSLP
 * replaced by its contract "dst == LPS(a xor b)", equals vf_gost_stage below for EVERY
 * function LPS - in particular for the standard's, for which the contract of
 * gost3411_2012_XSLP is proved separately (jobs gost.XSLP.*).  Nothing about pi, tau or A
 * is needed to see that the library composes X, LPS, the key schedule, the final xor and
 * the N / Sigma updates the way RFC 6986 section 7/8 does. */
#ifdef VF_GOST_LPS_ABSTRACT
#define VF_GOST_UF(i) uint64_t __CPROVER_uninterpreted_gost_lps##i(uint64_t, uint64_t, uint64_t, uint64_t, uint64_t, uint64_t, uint64_t, uint64_t)
VF_GOST_UF(0); VF_GOST_UF(1); VF_GOST_UF(2); VF_GOST_UF(3); VF_GOST_UF(4); VF_GOST_UF(5); VF_GOST_UF(6); VF_GOST_UF(7);
#define VF_GOST_UFA(i, x) __CPROVER_uninterpreted_gost_lps##i((x)[0], (x)[1], (x)[2], (x)[3], (x)[4], (x)[5], (x)[6], (x)[7])
static inline void
vf_gost_lps_abs(uint64_t out[8], const uint64_t in[8]) {
	uint64_t r0 = VF_GOST_UFA(0, in), r1 = VF_GOST_UFA(1, in), r2 = VF_GOST_UFA(2, in), r3 = VF_GOST_UFA(3, in),
	    r4 = VF_GOST_UFA(4, in), r5 = VF_GOST_UFA(5, in), r6 = VF_GOST_UFA(6, in), r7 = VF_GOST_UFA(7, in);
	out[0] = r0; out[1] = r1; out[2] = r2; out[3] = r3; out[4] = r4; out[5] = r5; out[6] = r6; out[7] = r7;
}
#undef VF_GOST_LPS
#define VF_GOST_LPS(out, in)	vf_gost_lps_abs(out, in)
#endif
/* LPS as a LOCK-STEP ORACLE (composition jobs gost.T.gN*).  The library's g_N step runs first
 * with gost3411_2012_XSLP replaced by its contract in oracle form: call number n records its
 * argument a xor b in vf_lps_in[n] and returns the arbitrary but fixed row vf_lps_out[n].
 * The specification then runs with this LPS: its j-th application must be applied to exactly
 * vf_lps_in[j] (asserted) and yields vf_lps_out[j].  If all assertions hold and the final
 * states agree, then by induction over the call number the library and the specification
 * apply LPS to the same arguments in the same order and combine the results in the same way -
 * for EVERY function LPS, in particular the standard's, for which gost3411_2012_XSLP is
 * proved separately (jobs gost.XSLP.*). */
#ifdef VF_GOST_LPS_ORACLE
#define VF_LPS_MAX 64
uint64_t vf_lps_in[VF_LPS_MAX][8];
uint64_t vf_lps_out[VF_LPS_MAX][8];	/* filled with arbitrary values by the harness, then never assigned */
size_t vf_lps_n;			/* applications by the library */
size_t vf_lps_j;			/* applications by the specification */
static inline void
vf_gost_lps_oracle(uint64_t out[8], const uint64_t in[8]) {
	__CPROVER_assert(vf_lps_j < vf_lps_n, "specification applies LPS no more often than the library");
	for (unsigned i = 0; i < 8; i++)
		__CPROVER_assert(in[i] == vf_lps_in[vf_lps_j][i], "same LPS argument as the library's call with this number");
	for (unsigned i = 0; i < 8; i++)
		out[i] = vf_lps_out[vf_lps_j][i];
	vf_lps_j++;
}
#undef VF_GOST_LPS
#define VF_GOST_LPS(out, in)	vf_gost_lps_oracle(out, in)
#endif
#ifndef VF_GOST_LPS
#define VF_GOST_LPS(out, in)	vf_gost_lps_def(out, in)
#endif

/* 7: g_N(h, m) = E(LPS(h xor N), m) xor h xor m,  E(K, m) = X[K_13] LPSX[K_12] ... LPSX[K_1](m),
 * K_1 = K, K_(i+1) = LPS(K_i xor C_i) */
static inline void
vf_gost_g(uint64_t h[8], const uint64_t N[8], const uint8_t *m8) {
	uint64_t K[8], s[8], t[8], m[8];
	unsigned i, r;
	for (i = 0; i < 8; i++) {
		m[i] = 0;
		for (r = 0; r < 8; r++) m[i] |= (uint64_t)m8[8 * i + r] << (8 * r);
	}
	for (i = 0; i < 8; i++) t[i] = h[i] ^ N[i];
	VF_GOST_LPS(K, t);
	for (i = 0; i < 8; i++) s[i] = m[i];
	for (r = 0; r < 12; r++) {
		for (i = 0; i < 8; i++) t[i] = s[i] ^ K[i];
		VF_GOST_LPS(s, t);				/* LPSX[K_(r+1)] */
		for (i = 0; i < 8; i++) t[i] = K[i] ^ vf_gost_C[r][i];
		VF_GOST_LPS(K, t);				/* K_(r+2) */
	}
	for (i = 0; i < 8; i++) h[i] ^= (m[i] ^ s[i] ^ K[i]);	/* X[K_13], xor h, xor m */
}

/* 512-bit addition modulo 2^512 */
static inline void
vf_gost_add512(uint64_t a[8], const uint64_t b[8]) {
	unsigned carry = 0;
	for (unsigned i = 0; i < 8; i++) {
		unsigned __int128 t = (unsigned __int128)a[i] + b[i] + carry;
		a[i] = (uint64_t)t;
		carry = (unsigned)(t >> 64);
	}
}

/* 8.2 / 8.3: one compression step:  h = g_N(h, m); N = N + bits; Sigma = Sigma + m */
static inline void
vf_gost_stage(uint64_t h[8], uint64_t N[8], uint64_t S[8], const uint8_t *m8, size_t bits) {
	uint64_t m[8], nb[8] = { 0, 0, 0, 0, 0, 0, 0, 0 };
	unsigned i, r;
	for (i = 0; i < 8; i++) {
		m[i] = 0;
		for (r = 0; r < 8; r++) m[i] |= (uint64_t)m8[8 * i + r] << (8 * r);
	}
	vf_gost_g(h, N, m8);
	nb[0] = bits;
	vf_gost_add512(N, nb);
	vf_gost_add512(S, m);
}

/* 8: the whole function; bits in {256, 512}; out has bits/8 bytes (native self test only) */
static inline void
vf_gost_hash(unsigned bits, const uint8_t *msg, size_t len, uint8_t *out) {
	uint64_t h[8], N[8], S[8], zero[8];
	uint8_t blk[64];
	size_t off = 0, r, i;
	for (i = 0; i < 8; i++) { h[i] = (bits == 256) ? 0x0101010101010101ull : 0; N[i] = S[i] = zero[i] = 0; }
	for (; off + 64 <= len; off += 64)			/* stage 2 */
		vf_gost_stage(h, N, S, msg + off, 512);
	r = len - off;						/* stage 3 */
	for (i = 0; i < 64; i++) blk[i] = (i < r) ? msg[off + i] : (i == r) ? 0x01 : 0x00;
	vf_gost_stage(h, N, S, blk, r * 8);
	for (i = 0; i < 64; i++) blk[i] = (uint8_t)(N[i >> 3] >> (8 * (i & 7)));
	vf_gost_g(h, zero, blk);				/* g_0(h, N) */
	for (i = 0; i < 64; i++) blk[i] = (uint8_t)(S[i >> 3] >> (8 * (i & 7)));
	vf_gost_g(h, zero, blk);				/* g_0(h, Sigma) */
	for (i = 0; i < bits / 8; i++) {			/* h or MSB_256(h) */
		size_t k = 64 - bits / 8 + i;
		out[i] = (uint8_t)(h[k >> 3] >> (8 * (k & 7)));
	}
}

/* RFC 2104 over Streebog (RFC 7836 section 4.1.1 / 4.1.2), native self test only */
static inline void
vf_gost_hmac(unsigned bits, const uint8_t *key, size_t klen, const uint8_t *msg, size_t mlen, uint8_t *out) {
	uint8_t k[64], buf[64 + 4096], inner[64];
	size_t i, hs = bits / 8;
	for (i = 0; i < 64; i++) k[i] = 0;
	if (klen > 64) vf_gost_hash(bits, key, klen, k); else for (i = 0; i < klen; i++) k[i] = key[i];
	for (i = 0; i < 64; i++) buf[i] = k[i] ^ 0x36;
	for (i = 0; i < mlen && i < 4096; i++) buf[64 + i] = msg[i];
	vf_gost_hash(bits, buf, 64 + mlen, inner);
	for (i = 0; i < 64; i++) buf[i] = k[i] ^ 0x5c;
	for (i = 0; i < hs; i++) buf[64 + i] = inner[i];
	vf_gost_hash(bits, buf, 64 + hs, out);
}

#if !defined(VF_CBMC) && !defined(VF_REPLAY)
#include <stdio.h>
#include <string.h>
/* Published examples: RFC 6986 section 10 (M1, M2), the empty message and the "quick brown
 * fox" examples of the Streebog reference pages, RFC 7836 appendix B HMAC examples.
 * Returns the number of failures. */
static inline int
vf_gost_expect(unsigned bits, const uint8_t *m, size_t n, const char *want, const char *what) {
	uint8_t d[64]; char h[129];
	vf_gost_hash(bits, m, n, d);
	for (size_t i = 0; i < bits / 8; i++) sprintf(h + 2 * i, "%02x", d[i]);
	if (strcmp(h, want) != 0) { printf("FAIL streebog%u %s: got %s want %s\n", bits, what, h, want); return 1; }
	/* the table form of LPS must agree with the definitional form */
	return 0;
}
static inline int
vf_gost_selftest(void) {
	int bad = 0;
	static const uint8_t m2[72] = {	/* RFC 6986 10.2: M2, Windows-1251 text */
		0xd1, 0xe5, 0x20, 0xe2, 0xe5, 0xf2, 0xf0, 0xe8, 0x2c, 0x20, 0xd1, 0xf2, 0xf0, 0xe8, 0xe1, 0xee,
		0xe6, 0xe8, 0x20, 0xe2, 0xed, 0xf3, 0xf6, 0xe8, 0x2c, 0x20, 0xe2, 0xe5, 0xfe, 0xf2, 0xfa, 0x20,
		0xf1, 0x20, 0xec, 0xee, 0xf0, 0xff, 0x20, 0xf1, 0xf2, 0xf0, 0xe5, 0xeb, 0xe0, 0xec, 0xe8, 0x20,
		0xed, 0xe0, 0x20, 0xf5, 0xf0, 0xe0, 0xe1, 0xf0, 0xfb, 0xff, 0x20, 0xef, 0xeb, 0xfa, 0xea, 0xfb,
		0x20, 0xc8, 0xe3, 0xee, 0xf0, 0xe5, 0xe2, 0xfb };
	const char *m1 = "012345678901234567890123456789012345678901234567890123456789012";
	const char *fox = "The quick brown fox jumps over the lazy dog";
	bad += vf_gost_expect(512, (const uint8_t *)m1, 63, "1b54d01a4af5b9d5cc3d86d68d285462b19abc2475222f35c085122be4ba1ffa00ad30f8767b3a82384c6574f024c311e2a481332b08ef7f41797891c1646f48", "M1");
	bad += vf_gost_expect(256, (const uint8_t *)m1, 63, "9d151eefd8590b89daa6ba6cb74af9275dd051026bb149a452fd84e5e57b5500", "M1");
	bad += vf_gost_expect(512, m2, 72, "1e88e62226bfca6f9994f1f2d51569e0daf8475a3b0fe61a5300eee46d961376035fe83549ada2b8620fcd7c496ce5b33f0cb9dddc2b6460143b03dabac9fb28", "M2");
	bad += vf_gost_expect(256, m2, 72, "9dd2fe4e90409e5da87f53976d7405b0c0cac628fc669a741d50063c557e8f50", "M2");
	bad += vf_gost_expect(256, (const uint8_t *)"", 0, "3f539a213e97c802cc229d474c6aa32a825a360b2a933a949fd925208d9ce1bb", "empty");
	bad += vf_gost_expect(512, (const uint8_t *)"", 0, "8e945da209aa869f0455928529bcae4679e9873ab707b55315f56ceb98bef0a7362f715528356ee83cda5f2aac4c6ad2ba3a715c1bcd81cb8e9f90bf4c1c1a8a", "empty");
	bad += vf_gost_expect(256, (const uint8_t *)fox, 43, "3e7dea7f2384b6c5a3d0e24aaa29c05e89ddd762145030ec22c71a6db8b2c1f4", "fox");
	{	/* RFC 7836 appendix B: HMAC_GOSTR3411_2012_256 / _512 */
		uint8_t key[32], d[64]; char h[129];
		static const uint8_t msg[16] = { 0x01, 0x26, 0xbd, 0xb8, 0x78, 0x00, 0xaf, 0x21, 0x43, 0x41, 0x45, 0x65, 0x63, 0x78, 0x01, 0x00 };
		for (int i = 0; i < 32; i++) key[i] = (uint8_t)i;
		vf_gost_hmac(256, key, 32, msg, 16, d);
		for (int i = 0; i < 32; i++) sprintf(h + 2 * i, "%02x", d[i]);
		if (strcmp(h, "a1aa5f7de402d7b3d323f2991c8d4534013137010a83754fd0af6d7cd4922ed9")) { printf("FAIL hmac-streebog256: %s\n", h); bad++; }
		vf_gost_hmac(512, key, 32, msg, 16, d);
		for (int i = 0; i < 64; i++) sprintf(h + 2 * i, "%02x", d[i]);
		if (strcmp(h, "a59bab22ecae19c65fbde6e5f4e9f5d8549d31f037f9df9b905500e171923a773d5f1530f2ed7e964cb2eedc29e9ad2f3afe93b2814f79f5000ffc0366c251e6")) { printf("FAIL hmac-streebog512: %s\n", h); bad++; }
	}
	/* table form of LPS (what the T jobs compare against) == definitional form, sampled */
	{
		uint64_t x[8], a[8], b[8], seed = 88172645463325252ull;
		for (int t = 0; t < 2000; t++) {
			for (int i = 0; i < 8; i++) { seed ^= seed << 13; seed ^= seed >> 7; seed ^= seed << 17; x[i] = seed; }
			vf_gost_lps_def(a, x); vf_gost_lps_tab(b, x);
			if (memcmp(a, b, 64) == 0) vf_gost_lps_scatter(b, x);
			if (memcmp(a, b, 64)) { printf("FAIL LPS table form differs from definition\n"); bad++; break; }
		}
	}
	return bad;
}
#endif
#endif
