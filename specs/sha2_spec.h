/*
 * SHA-224/256/384/512 as defined by FIPS 180-4 (sections 4.1.2/4.1.3, 4.2.2/4.2.3, 5.1, 5.3,
 * 6.2-6.5), written from the standard's text, NOT from include/crypto/hash/sha2.h.
 *
 *   vf_sha256_compress()   section 6.2.2 for one 512-bit block  (SHA-224 and SHA-256)
 *   vf_sha512_compress()   section 6.4.2 for one 1024-bit block (SHA-384 and SHA-512)
 *   vf_sha2_hash()         whole functions; native self test only
 *
 * Ch and Maj are spelled with OR instead of the standard's XOR (VF_CH / VF_MAJ, see
 * specs/sha1_spec.h: same functions, proved by job "sha.lemma.ch_maj"); the sums are in the
 * standard's order.
 *
 * The constant tables are additionally recomputed by the self test
 * (harness/C04/spec_selftest.c): K = fractional parts of the cube roots of the first 64/80
 * primes, H0 = fractional parts of the square roots of the first 8 (SHA-256, SHA-512) and
 * of the 9th..16th primes (SHA-384; SHA-224 = their second 32 bits).
 */
#ifndef VF_SHA2_SPEC_H
#define VF_SHA2_SPEC_H
#include <stdint.h>
#include <stddef.h>
#include "specs/sha1_spec.h"	/* VF_CH, VF_MAJ */

static inline uint32_t vf_rotr32(unsigned n, uint32_t x) { return (x >> n) | (x << (32u - n)); }
static inline uint64_t vf_rotr64(unsigned n, uint64_t x) { return (x >> n) | (x << (64u - n)); }

/* FIPS 180-4 4.2.2 */
static const uint32_t vf_sha256_K[64] = {
	0x428a2f98u, 0x71374491u, 0xb5c0fbcfu, 0xe9b5dba5u, 0x3956c25bu, 0x59f111f1u, 0x923f82a4u, 0xab1c5ed5u,
	0xd807aa98u, 0x12835b01u, 0x243185beu, 0x550c7dc3u, 0x72be5d74u, 0x80deb1feu, 0x9bdc06a7u, 0xc19bf174u,
	0xe49b69c1u, 0xefbe4786u, 0x0fc19dc6u, 0x240ca1ccu, 0x2de92c6fu, 0x4a7484aau, 0x5cb0a9dcu, 0x76f988dau,
	0x983e5152u, 0xa831c66du, 0xb00327c8u, 0xbf597fc7u, 0xc6e00bf3u, 0xd5a79147u, 0x06ca6351u, 0x14292967u,
	0x27b70a85u, 0x2e1b2138u, 0x4d2c6dfcu, 0x53380d13u, 0x650a7354u, 0x766a0abbu, 0x81c2c92eu, 0x92722c85u,
	0xa2bfe8a1u, 0xa81a664bu, 0xc24b8b70u, 0xc76c51a3u, 0xd192e819u, 0xd6990624u, 0xf40e3585u, 0x106aa070u,
	0x19a4c116u, 0x1e376c08u, 0x2748774cu, 0x34b0bcb5u, 0x391c0cb3u, 0x4ed8aa4au, 0x5b9cca4fu, 0x682e6ff3u,
	0x748f82eeu, 0x78a5636fu, 0x84c87814u, 0x8cc70208u, 0x90befffau, 0xa4506cebu, 0xbef9a3f7u, 0xc67178f2u
};
/* FIPS 180-4 4.2.3 */
static const uint64_t vf_sha512_K[80] = {
	0x428a2f98d728ae22ull, 0x7137449123ef65cdull, 0xb5c0fbcfec4d3b2full, 0xe9b5dba58189dbbcull,
	0x3956c25bf348b538ull, 0x59f111f1b605d019ull, 0x923f82a4af194f9bull, 0xab1c5ed5da6d8118ull,
	0xd807aa98a3030242ull, 0x12835b0145706fbeull, 0x243185be4ee4b28cull, 0x550c7dc3d5ffb4e2ull,
	0x72be5d74f27b896full, 0x80deb1fe3b1696b1ull, 0x9bdc06a725c71235ull, 0xc19bf174cf692694ull,
	0xe49b69c19ef14ad2ull, 0xefbe4786384f25e3ull, 0x0fc19dc68b8cd5b5ull, 0x240ca1cc77ac9c65ull,
	0x2de92c6f592b0275ull, 0x4a7484aa6ea6e483ull, 0x5cb0a9dcbd41fbd4ull, 0x76f988da831153b5ull,
	0x983e5152ee66dfabull, 0xa831c66d2db43210ull, 0xb00327c898fb213full, 0xbf597fc7beef0ee4ull,
	0xc6e00bf33da88fc2ull, 0xd5a79147930aa725ull, 0x06ca6351e003826full, 0x142929670a0e6e70ull,
	0x27b70a8546d22ffcull, 0x2e1b21385c26c926ull, 0x4d2c6dfc5ac42aedull, 0x53380d139d95b3dfull,
	0x650a73548baf63deull, 0x766a0abb3c77b2a8ull, 0x81c2c92e47edaee6ull, 0x92722c851482353bull,
	0xa2bfe8a14cf10364ull, 0xa81a664bbc423001ull, 0xc24b8b70d0f89791ull, 0xc76c51a30654be30ull,
	0xd192e819d6ef5218ull, 0xd69906245565a910ull, 0xf40e35855771202aull, 0x106aa07032bbd1b8ull,
	0x19a4c116b8d2d0c8ull, 0x1e376c085141ab53ull, 0x2748774cdf8eeb99ull, 0x34b0bcb5e19b48a8ull,
	0x391c0cb3c5c95a63ull, 0x4ed8aa4ae3418acbull, 0x5b9cca4f7763e373ull, 0x682e6ff3d6b2b8a3ull,
	0x748f82ee5defb2fcull, 0x78a5636f43172f60ull, 0x84c87814a1f0ab72ull, 0x8cc702081a6439ecull,
	0x90befffa23631e28ull, 0xa4506cebde82bde9ull, 0xbef9a3f7b2c67915ull, 0xc67178f2e372532bull,
	0xca273eceea26619cull, 0xd186b8c721c0c207ull, 0xeada7dd6cde0eb1eull, 0xf57d4f7fee6ed178ull,
	0x06f067aa72176fbaull, 0x0a637dc5a2c898a6ull, 0x113f9804bef90daeull, 0x1b710b35131c471bull,
	0x28db77f523047d84ull, 0x32caab7b40c72493ull, 0x3c9ebe0a15c9bebcull, 0x431d67c49c100d4cull,
	0x4cc5d4becb3e42b6ull, 0x597f299cfc657e2aull, 0x5fcb6fab3ad6faecull, 0x6c44198c4a475817ull
};
/* FIPS 180-4 5.3.2 - 5.3.5 */
static const uint32_t vf_sha224_H0[8] = {
	0xc1059ed8u, 0x367cd507u, 0x3070dd17u, 0xf70e5939u, 0xffc00b31u, 0x68581511u, 0x64f98fa7u, 0xbefa4fa4u };
static const uint32_t vf_sha256_H0[8] = {
	0x6a09e667u, 0xbb67ae85u, 0x3c6ef372u, 0xa54ff53au, 0x510e527fu, 0x9b05688cu, 0x1f83d9abu, 0x5be0cd19u };
static const uint64_t vf_sha384_H0[8] = {
	0xcbbb9d5dc1059ed8ull, 0x629a292a367cd507ull, 0x9159015a3070dd17ull, 0x152fecd8f70e5939ull,
	0x67332667ffc00b31ull, 0x8eb44a8768581511ull, 0xdb0c2e0d64f98fa7ull, 0x47b5481dbefa4fa4ull };
static const uint64_t vf_sha512_H0[8] = {
	0x6a09e667f3bcc908ull, 0xbb67ae8584caa73bull, 0x3c6ef372fe94f82bull, 0xa54ff53a5f1d36f1ull,
	0x510e527fade682d1ull, 0x9b05688c2b3e6c1full, 0x1f83d9abfb41bd6bull, 0x5be0cd19137e2179ull };

/* ---- SHA-224 / SHA-256: FIPS 180-4 6.2.2 ---- */
static inline void
vf_sha256_compress(uint32_t H[8], const uint8_t *blk) {
	/* Message schedule scratch W[0..63].  Under CBMC its storage is declared as 64-bit cells
	 * accessed as 32-bit words, only because the SMT back end finishes when the schedule
	 * words have the same bit-vector shape on both sides of the equivalence (the library
	 * keeps W in a uint64_t array); the function computed does not depend on how a local
	 * scratch array is laid out.  Natively (self test) it is a plain uint32_t array. */
#ifdef VF_CBMC	/* defined by the driver for goto-cc builds */
	uint64_t sched[32];
	uint32_t *W = (uint32_t *)sched;
#else
	uint32_t W[64];
#endif
	uint32_t a, b, c, d, e, f, g, h, T1, T2;
	unsigned t;

	for (t = 0; t < 16; t++)
		W[t] = ((uint32_t)blk[4 * t] << 24) | ((uint32_t)blk[4 * t + 1] << 16) |
		    ((uint32_t)blk[4 * t + 2] << 8) | (uint32_t)blk[4 * t + 3];
	for (t = 16; t < 64; t++)	/* sigma1(W[t-2]) + W[t-7] + sigma0(W[t-15]) + W[t-16] */
		W[t] = (vf_rotr32(17, W[t - 2]) ^ vf_rotr32(19, W[t - 2]) ^ (W[t - 2] >> 10)) + W[t - 7] +
		    (vf_rotr32(7, W[t - 15]) ^ vf_rotr32(18, W[t - 15]) ^ (W[t - 15] >> 3)) + W[t - 16];
	a = H[0]; b = H[1]; c = H[2]; d = H[3]; e = H[4]; f = H[5]; g = H[6]; h = H[7];
	for (t = 0; t < 64; t++) {
		T1 = h + (vf_rotr32(6, e) ^ vf_rotr32(11, e) ^ vf_rotr32(25, e)) +	/* Sigma1(e) */
		    VF_CH(e, f, g) +
		    vf_sha256_K[t] + W[t];
		T2 = (vf_rotr32(2, a) ^ vf_rotr32(13, a) ^ vf_rotr32(22, a)) +		/* Sigma0(a) */
		    VF_MAJ(a, b, c);
		h = g; g = f; f = e; e = d + T1; d = c; c = b; b = a; a = T1 + T2;
	}
	H[0] += a; H[1] += b; H[2] += c; H[3] += d; H[4] += e; H[5] += f; H[6] += g; H[7] += h;
}

/* ---- SHA-384 / SHA-512: FIPS 180-4 6.4.2 ---- */
static inline void
vf_sha512_compress(uint64_t H[8], const uint8_t *blk) {
	uint64_t W[80], a, b, c, d, e, f, g, h, T1, T2;
	unsigned t, i;

	for (t = 0; t < 16; t++) {
		W[t] = 0;
		for (i = 0; i < 8; i++)
			W[t] = (W[t] << 8) | (uint64_t)blk[8 * t + i];	/* big-endian 64-bit words */
	}
	for (t = 16; t < 80; t++)
		W[t] = (vf_rotr64(19, W[t - 2]) ^ vf_rotr64(61, W[t - 2]) ^ (W[t - 2] >> 6)) + W[t - 7] +
		    (vf_rotr64(1, W[t - 15]) ^ vf_rotr64(8, W[t - 15]) ^ (W[t - 15] >> 7)) + W[t - 16];
	a = H[0]; b = H[1]; c = H[2]; d = H[3]; e = H[4]; f = H[5]; g = H[6]; h = H[7];
	for (t = 0; t < 80; t++) {
		T1 = h + (vf_rotr64(14, e) ^ vf_rotr64(18, e) ^ vf_rotr64(41, e)) +
		    VF_CH(e, f, g) + vf_sha512_K[t] + W[t];
		T2 = (vf_rotr64(28, a) ^ vf_rotr64(34, a) ^ vf_rotr64(39, a)) +
		    VF_MAJ(a, b, c);
		h = g; g = f; f = e; e = d + T1; d = c; c = b; b = a; a = T1 + T2;
	}
	H[0] += a; H[1] += b; H[2] += c; H[3] += d; H[4] += e; H[5] += f; H[6] += g; H[7] += h;
}

/* whole functions (native self test): bits in {224,256,384,512}; out has bits/8 bytes */
static inline void
vf_sha2_hash(unsigned bits, const uint8_t *msg, size_t len, uint8_t *out) {
	uint8_t blk[128];
	size_t off = 0, i, r;
	uint64_t nbits = (uint64_t)len * 8u;	/* messages of the self test are < 2^61 bytes */

	if (bits <= 256) {
		uint32_t h[8];
		for (i = 0; i < 8; i++) h[i] = (bits == 224) ? vf_sha224_H0[i] : vf_sha256_H0[i];
		for (; off + 64 <= len; off += 64) vf_sha256_compress(h, msg + off);
		r = len - off;
		for (i = 0; i < r; i++) blk[i] = msg[off + i];
		blk[r++] = 0x80;
		if (r > 56) { for (; r < 64; r++) blk[r] = 0; vf_sha256_compress(h, blk); r = 0; }
		for (; r < 56; r++) blk[r] = 0;
		for (i = 0; i < 8; i++) blk[56 + i] = (uint8_t)(nbits >> (8 * (7 - i)));
		vf_sha256_compress(h, blk);
		for (i = 0; i < bits / 8; i++) out[i] = (uint8_t)(h[i >> 2] >> (8 * (3 - (i & 3))));
	} else {
		uint64_t h[8];
		for (i = 0; i < 8; i++) h[i] = (bits == 384) ? vf_sha384_H0[i] : vf_sha512_H0[i];
		for (; off + 128 <= len; off += 128) vf_sha512_compress(h, msg + off);
		r = len - off;
		for (i = 0; i < r; i++) blk[i] = msg[off + i];
		blk[r++] = 0x80;
		if (r > 112) { for (; r < 128; r++) blk[r] = 0; vf_sha512_compress(h, blk); r = 0; }
		for (; r < 120; r++) blk[r] = 0;	/* 128-bit length, high 64 bits zero here */
		for (i = 0; i < 8; i++) blk[120 + i] = (uint8_t)(nbits >> (8 * (7 - i)));
		vf_sha512_compress(h, blk);
		for (i = 0; i < bits / 8; i++) out[i] = (uint8_t)(h[i >> 3] >> (8 * (7 - (i & 7))));
	}
}
#endif
