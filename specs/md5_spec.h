/*
 * MD5 as defined by RFC 1321, written from the RFC text (section 3.4 step 4 and the
 * table T[1..64] = floor(2^32 * abs(sin(i)))), NOT from include/crypto/hash/md5.h.
 *
 *   vf_md5_compress()  one application of the block function (RFC 1321 section 3.4)
 *   vf_md5_hash()      the whole function: padding (3.1, 3.2), IV (3.3), blocks (3.4),
 *                      output (3.5) - used by the native self test only
 *
 * Executed natively against the RFC 1321 A.5 test suite and against sin() by
 * harness/C04/spec_selftest.c.
 *
 * Association of the four-term sum: RFC 1321 writes  a = b + ((a + F(b,c,d) + X[k] + T[i]) <<< s).
 * Addition mod 2^32 is associative and commutative, so any bracketing is the same
 * function; it is bracketed here as  a + ((F + X[k]) + T[i])  because the SMT back end
 * only finishes when both sides carry the same bracketing (DESIGN.md section 2).
 */
#ifndef VF_MD5_SPEC_H
#define VF_MD5_SPEC_H
#include <stdint.h>
#include <stddef.h>

/* RFC 1321 3.4: T[i] = integer part of 4294967296 * abs(sin(i)), i in radians, i = 1..64 */
static const uint32_t vf_md5_T[64] = {
	0xd76aa478u, 0xe8c7b756u, 0x242070dbu, 0xc1bdceeeu, 0xf57c0fafu, 0x4787c62au, 0xa8304613u, 0xfd469501u,
	0x698098d8u, 0x8b44f7afu, 0xffff5bb1u, 0x895cd7beu, 0x6b901122u, 0xfd987193u, 0xa679438eu, 0x49b40821u,
	0xf61e2562u, 0xc040b340u, 0x265e5a51u, 0xe9b6c7aau, 0xd62f105du, 0x02441453u, 0xd8a1e681u, 0xe7d3fbc8u,
	0x21e1cde6u, 0xc33707d6u, 0xf4d50d87u, 0x455a14edu, 0xa9e3e905u, 0xfcefa3f8u, 0x676f02d9u, 0x8d2a4c8au,
	0xfffa3942u, 0x8771f681u, 0x6d9d6122u, 0xfde5380cu, 0xa4beea44u, 0x4bdecfa9u, 0xf6bb4b60u, 0xbebfbc70u,
	0x289b7ec6u, 0xeaa127fau, 0xd4ef3085u, 0x04881d05u, 0xd9d4d039u, 0xe6db99e5u, 0x1fa27cf8u, 0xc4ac5665u,
	0xf4292244u, 0x432aff97u, 0xab9423a7u, 0xfc93a039u, 0x655b59c3u, 0x8f0ccc92u, 0xffeff47du, 0x85845dd1u,
	0x6fa87e4fu, 0xfe2ce6e0u, 0xa3014314u, 0x4e0811a1u, 0xf7537e82u, 0xbd3af235u, 0x2ad7d2bbu, 0xeb86d391u
};

/* per-round shift amounts, RFC 1321 3.4 ("[abcd k s i]" tables) */
static const uint8_t vf_md5_S[4][4] = {
	{ 7, 12, 17, 22 }, { 5, 9, 14, 20 }, { 4, 11, 16, 23 }, { 6, 10, 15, 21 }
};

static inline uint32_t vf_md5_rotl(uint32_t x, unsigned s) { return (x << s) | (x >> (32u - s)); }

/* hash[0..3] = A,B,C,D ; blk = 64 message bytes, words little-endian (RFC 1321 section 2) */
static inline void
vf_md5_compress(uint32_t h[4], const uint8_t *blk) {
	uint32_t X[16], a, b, c, d, f, t;
	unsigned i, k;

	for (i = 0; i < 16; i++)
		X[i] = (uint32_t)blk[4 * i] | ((uint32_t)blk[4 * i + 1] << 8) |
		    ((uint32_t)blk[4 * i + 2] << 16) | ((uint32_t)blk[4 * i + 3] << 24);
	a = h[0]; b = h[1]; c = h[2]; d = h[3];
	for (i = 0; i < 64; i++) {
		switch (i >> 4) {
		case 0:  f = (b & c) | (~b & d);	k = i;			break;	/* F, X[i]        */
		case 1:  f = (b & d) | (c & ~d);	k = (1 + 5 * i) & 15;	break;	/* G, X[(1+5i)%16] */
		case 2:  f = b ^ c ^ d;			k = (5 + 3 * i) & 15;	break;	/* H, X[(5+3i)%16] */
		default: f = c ^ (b | ~d);		k = (7 * i) & 15;	break;	/* I, X[7i%16]     */
		}
		/* a = b + ((a + f + X[k] + T[i+1]) <<< s), then rotate the roles (a,b,c,d) <- (d,a,b,c) */
		t = vf_md5_rotl(a + ((f + X[k]) + vf_md5_T[i]), vf_md5_S[i >> 4][i & 3]) + b;
		a = d; d = c; c = b; b = t;
	}
	h[0] += a; h[1] += b; h[2] += c; h[3] += d;
}

#define VF_MD5_IV0 0x67452301u	/* RFC 1321 3.3: word A: 01 23 45 67 */
#define VF_MD5_IV1 0xefcdab89u	/* word B: 89 ab cd ef */
#define VF_MD5_IV2 0x98badcfeu	/* word C: fe dc ba 98 */
#define VF_MD5_IV3 0x10325476u	/* word D: 76 54 32 10 */

/* whole MD5 of msg[0..len): RFC 1321 3.1-3.5 */
static inline void
vf_md5_hash(const uint8_t *msg, size_t len, uint8_t out[16]) {
	uint32_t h[4] = { VF_MD5_IV0, VF_MD5_IV1, VF_MD5_IV2, VF_MD5_IV3 };
	uint8_t blk[64];
	size_t off = 0, i, r;
	uint64_t bits = (uint64_t)len * 8u;

	for (; off + 64 <= len; off += 64)
		vf_md5_compress(h, msg + off);
	r = len - off;
	for (i = 0; i < r; i++) blk[i] = msg[off + i];
	blk[r++] = 0x80;				/* 3.1: a single "1" bit */
	if (r > 56) {					/* no room for the 64-bit length */
		for (; r < 64; r++) blk[r] = 0;
		vf_md5_compress(h, blk);
		r = 0;
	}
	for (; r < 56; r++) blk[r] = 0;			/* 3.1: "0" bits up to 448 mod 512 */
	for (i = 0; i < 8; i++) blk[56 + i] = (uint8_t)(bits >> (8 * i));	/* 3.2: low-order word first */
	vf_md5_compress(h, blk);
	for (i = 0; i < 16; i++) out[i] = (uint8_t)(h[i >> 2] >> (8 * (i & 3)));	/* 3.5 */
}
#endif
