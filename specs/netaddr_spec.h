/*
 * Integer specifications for C18 (socket-address text and prefix arithmetic).
 * Everything here is written from the standard definitions (RFC 4632 / RFC 4291 prefixes,
 * network byte order), not from the library's table `pref_to_mask`.
 *
 *   host order  = the address as the number a.b.c.d -> a<<24 | b<<16 | c<<8 | d
 *   net order   = that number stored big-endian in memory (what s_addr holds)
 */
#ifndef VF_SPECS_NETADDR_H
#define VF_SPECS_NETADDR_H
#include <stdint.h>
#include <stddef.h>

#define VF_BSWAP32(x)	((uint32_t)(						\
	(((uint32_t)(x) & 0x000000ffu) << 24) | (((uint32_t)(x) & 0x0000ff00u) << 8) |	\
	(((uint32_t)(x) & 0x00ff0000u) >> 8) | (((uint32_t)(x) & 0xff000000u) >> 24)))
#define VF_BSWAP16(x)	((uint16_t)((((uint16_t)(x) & 0xffu) << 8) | (((uint16_t)(x) >> 8) & 0xffu)))
#if defined(__BYTE_ORDER__) && __BYTE_ORDER__ == __ORDER_BIG_ENDIAN__
#define VF_HTONL(x)	((uint32_t)(x))
#define VF_HTONS(x)	((uint16_t)(x))
#else
#define VF_HTONL(x)	VF_BSWAP32(x)
#define VF_HTONS(x)	VF_BSWAP16(x)
#endif
#define VF_NTOHL(x)	VF_HTONL(x)
#define VF_NTOHS(x)	VF_HTONS(x)

/* IPv4 netmask of prefix length l (0..32), host order: the l most significant bits set. */
#define VF_MASK4_H(l)	((uint32_t)((l) == 0 ? 0u : (0xffffffffu << (32u - (unsigned)(l)))))
/* ... as stored in s_addr */
#define VF_MASK4_N(l)	VF_HTONL(VF_MASK4_H(l))
/* a 32-bit host-order value is a contiguous mask iff its complement is 2^k - 1 */
#define VF_CONTIG32(h)	((((uint32_t)~(uint32_t)(h)) & (((uint32_t)~(uint32_t)(h)) + 1u)) == 0u)

/* IPv6 netmask of prefix length l (0..128): byte k (0..15) of the 16 address bytes. */
#define VF_MASK6_BYTE(l, k)	((uint8_t)(					\
	(size_t)(k) < (size_t)(l) / 8u ? 0xffu :				\
	(size_t)(k) == (size_t)(l) / 8u ? ((0xff00u >> ((size_t)(l) % 8u)) & 0xffu) : 0u))
/* bits of limb i (0..3, 32 bits each, in address order) covered by prefix l: 0..32 */
#define VF_LIMB_BITS(l, i)	((size_t)(l) <= 32u * (size_t)(i) ? 0u :		\
	((size_t)(l) - 32u * (size_t)(i) >= 32u ? 32u : (unsigned)((size_t)(l) - 32u * (size_t)(i))))
/* limb i of the IPv6 mask, host order / as stored */
#define VF_MASK6_LIMB_H(l, i)	VF_MASK4_H(VF_LIMB_BITS((l), (i)))
#define VF_MASK6_LIMB_N(l, i)	VF_HTONL(VF_MASK6_LIMB_H((l), (i)))
/* bit b (0 = most significant bit of byte 0) of a 16-byte address */
#define VF_BITOF(byte, b)	((unsigned)(((uint8_t)(byte)) >> (7u - ((b) % 8u))) & 1u)
#define VF_BIT6(bytes, b)	VF_BITOF(((const uint8_t *)(bytes))[(b) / 8u], (b))

/* number of decimal digits of a port */
#define VF_PORTLEN(p)	((size_t)((p) < 10u ? 1 : (p) < 100u ? 2 : (p) < 1000u ? 3 : (p) < 10000u ? 4 : 5))

/* ---- text splitting of the parsers (documented forms: "a.b.c.d", "[v6]", "v6", "a.b.c.d:port",
 *      "[v6]:port", "v6:port" (last colon), "addr/len") ------------------------------------- */
struct vf_split {
	size_t a0, a1;		/* address text = buf[a0..a1) */
	int has_num;		/* a number (port / prefix length) follows */
	size_t n0;		/* its characters = buf[n0..n) */
};
#define VF_IS_LEAD(c)	((c) == ' ' || (c) == '\t' || (c) == '[')
#define VF_IS_TRAIL(c)	((c) == ' ' || (c) == '\t' || (c) == ']')
/* strip blanks/tabs/'[' in front and blanks/tabs/']' behind */
static inline void vf_spec_strip(const char *b, struct vf_split *sp) {
	while (sp->a0 < sp->a1 && VF_IS_LEAD(b[sp->a0]))
		sp->a0 ++;
	while (sp->a0 < sp->a1 && VF_IS_TRAIL(b[sp->a1 - 1]))
		sp->a1 --;
}
/* index of the last c in b[0..n), n if there is none */
static inline size_t vf_spec_last(const char *b, size_t n, char c) {
	size_t r = n;
	for (size_t i = 0; i < n; i ++) {
		if (b[i] == c)
			r = i;
	}
	return (r);
}
/* address only */
static inline struct vf_split vf_spec_split_addr(const char *b, size_t n) {
	struct vf_split sp = { 0, n, 0, n };
	vf_spec_strip(b, &sp);
	return (sp);
}
/* address with optional ":port": the port follows the LAST colon, provided that colon is not
 * the first character, is not part of "::" and stands after the last ']' (if any); the address
 * ends at the last ']' (if any), else at that colon, else at the end */
static inline struct vf_split vf_spec_split_port(const char *b, size_t n) {
	struct vf_split sp = { 0, n, 0, n };
	size_t c = vf_spec_last(b, n, ':'), e = vf_spec_last(b, n, ']');
	if (c < n && c > 0 && b[c - 1] != ':' && (e == n || c > e)) {
		sp.has_num = 1;
		sp.n0 = c + 1;
		sp.a1 = (e < n) ? e : c;
	} else if (e < n)
		sp.a1 = e;
	vf_spec_strip(b, &sp);
	return (sp);
}
/* "addr/len": the length follows the LAST '/' */
static inline struct vf_split vf_spec_split_net(const char *b, size_t n) {
	struct vf_split sp = { 0, n, 0, n };
	size_t c = vf_spec_last(b, n, '/');
	if (c < n) {
		sp.has_num = 1;
		sp.n0 = c + 1;
		sp.a1 = c;
	}
	vf_spec_strip(b, &sp);
	return (sp);
}
/* the number the library reads from b[0..n): its decimal digits, other characters skipped,
 * reduced modulo 2^16 (utils/str2num.h str2u16) */
static inline uint16_t vf_spec_digits16(const char *b, size_t n) {
	uint16_t r = 0;
	for (size_t i = 0; i < n; i ++) {
		if (b[i] >= '0' && b[i] <= '9')
			r = (uint16_t)(r * 10u + (unsigned)(b[i] - '0'));
	}
	return (r);
}
/* strict reading: 1..maxdigits (<= 9) decimal digits and nothing else, value <= max */
static inline int vf_spec_strict_num(const char *b, size_t n, size_t maxdigits, unsigned long max) {
	unsigned long v = 0;
	if (n == 0 || n > maxdigits)
		return (0);
	for (size_t i = 0; i < n; i ++) {
		if (b[i] < '0' || b[i] > '9')
			return (0);
		v = v * 10u + (unsigned)(b[i] - '0');
	}
	return (v <= max);
}

#endif
