/* Bitwise CRC-32 definitions (Rocksoft model: width=32, poly, refin/refout) - the spec. */
#ifndef VF_CRC32_SPEC_H
#define VF_CRC32_SPEC_H
#include <stdint.h>
#include <stddef.h>
static inline uint32_t vf_reflect32(uint32_t x) {
	uint32_t r = 0;
	for (int i = 0; i < 32; i ++)
		if (x & (1u << i)) r |= (1u << (31 - i));
	return (r);
}
/* MSB-first (refin=false): feed one byte */
static inline uint32_t vf_crc_normal_byte(uint32_t poly, uint32_t crc, uint8_t b) {
	crc ^= ((uint32_t)b << 24);
	for (int i = 0; i < 8; i ++)
		crc = (crc & 0x80000000u) ? ((crc << 1) ^ poly) : (crc << 1);
	return (crc);
}
/* LSB-first (refin=true, refout=true): feed one byte, rpoly = reflect(poly) */
static inline uint32_t vf_crc_reflect_byte(uint32_t rpoly, uint32_t crc, uint8_t b) {
	crc ^= (uint32_t)b;
	for (int i = 0; i < 8; i ++)
		crc = (crc & 1u) ? ((crc >> 1) ^ rpoly) : (crc >> 1);
	return (crc);
}
#endif
