/*
 * RFC 1035 encoder used as the specification of the construction side of include/proto/dns.h
 * (C15).  Plain C over byte indices, independent of the library's pointer code.
 *   3.1 / 4.1.2  a domain name is a sequence of labels, each a length octet (1..63) followed by
 *                that many octets, terminated by the zero length octet of the root; 2.3.4: at
 *                most 255 octets in total
 *   4.1.2        question = QNAME QTYPE(16) QCLASS(16), big-endian
 *   4.1.3        RR = NAME TYPE(16) CLASS(16) TTL(32) RDLENGTH(16) RDATA, big-endian
 *   4.1.1        header = ID FLAGS QDCOUNT ANCOUNT NSCOUNT ARCOUNT, 16 bits each
 * Dotted text: labels separated by '.', no trailing dot ("a.b" ; "" is the root).
 */
#ifndef VF_SPECS_DNS_BUILD_H
#define VF_SPECS_DNS_BUILD_H
#include <stddef.h>
#include <stdint.h>

/* wire form of the dotted name text[0..len) into out[0..cap); returns the wire size, or 0 when
 * the text is not a valid host name (empty label, label > 63, total > 255) or does not fit */
static size_t
vf_dns_spec_name(const uint8_t *text, size_t len, uint8_t *out, size_t cap) {
	size_t i, start = 0, o = 0, l;

	if (len == 0) {
		if (cap < 1)
			return (0);
		out[0] = 0;
		return (1);
	}
	if (len + 2 > 255 || len + 2 > cap)
		return (0);
	for (i = 0; i <= len; i ++) {
		if (i == len || text[i] == '.') {
			l = i - start;
			if (l == 0 || l > 63)
				return (0);
			out[o] = (uint8_t)l;
			for (size_t j = 0; j < l; j ++)
				out[o + 1 + j] = text[start + j];
			o += l + 1;
			start = i + 1;
		}
	}
	out[o] = 0;
	return (o + 1);
}

static void
vf_dns_spec_be16(uint8_t *out, uint16_t v) {
	out[0] = (uint8_t)(v >> 8);
	out[1] = (uint8_t)v;
}

static void
vf_dns_spec_be32(uint8_t *out, uint32_t v) {
	out[0] = (uint8_t)(v >> 24);
	out[1] = (uint8_t)(v >> 16);
	out[2] = (uint8_t)(v >> 8);
	out[3] = (uint8_t)v;
}
#endif
