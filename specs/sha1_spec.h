/*
 * SHA-1 as defined by FIPS 180-4 (sections 4.1.1, 4.2.1, 5.1.1, 5.3.1, 6.1), written from
 * the standard's text, NOT from include/crypto/hash/sha1.h.
 *
 *   vf_sha1_compress()  section 6.1.2 steps 1-4 for one 512-bit block
 *   vf_sha1_hash()      the whole function (padding 5.1.1, IV 5.3.1, blocks, output) - used by
 *                       the native self test only (harness/C04/spec_selftest.c)
 *
 * Two spellings differ from the letter of FIPS 180-4 without changing the function, because
 * the SMT back end only finishes when both sides of the equivalence carry the same terms
 * (DESIGN.md section 2):
 *   - 6.1.2 step 3 writes  T = ROTL5(a) + f_t(b,c,d) + e + K_t + W_t ; addition mod 2^32 is
 *     associative and commutative, the sum is written here as  ... + e + W_t + K_t ;
 *   - 4.1.1 writes Ch(x,y,z) = (x AND y) XOR (NOT x AND z) and Maj = (x AND y) XOR (x AND z) XOR
 *     (y AND z); VF_CH / VF_MAJ below use OR.  Both identities hold bit by bit (the Ch terms
 *     are disjoint; Maj is the majority either way) and are PROVED for all 64-bit x, y, z by
 *     the job "sha.lemma.ch_maj" (harness/C04/sha_lemma.c) against VF_CH_FIPS / VF_MAJ_FIPS.
 * The native self test runs this text against the published vectors.
 */
#ifndef VF_SHA1_SPEC_H
#define VF_SHA1_SPEC_H
#include <stdint.h>
#include <stddef.h>

/* FIPS 180-4 4.1.1 / 4.1.2 / 4.1.3, to the letter */
#ifndef VF_CH_FIPS
#define VF_CH_FIPS(x, y, z)	(((x) & (y)) ^ (~(x) & (z)))
#define VF_MAJ_FIPS(x, y, z)	(((x) & (y)) ^ ((x) & (z)) ^ ((y) & (z)))
/* the same functions spelled with OR (see above) */
#define VF_CH(x, y, z)		(((x) & (y)) | (~(x) & (z)))
#define VF_MAJ(x, y, z)		(((x) & (y)) | ((x) & (z)) | ((y) & (z)))
#endif

static inline uint32_t vf_sha1_rotl(unsigned n, uint32_t x) { return (x << n) | (x >> (32u - n)); }

/* FIPS 180-4 4.2.1 */
static const uint32_t vf_sha1_K[4] = { 0x5a827999u, 0x6ed9eba1u, 0x8f1bbcdcu, 0xca62c1d6u };
/* FIPS 180-4 5.3.1 */
static const uint32_t vf_sha1_H0[5] = { 0x67452301u, 0xefcdab89u, 0x98badcfeu, 0x10325476u, 0xc3d2e1f0u };

static inline void
vf_sha1_compress(uint32_t h[5], const uint8_t *blk) {
	uint32_t W[80], a, b, c, d, e, f, T;
	unsigned t;

	for (t = 0; t < 16; t++)	/* M_t: big-endian 32-bit words (section 3.1) */
		W[t] = ((uint32_t)blk[4 * t] << 24) | ((uint32_t)blk[4 * t + 1] << 16) |
		    ((uint32_t)blk[4 * t + 2] << 8) | (uint32_t)blk[4 * t + 3];
	for (t = 16; t < 80; t++)
		W[t] = vf_sha1_rotl(1, W[t - 3] ^ W[t - 8] ^ W[t - 14] ^ W[t - 16]);
	a = h[0]; b = h[1]; c = h[2]; d = h[3]; e = h[4];
	for (t = 0; t < 80; t++) {
		if (t < 20)		f = VF_CH(b, c, d);
		else if (t < 40)	f = b ^ c ^ d;				/* Parity */
		else if (t < 60)	f = VF_MAJ(b, c, d);
		else			f = b ^ c ^ d;				/* Parity */
		T = vf_sha1_rotl(5, a) + f + e + W[t] + vf_sha1_K[t / 20];
		e = d; d = c; c = vf_sha1_rotl(30, b); b = a; a = T;
	}
	h[0] += a; h[1] += b; h[2] += c; h[3] += d; h[4] += e;
}

static inline void
vf_sha1_hash(const uint8_t *msg, size_t len, uint8_t out[20]) {
	uint32_t h[5];
	uint8_t blk[64];
	size_t off = 0, i, r;
	uint64_t bits = (uint64_t)len * 8u;

	for (i = 0; i < 5; i++) h[i] = vf_sha1_H0[i];
	for (; off + 64 <= len; off += 64)
		vf_sha1_compress(h, msg + off);
	r = len - off;
	for (i = 0; i < r; i++) blk[i] = msg[off + i];
	blk[r++] = 0x80;			/* 5.1.1: bit "1" */
	if (r > 56) {
		for (; r < 64; r++) blk[r] = 0;
		vf_sha1_compress(h, blk);
		r = 0;
	}
	for (; r < 56; r++) blk[r] = 0;		/* k zero bits, l + 1 + k = 448 mod 512 */
	for (i = 0; i < 8; i++) blk[56 + i] = (uint8_t)(bits >> (8 * (7 - i)));	/* 64-bit big-endian l */
	vf_sha1_compress(h, blk);
	for (i = 0; i < 20; i++) out[i] = (uint8_t)(h[i >> 2] >> (8 * (3 - (i & 3))));
}
#endif
