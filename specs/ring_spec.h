/*
 * Specification vocabulary for src/utils/ring_buffer.c (property C19; DESIGN.md section 5
 * "C19").  Include after "utils/ring_buffer.h".  Plain C: also compiled for the native
 * replay (-DVF_REPLAY); CBMC-only memory primitives are guarded.
 *
 * Abstract view.  The writer lays blocks out in increasing addresses inside
 * [buf, buf + size); iov[0 .. iov_index) are the blocks committed in the current round,
 * iov[iov_index] is the slot being written (length 0: "open") or the block committed last
 * (r_buf_wbuf_set does not advance), and - once the ring has wrapped (RBUF_F_FULL) -
 * iov(iov_index .. iov_index_max] are remnants: blocks of the PREVIOUS round whose table
 * entries have not been reused yet.  The stream is the sequence remnants, then current
 * round; a reader cursor (round, index, offset) names a block of it.
 *
 * BOUNDED SHAPE: the block table has VF_RB_IOVN = 6 entries in every harness (r_buf_alloc
 * makes size / min_block_size + 32).  The relation that makes the table sufficient is kept
 * in its general form:   size / min_block_size + 2 <= iov_count,  written without division
 * as  size < (iov_count - 1) * min_block_size;  the slack is 2 instead of 32.
 */
#ifndef VF_SPECS_RING_SPEC_H
#define VF_SPECS_RING_SPEC_H

#include "vf/vf.h"

#ifndef VF_RB_IOVN
#define VF_RB_IOVN	6	/* table entries of the harness ring (jobs may state a smaller table) */
#endif
#ifndef VF_RB_MAXSIZE
#define VF_RB_MAXSIZE	(((size_t)1) << 40)	/* ring sizes of the harnesses (no wrap of 5 * mbs) */
#endif

/* offset of a pointer into the ring storage (callers establish same-object first) */
#ifndef VF_REPLAY
#define VF_RB_SAME(r, p)	(__CPROVER_same_object((p), (r)->buf))
#define VF_RB_OFF(r, p)		((size_t)__CPROVER_POINTER_OFFSET(p))
#else
#define VF_RB_SAME(r, p)	((p) >= (r)->buf && (p) <= (r)->buf + (r)->size)
#define VF_RB_OFF(r, p)		((size_t)((p) - (r)->buf))
#endif

/* [p, p + len) inside the ring storage */
static inline int
vf_rb_inside(const r_buf_t *r, const uint8_t *p, size_t len) {

	if (p == NULL || !VF_RB_SAME(r, p))
		return (0);
	return (VF_RB_OFF(r, p) <= r->size && len <= r->size - VF_RB_OFF(r, p));
}

/* number of blocks committed in the current round */
static inline size_t
vf_rb_ncommitted(const r_buf_t *r) {
	return (r->iov_index + ((r->iov[r->iov_index].iov_len != 0) ? 1 : 0));
}

/* ---------------------------------------------------------------- invariant ---- */
static inline int
vf_rb_wf(const r_buf_t *r) {
	size_t i, n, end, off, mbs = r->min_block_size;
	const int frag = ((r->flags & RBUF_F_FRAG) != 0);

	if (r->buf == NULL || r->iov == NULL)
		return (0);
#ifndef VF_REPLAY
	if (__CPROVER_POINTER_OFFSET(r->buf) != 0 || __CPROVER_OBJECT_SIZE(r->buf) != r->size ||
	    __CPROVER_POINTER_OFFSET(r->iov) != 0 ||
	    __CPROVER_OBJECT_SIZE(r->iov) != VF_RB_IOVN * sizeof(iovec_t) ||
	    !__CPROVER_rw_ok(r->iov, VF_RB_IOVN * sizeof(iovec_t)))
		return (0);
#endif
	/* geometry */
	if (r->iov_count != VF_RB_IOVN || r->size == 0 || r->size > VF_RB_MAXSIZE ||
	    mbs == 0 || mbs > r->size)
		return (0);
	if (r->size >= (VF_RB_IOVN - 1) * mbs) /* size / mbs + 2 <= iov_count */
		return (0);
	if (r->buf_max != r->buf + r->size || r->wpos > r->size)
		return (0);
	/* the table cannot overflow: the slot after the current one exists */
	if (r->iov_index >= VF_RB_IOVN - 1 || r->iov_index_max >= VF_RB_IOVN - 1)
		return (0);
	/* blocks of the current round: inside the ring, >= min_block_size, address ordered
	 * (contiguous unless RBUF_F_FRAG), the last one ends at wpos */
	n = vf_rb_ncommitted(r);
	end = 0;
	for (i = 0; i < n; i ++) {
		if (!vf_rb_inside(r, r->iov[i].iov_base, r->iov[i].iov_len))
			return (0);
		off = VF_RB_OFF(r, r->iov[i].iov_base);
		if (r->iov[i].iov_len < mbs || off < end || (!frag && off != end))
			return (0);
		end = off + r->iov[i].iov_len;
	}
	if (end != r->wpos) /* nothing committed in this round <=> wpos == 0 */
		return (0);
	/* open slot: never used yet, or positioned at the write offset */
	if (r->iov[r->iov_index].iov_len == 0 && r->iov[r->iov_index].iov_base != NULL &&
	    (!VF_RB_SAME(r, r->iov[r->iov_index].iov_base) ||
	     VF_RB_OFF(r, r->iov[r->iov_index].iov_base) != r->wpos))
		return (0);
	/* last valid index: never below the last committed block of this round */
	if (n > 0 && r->iov_index_max + 1 < n)
		return (0);
	if ((r->flags & RBUF_F_FULL) == 0) /* first round: nothing beyond the writer */
		return (r->iov_index_max <= r->iov_index);
	/* remnants of the previous round: inside, >= min_block_size, address ordered */
	end = 0;
	for (i = r->iov_index + 1; i <= r->iov_index_max; i ++) {
		if (!vf_rb_inside(r, r->iov[i].iov_base, r->iov[i].iov_len))
			return (0);
		off = VF_RB_OFF(r, r->iov[i].iov_base);
		if (r->iov[i].iov_len < mbs || off < end ||
		    (!frag && i > r->iov_index + 1 && off != end))
			return (0);
		end = off + r->iov[i].iov_len;
	}
	return (1);
}

/* state between r_buf_wbuf_get and the commit: the current slot is open at wpos */
static inline int
vf_rb_open(const r_buf_t *r) {
	return (r->iov[r->iov_index].iov_len == 0 &&
	    r->iov[r->iov_index].iov_base == r->buf + r->wpos);
}

/* ------------------------------------------------------------------ readers ---- */
/* a cursor always indexes inside the table (it held a table index at some time) */
static inline int
vf_rb_rpos_wf(const r_buf_t *r, const r_buf_rpos_t *rp) {
	(void)r;
	return (rp->iov_index < VF_RB_IOVN);
}

/* the block the cursor names has not been overwritten: the cursor is usable as it is
 * (C19: "never silently returning overwritten bytes as if they were in sequence") */
static inline int
vf_rb_rpos_valid(const r_buf_t *r, const r_buf_rpos_t *rp) {

	if (rp->round_num == r->round_num)
		return (rp->iov_index <= r->iov_index + 1);
	if ((size_t)(rp->round_num + 1) == r->round_num) {
		if (rp->iov_index > r->iov_index_max)
			return (1); /* consumed the whole previous round: continues at block 0 */
		return (rp->iov_index > r->iov_index &&
		    VF_RB_OFF(r, r->iov[rp->iov_index].iov_base) >= r->wpos);
	}
	return (0);
}

/* sum of block lengths iov[from .. to] (to < from: 0) */
static inline size_t
vf_rb_sum(const r_buf_t *r, size_t from, size_t to) {
	size_t i, s = 0;

	/* constant table indices, guarded: no symbolic array indexing for the solver */
	for (i = 0; i < VF_RB_IOVN; i ++) {
		if (from <= i && i <= to)
			s += r->iov[i].iov_len;
	}
	return (s);
}

/* sum of cnt consecutive block lengths starting at table index from */
static inline size_t
vf_rb_run(const r_buf_t *r, size_t from, size_t cnt) {
	size_t i, s = 0;

	for (i = 0; i < cnt && i < VF_RB_IOVN; i ++)
		s += r->iov[from + i].iov_len;
	return (s);
}

/*
 * Bytes between an accepted cursor and the writer: the blocks from the cursor to the last
 * valid index of its round, plus - for a cursor of the previous round - the blocks of the
 * current round, minus the offset already consumed inside the first block.
 * With RBUF_F_FRAG the blocks are summed; without it the blocks of a round are contiguous
 * (invariant) and the same quantity is the address difference "end of the last block -
 * start of the cursor's block".  [That the two forms agree under contiguity is the
 * telescoping sum of the invariant's `off == end` clause: 64-bit re-association that none of
 * the installed back ends closed in 300 s; it is argued on paper, see obligations/C19.json.]
 */
static inline size_t
vf_rb_avail(const r_buf_t *r, const r_buf_rpos_t *rp) {
	const int frag = ((r->flags & RBUF_F_FRAG) != 0);
	const size_t idx = rp->iov_index, cur = r->iov_index, max = r->iov_index_max;

	if (rp->round_num == r->round_num) {
		if (idx > cur)
			return (0);
		if (frag)
			return (vf_rb_run(r, idx, 1 + cur - idx) - rp->iov_off);
		return (r->wpos - VF_RB_OFF(r, r->iov[idx].iov_base) - rp->iov_off);
	}
	if (frag)
		return (vf_rb_run(r, idx, 1 + max - idx) + vf_rb_run(r, 0, 1 + cur) - rp->iov_off);
	return ((VF_RB_OFF(r, r->iov[max].iov_base) + r->iov[max].iov_len -
	    VF_RB_OFF(r, r->iov[idx].iov_base)) + r->wpos - rp->iov_off);
}

/* ------------------------------------------------- symbolic ring builder ---- */
#ifndef VF_REPLAY
void *malloc(__CPROVER_size_t);
#define VF_RB_ALLOC(n)	malloc(n)
#define VF_RB_ALLOC_STORAGE(n)	malloc(n)
#else
#include <sys/mman.h>
#define VF_RB_ALLOC(n)	malloc((n) ? (n) : 1)
/* the ring functions never touch the stored bytes: natively the storage is only an address
 * range (up to 2^40 bytes), reserved without memory; 78 = replay inconclusive */
static inline void *
vf_rb_reserve(size_t n) {
	void *p = mmap(NULL, n, PROT_NONE, MAP_PRIVATE | MAP_ANONYMOUS | MAP_NORESERVE, -1, 0);
	if (p == MAP_FAILED)
		exit(78);
	return (p);
}
#define VF_RB_ALLOC_STORAGE(n)	vf_rb_reserve(n)
#endif

struct vf_rb_shape {
	size_t		size, wpos, iov_index, iov_index_max, round_num, min_block_size;
	uint32_t	flags;
	size_t		off[VF_RB_IOVN], len[VF_RB_IOVN];
	uint8_t		isnull[VF_RB_IOVN];
};

/* a ring whose every field is symbolic (table fixed at VF_RB_IOVN entries); the caller
 * assumes vf_rb_wf() afterwards */
static inline r_buf_p
vf_rb_build(const struct vf_rb_shape *s) {
	r_buf_p r;
	size_t i;

	VF_ASSUME(s->size != 0 && s->size <= VF_RB_MAXSIZE);
	r = (r_buf_p)VF_RB_ALLOC(sizeof(r_buf_t));
	VF_ASSUME(r != NULL);
	r->buf = (uint8_t *)VF_RB_ALLOC_STORAGE(s->size);
	VF_ASSUME(r->buf != NULL);
	r->iov = (iovec_p)VF_RB_ALLOC(VF_RB_IOVN * sizeof(iovec_t));
	VF_ASSUME(r->iov != NULL);
	r->size = s->size;
	r->wpos = s->wpos;
	r->buf_max = r->buf + s->size;
	r->iov_count = VF_RB_IOVN;
	r->iov_index = s->iov_index;
	r->iov_index_max = s->iov_index_max;
	r->round_num = s->round_num;
	r->min_block_size = s->min_block_size;
	r->iov_size = VF_RB_IOVN * sizeof(iovec_t);
	r->flags = s->flags;
	for (i = 0; i < VF_RB_IOVN; i ++) {
		VF_ASSUME(s->off[i] <= s->size);
		r->iov[i].iov_base = s->isnull[i] ? NULL : (r->buf + s->off[i]);
		r->iov[i].iov_len = s->len[i];
	}
	return (r);
}

#endif /* VF_SPECS_RING_SPEC_H */
