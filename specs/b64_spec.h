/* RFC 4648 section 4 written as a specification (not taken from the library). */
#ifndef VF_B64_SPEC_H
#define VF_B64_SPEC_H
#include <stdint.h>
#include <stddef.h>
static const char vf_b64_alphabet[65] =
    "ABCDEFGHIJKLMNOPQRSTUVWXYZ" "abcdefghijklmnopqrstuvwxyz" "0123456789" "+/";
/* k-th output character (k = 0..3) of the group that starts at in[g], with `avail` input
 * bytes available in that group (1..3); '=' for padding positions */
static inline uint8_t
vf_b64_spec_char(const uint8_t *in, size_t avail, unsigned k) {
	uint32_t v = ((uint32_t)in[0] << 16) |
	    ((avail > 1 ? (uint32_t)in[1] : 0u) << 8) |
	    (avail > 2 ? (uint32_t)in[2] : 0u);
	if (k >= avail + 1)
		return ('=');
	return ((uint8_t)vf_b64_alphabet[(v >> (18 - 6 * k)) & 0x3f]);
}
#endif
