/*
 * Specification vocabulary for include/math/big_num.h (property C01; DESIGN.md section 4,
 * "Bignum abstraction").  Include AFTER "math/big_num.h" (contracts/bn.h does that).
 *
 *   vf_bnv_t               unsigned bit-vector wide enough for the product of two numbers of
 *                          BN_BIT_LEN bits plus slack (2*BN_BIT_LEN + 64 bits)
 *   VF_DIGITS_VAL(a, n)    sum_{i<n} a[i] * 2^(W*i)   (only a[0..n-1] are read)
 *   VF_BN_VAL(s)           value of the bn_t lvalue s = VF_DIGITS_VAL(s.num, s.digits);
 *                          entries of num[] at index >= digits do not take part: harnesses leave
 *                          them unconstrained (stale storage)
 *   VF_BN_WF(s)            1 <= count <= BN_MAX_DIGITS, digits <= count, top significant digit != 0
 *   VF_POW2W(n)            2^(W*n) as vf_bnv_t
 *
 * All of it is macros (no loops, no calls) so that it can be used inside __CPROVER_old().
 */
#ifndef VF_SPECS_BN_SPEC_H
#define VF_SPECS_BN_SPEC_H

#include "vf/vf.h"

#define VF_W		BN_DIGIT_BIT_CNT

/* harness-owned exact-size heap object (symbolic size allowed): CBMC malloc / native malloc */
#ifndef VF_REPLAY
void *malloc(__CPROVER_size_t);
/* the size goes through a variable on purpose: CBMC then types the object as a byte array; with
 * the size expression n*sizeof(T) it would be typed T[n], and cbmc 6.11 models byte-granular
 * memset/memcpy/memmove (array_replace) into such an object imprecisely for W > 8 (spurious
 * counterexamples: memset(a, 0, 16) leaving a 64-bit digit non-zero) */
#define VF_BN_ALLOC(T, name, nbytes)	size_t name##_nbytes = (nbytes); T *name = (T *)malloc(name##_nbytes); __CPROVER_assume(name != NULL)
#else
#define VF_BN_ALLOC(T, name, nbytes)	T *name = (T *)vf_replay_alloc(#name, (nbytes), 0)
#endif

#ifndef VF_REPLAY
VF_NONDET_DECL(bn_digit_t, bn_digit_t);

#ifndef VF_BN_VBITS
#define VF_BN_VBITS	(2 * BN_BIT_LEN + 64)
#endif
typedef unsigned __CPROVER_bitvector[VF_BN_VBITS] vf_bnv_t;
/* double / triple digit for the digit primitives */
typedef unsigned __CPROVER_bitvector[2 * VF_W] vf_dd_t;
typedef unsigned __CPROVER_bitvector[3 * VF_W] vf_td_t;

#define VF_POW2W(n)	(((vf_bnv_t)1) << (VF_W * (n)))
#define VF_POW2(bits)	(((vf_bnv_t)1) << (bits))

/* one term; i is a literal */
#define VF_DT(a, n, i)							\
	((((i) < BN_MAX_DIGITS) && ((size_t)(i) < (size_t)(n))) ?	\
	    (((vf_bnv_t)(a)[(i) < BN_MAX_DIGITS ? (i) : 0]) << ((VF_W * (i)) % VF_BN_VBITS)) : (vf_bnv_t)0)
#define VF_DIGITS_VAL(a, n) (						\
	VF_DT(a,n,0) | VF_DT(a,n,1) | VF_DT(a,n,2) | VF_DT(a,n,3) |	\
	VF_DT(a,n,4) | VF_DT(a,n,5) | VF_DT(a,n,6) | VF_DT(a,n,7) |	\
	VF_DT(a,n,8) | VF_DT(a,n,9) | VF_DT(a,n,10) | VF_DT(a,n,11) |	\
	VF_DT(a,n,12) | VF_DT(a,n,13) | VF_DT(a,n,14) | VF_DT(a,n,15) |	\
	VF_DT(a,n,16) | VF_DT(a,n,17) | VF_DT(a,n,18) | VF_DT(a,n,19) |	\
	VF_DT(a,n,20) | VF_DT(a,n,21) | VF_DT(a,n,22) | VF_DT(a,n,23) |	\
	VF_DT(a,n,24) | VF_DT(a,n,25) | VF_DT(a,n,26) | VF_DT(a,n,27) |	\
	VF_DT(a,n,28) | VF_DT(a,n,29) | VF_DT(a,n,30) | VF_DT(a,n,31))
#if BN_BIT_LEN / BN_DIGIT_BIT_CNT > 32
#error "VF_DIGITS_VAL covers at most 32 digits"
#endif

/* Entry value of the array inside an ensures clause.  __CPROVER_old() accepts only lvalue-shaped
 * expressions (no ?:, no calls) and is evaluated unconditionally at function entry, hence the
 * guarded index: digit i is snapshotted only if i < n, otherwise a[0] is (the contracts require
 * a[0] to be readable whenever they use this). */
#define VF_DTO(a, n, i)							\
	((((i) < BN_MAX_DIGITS) && ((size_t)(i) < (size_t)(n))) ?	\
	    (((vf_bnv_t)__CPROVER_old((a)[((size_t)(i) < (size_t)(n) && (i) < BN_MAX_DIGITS) ? (i) : 0])) << ((VF_W * (i)) % VF_BN_VBITS)) : (vf_bnv_t)0)
#define VF_DIGITS_OLD(a, n) (						\
	VF_DTO(a,n,0) | VF_DTO(a,n,1) | VF_DTO(a,n,2) | VF_DTO(a,n,3) |	\
	VF_DTO(a,n,4) | VF_DTO(a,n,5) | VF_DTO(a,n,6) | VF_DTO(a,n,7) |	\
	VF_DTO(a,n,8) | VF_DTO(a,n,9) | VF_DTO(a,n,10) | VF_DTO(a,n,11) |	\
	VF_DTO(a,n,12) | VF_DTO(a,n,13) | VF_DTO(a,n,14) | VF_DTO(a,n,15) |	\
	VF_DTO(a,n,16) | VF_DTO(a,n,17) | VF_DTO(a,n,18) | VF_DTO(a,n,19) |	\
	VF_DTO(a,n,20) | VF_DTO(a,n,21) | VF_DTO(a,n,22) | VF_DTO(a,n,23) |	\
	VF_DTO(a,n,24) | VF_DTO(a,n,25) | VF_DTO(a,n,26) | VF_DTO(a,n,27) |	\
	VF_DTO(a,n,28) | VF_DTO(a,n,29) | VF_DTO(a,n,30) | VF_DTO(a,n,31))

/* bn_t: current value by macro; entry value through ONE snapshot of the whole object:
 *     vf_bn_val(__CPROVER_old(*bn))            (spec function, by-value struct)       */
#define VF_BN_VAL(s)	VF_DIGITS_VAL((s).num, (s).digits)
#define VF_BN_WF(s)	((s).count >= 1 && (s).count <= BN_MAX_DIGITS &&	\
	(s).digits <= (s).count &&						\
	((s).digits == 0 || (s).num[(s).digits - 1] != 0))
static inline vf_bnv_t
vf_bn_val(bn_t s) {
	vf_bnv_t v = 0;
	for (size_t i = 0; i < BN_MAX_DIGITS; i ++)
		if (i < s.digits)
			v |= (((vf_bnv_t)s.num[i]) << (VF_W * i));
	return (v);
}
#define VF_BN_OLDVAL(p)	vf_bn_val(__CPROVER_old(*(p)))
/* capacity modulus of s */
#define VF_BN_CAP(s)	VF_POW2W((s).count)

/* valid bn_t object (caller-owned; the same clause is assumed when the function is enforced and
 * asserted at call sites when the function is replaced by its contract) */
#define VF_BN_OK(p)	__CPROVER_rw_ok((p), sizeof(bn_t))
#define VF_BN_ROK(p)	__CPROVER_r_ok((p), sizeof(bn_t))
/* frame of a bn_t result: digits and num[] (count is never changed by arithmetic) */
#define VF_BN_FRAME(p)	(p)->digits, __CPROVER_object_upto((p)->num, sizeof((p)->num))

/* ---- digit-level spec functions (width-bounded loops) ---- */
static inline size_t
vf_d_popcount(bn_digit_t d) {
	size_t n = 0;
	for (size_t i = 0; i < VF_W; i ++)
		n += (size_t)((d >> i) & 1);
	return (n);
}
static inline size_t
vf_d_ctz(bn_digit_t d) { /* W for 0 */
	size_t n = VF_W;
	for (size_t i = VF_W; i > 0; i --)
		if (0 != ((d >> (i - 1)) & 1))
			n = (i - 1);
	return (n);
}
static inline size_t
vf_d_clz(bn_digit_t d) { /* W for 0 */
	size_t n = VF_W;
	for (size_t i = 0; i < VF_W; i ++)
		if (0 != ((d >> i) & 1))
			n = (VF_W - 1 - i);
	return (n);
}
#define VF_D_IS_POW2(d)	((d) != 0 && ((d) & (bn_digit_t)((d) - 1)) == 0)

#else /* VF_REPLAY: native oracle only for small configurations */
#if BN_BIT_LEN <= 64
typedef unsigned __int128 vf_bnv_t;
static inline vf_bnv_t
vf_native_val(const bn_digit_t *a, size_t n) {
	vf_bnv_t v = 0;
	for (size_t i = 0; i < n && i < BN_MAX_DIGITS; i ++)
		v |= ((vf_bnv_t)a[i]) << (VF_W * i);
	return (v);
}
#define VF_DIGITS_VAL(a, n)	vf_native_val((a), (n))
#define VF_BN_VAL(s)		vf_native_val((s).num, (s).digits)
#define VF_POW2W(n)		(((vf_bnv_t)1) << (VF_W * (n)))
#define VF_BN_CAP(s)		VF_POW2W((s).count)
#define VF_BN_HAVE_NATIVE_VAL	1
#endif
#define VF_BN_WF(s)	((s).count >= 1 && (s).count <= BN_MAX_DIGITS &&	\
	(s).digits <= (s).count &&						\
	((s).digits == 0 || (s).num[(s).digits - 1] != 0))
#endif /* VF_REPLAY */

#endif /* VF_SPECS_BN_SPEC_H */
